"""C15 library: tensorclass subjects, canonical observations, argument synthesis from signatures, invocation recipes
for methods / properties / operators / torch functions, and the spec oracle "tc.m(*a) is td.m(*a) re-wrapped".
Nothing in this file depends on the Coq model."""
import inspect
import json
import operator
import pickle
import shutil
import tempfile

_T = {}
FIELDS_STD = ["x", "y", "s", "o", "d"]


def T():
    """lazy imports + subject classes (tensordict must be imported after cext.install())"""
    if _T:
        return _T
    import typing
    import torch
    import tensordict
    from tensordict import TensorDict, TensorDictBase, LazyStackedTensorDict, lazy_stack, tensorclass, TensorClass
    from tensordict.tensorclass import NonTensorData, NonTensorStack

    Optional, Any = typing.Optional, typing.Any
    ns = {"torch": torch, "Optional": Optional, "Any": Any}

    def deco(**opt):
        def mk(c):
            c.__module__ = __name__
            c.__qualname__ = c.__name__
            c = tensorclass(**opt)(c) if opt else tensorclass(c)
            globals()[c.__name__] = c
            return c
        return mk

    @deco()
    class C15Dec:
        x: torch.Tensor
        y: torch.Tensor
        s: str
        o: Optional[torch.Tensor] = None
        d: str = "dflt"

    class C15Sub(TensorClass):
        x: torch.Tensor
        y: torch.Tensor
        s: str
        o: Optional[torch.Tensor] = None
        d: str = "dflt"

    @deco()
    class C15Nest:
        inner: C15Dec
        z: torch.Tensor
        tag: Any

    class C15SubNest(TensorClass):
        inner: C15Sub
        z: torch.Tensor
        tag: Any

    @deco(frozen=True)
    class C15Frozen:
        x: torch.Tensor
        y: torch.Tensor
        s: str
        o: Optional[torch.Tensor] = None
        d: str = "dflt"

    @deco(shadow=True)
    class C15Shadow:
        x: torch.Tensor
        depth: torch.Tensor      # shadows TensorDictBase.depth
        s: str
        o: Optional[torch.Tensor] = None
        d: str = "dflt"

    @deco(autocast=True)
    class C15Auto:
        x: torch.Tensor
        y: torch.Tensor
        s: str
        k: int = 7
        o: Optional[torch.Tensor] = None

    @deco(nocast=True)
    class C15NoCast:
        x: torch.Tensor
        y: torch.Tensor
        s: str
        k: Any = 7
        o: Optional[torch.Tensor] = None

    @deco(autocast=True)
    class C15AutoNest:
        z: torch.Tensor
        inner: C15Dec = None      # a nested tensorclass field that starts as None
        tag: Any = "t"

    class C15SubFrozen(TensorClass["frozen"]):
        x: torch.Tensor
        y: torch.Tensor
        s: str
        o: Optional[torch.Tensor] = None
        d: str = "dflt"

    class C15SubNoCast(TensorClass["nocast"]):
        x: torch.Tensor
        y: torch.Tensor
        s: str
        k: Any = 7
        o: Optional[torch.Tensor] = None

    class C15SubAuto(TensorClass["autocast"]):
        x: torch.Tensor
        y: torch.Tensor
        s: str
        k: int = 7
        o: Optional[torch.Tensor] = None

    classes = {}
    for c in (C15Dec, C15Sub, C15Nest, C15SubNest, C15Frozen, C15Shadow, C15Auto, C15NoCast, C15SubFrozen, C15SubNoCast, C15SubAuto, C15AutoNest):
        c.__module__ = __name__
        c.__qualname__ = c.__name__
        globals()[c.__name__] = c
        classes[c.__name__[3:]] = c
    _T.update(torch=torch, tensordict=tensordict, TD=TensorDict, Base=TensorDictBase, Lazy=LazyStackedTensorDict,
              lazy_stack=lazy_stack, NTD=NonTensorData, NTS=NonTensorStack, classes=classes, tensorclass=tensorclass,
              TensorClass=TensorClass)
    return _T


CLASS_INFO = {
    # name: (how declared, options, nested?)
    "Dec": ("decorator", [], False), "Sub": ("subclass", [], False), "Nest": ("decorator", [], True),
    "SubNest": ("subclass", [], True), "Frozen": ("decorator", ["frozen"], False), "Shadow": ("decorator", ["shadow"], False),
    "Auto": ("decorator", ["autocast"], False), "NoCast": ("decorator", ["nocast"], False),
    "SubFrozen": ("subclass", ["frozen"], False), "SubNoCast": ("subclass", ["nocast"], False),
    "SubAuto": ("subclass", ["autocast"], False), "AutoNest": ("decorator", ["autocast"], False),
}
LAYOUTS = ["plain", "lazy", "lazyhet", "legacy", "named"]
BS = (3, 2)


def fields_of(cname):
    return list(T()["classes"][cname].__dataclass_fields__)


def _leaf(bs, feat, base):
    torch = T()["torch"]
    n = 1
    for s_ in tuple(bs) + tuple(feat):
        n *= s_
    return (torch.arange(n, dtype=torch.float32).reshape(*bs, *feat) % 7) + base


def _inst(cname, bs, salt=0, sval="hi", names=None):
    """one plain instance through the public constructor"""
    t = T()
    C = t["classes"][cname]
    x = _leaf(bs, (), 1 + salt)
    y = _leaf(bs, (4,), 2 + salt)
    kw = {"batch_size": list(bs)}
    if names is not None:
        kw["names"] = names
    if cname in ("Nest", "SubNest"):
        inner = _inst("Dec" if cname == "Nest" else "Sub", bs, salt, sval)
        return C(inner=inner, z=_leaf(bs, (2,), 3 + salt), tag={"k": 1, "s": sval}, **kw)
    if cname == "Shadow":
        return C(x=x, depth=y, s=sval, **kw)
    if cname == "AutoNest":
        return C(z=_leaf(bs, (2,), 3 + salt), **kw)
    return C(x=x, y=y, s=sval, **kw)


def build(cname, layout, salt=0):
    """a fresh subject.  Two calls with the same arguments give equal, independent objects."""
    t = T()
    torch = t["torch"]
    C = t["classes"][cname]
    if layout == "plain":
        return _inst(cname, BS, salt)
    if layout == "named":
        return _inst(cname, BS, salt, names=["a", "b"])
    if layout in ("lazy", "lazyhet"):
        members = [_inst(cname, BS[1:], salt + i, "hi" if layout == "lazy" else f"hi{i}") for i in range(BS[0])]
        return t["lazy_stack"](members, 0)
    if layout == "legacy":
        # non-tensor payload held in _non_tensordict (public classmethod from_tensordict(tensordict, non_tensordict))
        tc = _inst(cname, BS, salt)
        td = tc._tensordict
        nt = dict(tc._non_tensordict)
        for k in list(td.keys()):
            v = td.get(k)
            if isinstance(v, t["NTD"]):
                nt[k] = v.data
                td = td.exclude(k)
        return C.from_tensordict(td, nt)
    raise ValueError(layout)


def lockstate(cname):
    return "frozen" in CLASS_INFO[cname][1]


# ------------------------------------------------------------------------------------------------ canonical observations
def _is_tc(o):
    return getattr(type(o), "_is_tensorclass", False) and not isinstance(o, T()["NTD"])


def canon_tensor(v):
    torch = T()["torch"]
    try:
        if v.is_nested:
            return ["T", str(v.dtype), "nested", [canon_tensor(x) for x in v.unbind(0)]]
        vals = v.detach().reshape(-1)
        if vals.dtype.is_floating_point or vals.dtype.is_complex:
            if vals.dtype.is_complex or vals.dtype in (torch.bfloat16, torch.float16):
                vals = vals.to(torch.complex128 if vals.dtype.is_complex else torch.float64)
            lst = [("nan" if x != x else (round(x, 4) if isinstance(x, float) else repr(x))) for x in vals.tolist()]
        elif vals.dtype in (torch.qint8, torch.quint8, torch.qint32, torch.quint4x2):
            lst = vals.int_repr().tolist()
        else:
            lst = vals.tolist()
        return ["T", str(v.dtype).replace("torch.", ""), list(v.shape), lst, str(v.device.type), bool(v.requires_grad)]
    except Exception as e:  # noqa: BLE001
        return ["T", str(getattr(v, "dtype", "?")), list(getattr(v, "shape", [])), "unreadable:" + type(e).__name__]


def _py(v, depth=0):
    torch = T()["torch"]
    if isinstance(v, torch.Tensor):
        return canon_tensor(v)
    if isinstance(v, dict) and depth < 4:
        return ["dict", [[repr(k), _py(x, depth + 1)] for k, x in v.items()]]
    if isinstance(v, (list, tuple)) and depth < 4:
        return ["seq", [_py(x, depth + 1) for x in v]]
    r = repr(v)
    if " at 0x" in r:
        r = type(v).__name__
    return ["PY", r[:300]]


def canon(o, ctx, depth=0):
    """canonical, JSON-serialisable description of a result.  ctx = {"self": subject, "td": its _tensordict, "ids": {...}}"""
    t = T()
    torch = t["torch"]
    if depth > 8:
        return ["DEEP"]
    for name, ref in ctx.get("ids", {}).items():
        if o is ref:
            return ["REF", name]
    if isinstance(o, t["NTD"]):
        try:
            return ["NT", _py(o.data), list(o.batch_size)]
        except Exception as e:  # noqa: BLE001
            return ["NT", "unreadable:" + type(e).__name__]
    if isinstance(o, t["NTS"]):
        try:
            return ["NT", _py(o.tolist()), list(o.batch_size), "stack"]
        except Exception as e:  # noqa: BLE001
            return ["NT", "unreadable:" + type(e).__name__]
    if _is_tc(o):
        d = o.__dict__
        nt = d.get("_non_tensordict", {})
        return ["TC", type(o).__name__, canon(d.get("_tensordict"), {"ids": {}}, depth + 1), sorted([k, _py(v)] for k, v in nt.items())]
    if isinstance(o, t["Base"]):
        ent = []
        try:
            keys = list(o.keys())
        except Exception as e:  # noqa: BLE001
            return ["TD", type(o).__name__, "unreadable-keys:" + type(e).__name__]
        for k in keys:
            try:
                v = o._get_str(k, None) if hasattr(o, "_get_str") else o.get(k)
            except Exception as e:  # noqa: BLE001
                v = None
                ent.append([k, ["unreadable:" + type(e).__name__]])
                continue
            ent.append([k, canon(v, ctx, depth + 1)])
        try:
            names = list(o.names) if o._has_names() else None
        except Exception:  # noqa: BLE001
            names = "?"
        try:
            dev = None if o.device is None else str(o.device.type)
        except Exception:  # noqa: BLE001
            dev = "?"
        kind = "Lazy" if isinstance(o, t["Lazy"]) else type(o).__name__
        return ["TD", kind, list(o.batch_size), dev, names, bool(o.is_locked), sorted(ent, key=lambda e: e[0])]
    if isinstance(o, torch.Tensor):
        return canon_tensor(o)
    if isinstance(o, tuple) and hasattr(o, "_fields"):
        return ["namedtuple", type(o).__name__, [[f, canon(getattr(o, f), ctx, depth + 1)] for f in o._fields]]
    if isinstance(o, tuple):
        return ["tuple", [canon(x, ctx, depth + 1) for x in o]]
    if isinstance(o, list):
        return ["list", [canon(x, ctx, depth + 1) for x in o]]
    if isinstance(o, dict):
        return ["dict", [[repr(k), canon(v, ctx, depth + 1)] for k, v in o.items()]]
    if o is None or isinstance(o, (bool, int, float, str, torch.Size, torch.dtype, torch.device)):
        return ["PY", repr(o)]
    tn = type(o).__name__
    if tn in ("_TensorDictKeysView", "_StringKeys", "_StringOnlyDict", "dict_keys", "KeysView"):
        try:
            return ["keys", sorted(repr(k) for k in o)]
        except Exception as e:  # noqa: BLE001
            return ["keys", "unreadable:" + type(e).__name__]
    if inspect.isgenerator(o) or tn in ("dict_values", "dict_items", "ValuesView", "ItemsView", "map", "zip", "list_iterator",
                                        "generator", "_NestedKeysView"):
        try:
            return ["iter", [canon(x, ctx, depth + 1) for x in list(o)]]
        except Exception as e:  # noqa: BLE001
            return ["iter", "unreadable:" + type(e).__name__]
    if isinstance(o, type):
        return ["type", o.__name__]
    if hasattr(o, "__array__") and hasattr(o, "dtype") and hasattr(o, "shape"):
        try:
            import numpy as np
            a = np.asarray(o)
            if a.dtype.names:
                return ["struct-array", list(a.dtype.names), list(a.shape)]
            return ["ndarray", str(a.dtype), list(a.shape), a.reshape(-1).tolist()[:64]]
        except Exception as e:  # noqa: BLE001
            return ["ndarray", "unreadable:" + type(e).__name__]
    return ["OBJ", tn]


def erase(c):
    """forget tensorclass wrapping: the content a tensordict would show.  None-valued non-tensor fields vanish;
    non-tensor payloads held in _non_tensordict appear like NonTensorData entries (value only)."""
    if not isinstance(c, list) or not c:
        return c
    tag = c[0]
    if tag == "TC":
        return erase(c[2])     # the content of a tensorclass is the content of its tensordict; _non_tensordict is judged by nt_survives
    if tag == "TD":
        if len(c) < 7:
            return c
        # dense vs lazily stacked container is not part of the content
        return [c[0], "*"] + c[2:6] + [[[k, erase(v)] for k, v in c[6]]]
    if tag == "NT":
        return c[1]      # NonTensorData(v) and the bare value v are the same content (attribute access unwraps)
    if tag in ("tuple", "list", "iter", "seq"):
        return ["seq", [erase(x) for x in c[1]] if isinstance(c[1], list) else c[1]]
    if tag == "dict":
        return [tag, [[k, erase(v)] for k, v in c[1]]]
    if tag == "namedtuple":
        return [tag, "nt", [[k, erase(v)] for k, v in c[2]]]
    return c


def strip_values(c):
    """structure only (for operations whose values are not determined: empty_like, rand_like ...)"""
    if not isinstance(c, list) or not c:
        return c
    if c[0] == "T" and len(c) >= 4:
        return c[:3] + ["*"] + c[4:]
    return [strip_values(x) if isinstance(x, list) else x for x in c]


def strip_lock(c):
    if not isinstance(c, list) or not c:
        return c
    if c[0] == "TD" and len(c) == 7:
        return c[:5] + ["*"] + [[[k, strip_lock(v)] for k, v in c[6]]]
    return [strip_lock(x) if isinstance(x, list) else x for x in c]


# ------------------------------------------------------------------------------------------------ descriptors -> values
FNS = {
    "add1": lambda x: x + 1,
    "named_add1": lambda k, x: x + 1,
    "none": lambda x: None,
    "two": lambda x, y: x + y,
    "named_two": lambda k, x, y: x + y,
    "td_id": lambda td: td,
    "td_add1": lambda td: td + 1,
    "is_leaf_all": lambda cls: True,
}


class Mat:
    """materialises argument descriptors for one side ('tc' or 'td') of one case"""

    def __init__(self, cname, layout, side, subject, tmpdirs):
        self.cname, self.layout, self.side, self.subject, self.tmpdirs = cname, layout, side, subject, tmpdirs
        self.made = {}

    def other_subject(self, salt):
        o = build(self.cname, self.layout, salt)
        return o

    def __call__(self, d):
        t = T()
        torch = t["torch"]
        if not isinstance(d, list):
            return d
        tag = d[0]
        if tag == "lit":
            return d[1]
        if tag == "tup":
            return tuple(self(x) for x in d[1:])
        if tag == "lst":
            return [self(x) for x in d[1:]]
        if tag == "dct":
            return {k: self(v) for k, v in d[1]}
        if tag == "slice":
            return slice(*d[1:])
        if tag == "ellipsis":
            return Ellipsis
        if tag == "tensor":      # ["tensor", shape, dtype, kind]
            shape, dt, kind = d[1], getattr(torch, d[2]), d[3]
            n = 1
            for s_ in shape:
                n *= s_
            if kind == "arange":
                return (torch.arange(n) % 5 + 1).reshape(shape).to(dt)
            if kind == "mask":
                return (torch.arange(n) % 2 == 0).reshape(shape)
            if kind == "index":
                return (torch.arange(n) % 2).reshape(shape).to(torch.int64)
            if kind == "zeros":
                return torch.zeros(shape, dtype=dt)
            if kind == "half":
                return torch.full(shape, 0.5, dtype=dt)
            raise ValueError(kind)
        if tag == "like":        # another collection with the subject's structure: ["like", form, salt]
            form, salt = d[1], d[2]
            key = ("like", form, salt)
            if key in self.made:
                return self.made[key]
            o = self.other_subject(salt)
            if form == "tc":
                v = o if self.side == "tc" else o._tensordict
            elif form == "td":
                v = o._tensordict
            elif form == "dict":
                v = {k: val for k, val in o._tensordict.items()}
            elif form == "tdfloat":
                v = o._tensordict.select(*[k for k, val in o._tensordict.items() if isinstance(val, torch.Tensor)])
            else:
                raise ValueError(form)
            self.made[key] = v
            return v
        if tag == "likeidx":     # ["likeidx", form, salt, idx-desc]: the above, indexed
            return self(["like", d[1], d[2]])[self(d[3])]
        if tag == "liketrans":   # ["liketrans", form, salt, method, args]: the above, transformed
            return getattr(self(["like", d[1], d[2]]), d[3])(*[self(a) for a in d[4]])
        if tag == "selfseq":     # list of collections for stack/cat: the subject's twin objects
            out = []
            for salt in d[2]:
                out.append(self(["like", d[1], salt]))
            return out
        if tag == "fn":
            return FNS[d[1]]
        if tag == "dtype":
            return getattr(torch, d[1])
        if tag == "device":
            return torch.device(d[1])
        if tag == "size":
            return torch.Size(d[1])
        if tag == "tmpdir":
            p = tempfile.mkdtemp(prefix="c15-")
            self.tmpdirs.append(p)
            return p
        if tag == "module":
            m = torch.nn.Linear(2, 2)
            return m
        if tag == "storage":
            return torch.zeros(d[1], dtype=torch.float32).untyped_storage()
        raise ValueError(f"unknown descriptor {d!r}")


# ------------------------------------------------------------------------------------------------ argument synthesis
def L(v):
    return ["lit", v]


def tensor(shape, dtype="float32", kind="arange"):
    return ["tensor", list(shape), dtype, kind]


def keys_of(cname, layout="plain"):
    """(tensor field, second tensor field, non-tensor field, None field, absent name, nested key or None)"""
    if layout == "legacy":
        # non-tensor payloads live in _non_tensordict: the underlying tensordict has no such key to compare with
        k = keys_of(cname)
        return dict(k, nt=k["t2"])
    if cname in ("Nest", "SubNest"):
        return {"t": "z", "t2": "z", "nt": "tag", "none": None, "absent": "qq", "nested": ["tup", L("inner"), L("x")], "sub": "inner"}
    if cname == "Shadow":
        return {"t": "x", "t2": "depth", "nt": "s", "none": "o", "absent": "qq", "nested": None, "sub": None}
    if cname == "AutoNest":
        return {"t": "z", "t2": "z", "nt": "tag", "none": "inner", "absent": "qq", "nested": None, "sub": None}
    return {"t": "x", "t2": "y", "nt": "s", "none": "o", "absent": "qq", "nested": None, "sub": None}


def leaf_shape(cname, key):
    if key in ("y", "depth"):
        return list(BS) + [4]
    if key == "z":
        return list(BS) + [2]
    return list(BS)


def cand(pname, mname, cname, layout):
    """candidate descriptors for a parameter, by its name (and a few method-specific refinements)"""
    K = keys_of(cname, layout)
    bs = list(BS)
    key_c = [L(K["t"]), L(K["nt"]), L(K["absent"])] + ([L(K["none"])] if K["none"] else []) + ([K["nested"]] if K["nested"] else []) \
        + ([L(K["sub"])] if K["sub"] else [])
    m = mname
    if pname in ("key", "old_key", "in_key"):
        return key_c
    if pname in ("new_key", "out_key", "mask_key"):
        return [L(K["none"] or K["absent"]), L(K["absent"])] if pname != "mask_key" else [L(None)]
    if pname == "keys":          # *keys
        return [[L(K["t"])], [L(K["t"]), L(K["nt"])], [L(K["absent"])], [L(K["t"]), L(K["t2"])]]
    if pname == "key_sets":
        return [[["lst", L(K["t"])]], [["lst", L(K["t"])], ["lst", L(K["nt"])]]]
    if pname in ("dim", "dim0", "start_dim", "batch_dims", "stack_dim"):
        if m in ("softmax", "logsumexp", "cummax", "cummin", "gather", "unbind", "chunk", "split", "unflatten", "squeeze", "unsqueeze",
                 "repeat_interleave", "size", "cat_from_tensordict", "stack_from_tensordict", "cat_tensors", "stack_tensors", "map", "map_iter"):
            return [L(0), L(1), L(-1)]
        if m == "auto_batch_size_":
            return [L(None), L(1), L(2)]
        return [L(0), L(-1), L(1), ["tup", L(0), L(1)], L("feature")] if pname == "dim" and m in (
            "mean", "sum", "prod", "std", "var", "nanmean", "nansum") else [L(0), L(1), L(-1)]
    if pname in ("dim1", "end_dim"):
        return [L(1), L(-1)]
    if pname in ("other", "end", "tensordict", "src", "input_dict_or_td", "data", "other1", "other2", "min", "max"):
        c = [["like", "tc", 5], ["like", "tdfloat", 5], L(2.0)]
        if pname in ("input_dict_or_td",):
            c = [["like", "tc", 5], ["like", "td", 5], ["like", "dict", 5], ["dct", [[K["t"], tensor(leaf_shape(cname, K["t"]))]]]]
        if pname in ("tensordict", "src"):
            c = [["like", "tc", 5], ["like", "td", 5]]
        if pname in ("min", "max"):
            c = [L(2.0), ["like", "tdfloat", 5], L(None)]
        if pname == "other" and m in ("expand_as",):
            c = [["liketrans", "td", 5, "expand", [L(2), L(3), L(2)]], tensor([2, 3, 2])]
        if pname == "other" and m in ("bitwise_and", "logical_and"):
            c = [L(1), ["like", "tc", 5]]
        return c
    if pname in ("others",):     # *others of apply / named_apply
        return [[], [["like", "tc", 5]], [["like", "td", 5]]]
    if pname in ("weight", "alpha", "value", "fill_value", "padding") and m not in ("set_at_", "fill_", "set_non_tensor", "masked_fill", "masked_fill_", "fromkeys"):
        return [L(2.0), L(1)] if pname != "weight" else [L(0.5), ["like", "tdfloat", 6]]
    if pname == "value" and m in ("fill_", "masked_fill", "masked_fill_", "fromkeys"):
        return [L(3.0), L(0)]
    if pname == "value" and m == "set_non_tensor":
        return [L("payload"), L({"a": 1})]
    if pname in ("value", "item", "default", "tensor") and m in ("set", "set_", "set_at_", "setdefault", "make_memmap_from_tensor", "get_non_tensor", "pop"):
        if m == "set_at_":
            return [tensor([2]), L(9.0)]
        if m in ("get_non_tensor", "pop"):
            return [L("dflt-arg"), L(None)]
        return [tensor(bs), tensor(bs + [4]), L("text"), L(None), L(5)]
    if pname in ("default",):
        return [L(None), L(0.0)]
    if pname in ("index", "idx", "item") and m not in ("set",):
        return [L(0), ["slice", 0, 2], ["tensor", [3], "bool", "mask"], ["tup", ["slice", None], L(1)], ["tensor", [2], "int64", "index"],
                L(None), ["ellipsis"], ["tup", L(1), L(0)]]
    if pname in ("mask", "condition"):
        return [["tensor", bs, "bool", "mask"]]
    if pname == "fn":
        if m in ("named_apply",):
            return [["fn", "named_add1"]]
        if m in ("map", "map_iter"):
            return [["fn", "td_add1"], ["fn", "td_id"]]
        return [["fn", "add1"], ["fn", "none"]]
    if pname in ("inplace", "clone", "strict", "keepdim", "recurse", "safe", "sort", "include_nested", "leaves_only", "retain_none",
                 "convert_tensors", "convert_nodes", "reduce", "return_indices", "count_duplicates", "storage", "keep_entries",
                 "reproduce_struct", "filter_empty", "nested_keys", "call_on_nested", "set_to_none", "copy_existing", "existsok",
                 "copy_data", "requires_grad", "update_batch_size", "ignore_lock", "non_blocking", "keep_vars", "flatten", "assign",
                 "from_flatten", "share_non_tensor", "return_early", "sorted", "is_shared", "lock", "auto_batch_size", "pin_memory"):
        return [L(True), L(False)]
    if pname in ("separator",):
        return [L("."), L("-")]
    if pname in ("dtype", "dst_type"):
        return [["dtype", "float64"], ["dtype", "int32"]]
    if pname in ("device",):
        return [L("cpu"), ["device", "cpu"], L(None)] if m not in ("cuda",) else [L(None)]
    if pname in ("batch_size", "size", "shape", "unflattened_size") and m not in ("size",):
        if m == "unflatten":
            return [["tup", L(3), L(1)], ["lst", L(1), L(3)]]
        if m in ("make_memmap", "make_memmap_from_storage"):
            return [["size", [3, 2]]]
        if m in ("new_empty", "new_full", "new_ones", "new_zeros"):
            return [[L(4), L(2)]] if pname == "size" and m != "new_full" else [["size", [4, 2]]]
        if m == "view" and pname == "shape":
            return [[L(6)], [L(-1)], [L(2), L(3)]]
        return [["size", [3]], ["lst", L(3), L(2)], L(None)]
    if pname in ("names", "rename_map"):
        return [[L("p"), L("q")], [L(None), L("q")]] if pname == "names" and m in ("refine_names", "rename", "rename_") else [L(None)]
    if pname in ("chunks", "split_size", "repeats", "num_threads", "num_workers", "chunksize"):
        if m == "split":
            return [L(1), L(2), ["lst", L(1), L(2)]]
        if m == "repeat":
            return [[L(2), L(1)], [L(1), L(3)]]
        if m in ("map", "map_iter") or pname in ("num_threads", "num_workers"):
            return [L(0)]
        return [L(2), L(3)]
    if pname in ("prefix", "filename") and m not in ("state_dict",):
        return [["tmpdir"], L(None)] if m in ("memmap", "memmap_", "memmap_like", "save", "dumps") else [["tmpdir"]]
    if pname == "prefix":
        return [L(""), L("p.")]
    if pname in ("out",):
        return [L(None)]
    if pname in ("layout",):
        return [L(T()["torch"].strided)] if False else []
    if pname in ("module",):
        return [["module"]]
    if pname in ("correction",):
        return [L(1), L(0)]
    if pname in ("is_leaf",):
        return [L(None), ["fn", "is_leaf_all"]]
    if pname in ("destination",):
        return [L(None)]
    return None


# methods whose signature is (*args, **kwargs) or whose argument semantics cannot be read off the parameter names
def special(mname, cname, layout):
    K = keys_of(cname, layout)
    bs = list(BS)
    S = {
        "expand": [([L(2), L(3), L(2)], {}), ([["size", [4, 3, 2]]], {})],
        "permute": [([L(1), L(0)], {}), ([["lst", L(1), L(0)]], {}), ([], {"dims": ["lst", L(-1), L(0)]})],
        "reshape": [([L(6)], {}), ([["size", [2, 3]]], {}), ([L(-1)], {})],
        "view": [([L(6)], {}), ([L(2), L(3)], {}), ([], {"size": ["lst", L(6)]})],
        "squeeze": [([], {}), ([L(0)], {}), ([], {"dim": L(-1)})],
        "unsqueeze": [([L(0)], {}), ([L(-1)], {}), ([], {"dim": L(1)})],
        "to": [([L("cpu")], {}), ([["dtype", "float64"]], {}), ([], {"device": L("cpu")}), ([], {"dtype": ["dtype", "int32"]}),
               ([], {"batch_size": ["size", [3]]}), ([["like", "td", 5]], {})],
        "replace": [([["dct", [[K["t"], tensor(leaf_shape(cname, K["t"]))]]]], {}), ([], {K["t"]: tensor(leaf_shape(cname, K["t"]))}),
                    ([["like", "td", 5]], {})],
        "get": [([L(K["t"])], {}), ([L(K["nt"])], {}), ([L(K["absent"])], {}), ([L(K["absent"]), L(None)], {}),
                ([L(K["absent"])], {"default": L(3)}), ([L(K["none"] or K["t"])], {})] + ([([K["nested"]], {})] if K["nested"] else []),
        "get_at": [([L(K["t"]), L(0)], {}), ([L(K["t"])], {"index": ["slice", 0, 2]}), ([L(K["absent"]), L(0), L(None)], {}),
                   ([L(K["nt"]), L(0)], {})],
        "transpose": [([L(0), L(1)], {}), ([L(-1), L(0)], {}), ([], {"dim0": L(0), "dim1": L(1)})],
        "rename": [([L("p"), L("q")], {}), ([L(None), L("q")], {})],
        "rename_": [([L("p"), L("q")], {})],
        "refine_names": [([L("p"), L("q")], {}), ([L(None), L("q")], {})],
        "new_tensor": [([tensor([2, 2])], {}), ([["like", "tdfloat", 5]], {})],
        "where": [([["tensor", bs, "bool", "mask"], ["like", "tdfloat", 5]], {}), ([["tensor", bs, "bool", "mask"], L(0.0)], {}),
                  ([["tensor", bs, "bool", "mask"], ["like", "tdfloat", 5]], {"out": ["like", "tdfloat", 7]})],
        "gather": [([L(0), ["tensor", [2, 2], "int64", "index"]], {}), ([L(1), ["tensor", [3, 1], "int64", "index"]], {}),
                   ([L(0), ["tensor", [2, 2], "int64", "index"]], {"out": ["likeidx", "td", 7, ["slice", 0, 2]]})],
        "masked_select": [([["tensor", bs, "bool", "mask"]], {})],
        "masked_fill": [([["tensor", bs, "bool", "mask"], L(3.0)], {})],
        "masked_fill_": [([["tensor", bs, "bool", "mask"], L(3.0)], {})],
        "cat": [([["selfseq", "tc", [5, 6]]], {}), ([["selfseq", "tc", [5, 6]], L(1)], {}), ([["selfseq", "td", [5, 6]]], {"dim": L(-1)})],
        "stack": [([["selfseq", "tc", [5, 6]]], {}), ([["selfseq", "tc", [5, 6]], L(1)], {}), ([["selfseq", "td", [5, 6]]], {"dim": L(-1)})],
        "lazy_stack": [([["selfseq", "tc", [5, 6]]], {}), ([["selfseq", "tc", [5, 6]], L(1)], {})],
        "maybe_dense_stack": [([["selfseq", "tc", [5, 6]]], {}), ([["selfseq", "tc", [5, 6]], L(1)], {})],
        "fromkeys": [([["lst", L("x"), L("y")]], {}), ([["lst", L("x")], L(3)], {})],
        "from_dict": [([["like", "dict", 5]], {"auto_batch_size": L(False)}), ([["like", "dict", 5]], {"batch_size": ["lst", L(3), L(2)]})],
        "from_dict_instance": [([["like", "dict", 5]], {"auto_batch_size": L(False)}), ([["like", "dict", 5]], {"batch_size": ["lst", L(3), L(2)]})],
        "from_any": [([["like", "dict", 5]], {}), ([["like", "td", 5]], {})],
        "from_tuple": [],
        "from_pytree": [([["like", "dict", 5]], {})],
        "update_at_": [([["likeidx", "tc", 5, L(0)], L(0)], {}), ([["likeidx", "td", 5, ["slice", 0, 2]], ["slice", 0, 2]], {}),
                       ([["dct", [[K["t"], tensor(leaf_shape(cname, K["t"])[1:])]]], L(1)], {})],
        "copy_at_": [([["likeidx", "td", 5, L(0)], L(0)], {}), ([["likeidx", "tc", 5, ["slice", 0, 2]], ["slice", 0, 2]], {})],
        "set_at_": [([L(K["t"]), tensor([2]), L(0)], {}), ([L(K["t"]), L(9.0), ["slice", 0, 2]], {}), ([L(K["absent"]), tensor([2]), L(0)], {})],
        "set": [([L(K["t"]), tensor(leaf_shape(cname, K["t"]))], {}), ([L(K["nt"]), L("text")], {}),
                ([L(K["t"]), tensor(leaf_shape(cname, K["t"]))], {"inplace": L(True)}), ([L(K["absent"]), tensor(bs)], {}),
                ([L(K["none"] or K["t"]), tensor(bs)], {})],
        "set_": [([L(K["t"]), tensor(leaf_shape(cname, K["t"]))], {}), ([L(K["absent"]), tensor(bs)], {}),
                 ([L(K["none"] or K["t"]), tensor(bs)], {})],
        "load_state_dict": "state_dict",
        "type": [([["dtype", "float64"]], {})],
        "size": [([], {}), ([L(0)], {}), ([L(-1)], {})],
        "clamp": [([L(2.0)], {}), ([L(2.0), L(4.0)], {}), ([], {"max": L(3.0)})],
        "logsumexp": [([], {}), ([L(0)], {}), ([], {"dim": L(-1), "keepdim": L(True)})],
        "cpu": [([], {})],
        "setdefault": [([L(K["t"]), tensor(leaf_shape(cname, K["t"]))], {}), ([L(K["none"] or K["absent"]), tensor(bs)], {}),
                       ([L(K["absent"]), tensor(bs)], {})],
        "make_memmap_from_storage": [],
        "to_namedtuple": [([], {})],
        "repeat_interleave": [([L(2)], {}), ([L(2)], {"dim": L(0)}), ([L(2), L(1)], {})],
        "softmax": [([L(0)], {}), ([L(-1)], {})],
        "split_keys": [([["lst", L(K["t"])]], {}), ([["lst", L(K["t"])], ["lst", L(K["nt"])]], {}), ([["lst", L(K["t"])]], {"inplace": L(True)})],
        "rename_key_": [([L(K["t"]), L(K["none"] or K["absent"])], {}), ([L(K["t"]), L(K["absent"])], {}), ([L(K["t"]), L(K["t2"])], {"safe": L(True)})],
        "cat_tensors": [([L(K["t"]), L(K["t"])], {"out_key": L(K["none"] or K["absent"])}), ([L(K["t"]), L(K["t"])], {"out_key": L(K["absent"]), "keep_entries": L(True)})],
        "stack_tensors": [([L(K["t"]), L(K["t"])], {"out_key": L(K["none"] or K["absent"])}), ([L(K["t"]), L(K["t"])], {"out_key": L(K["absent"]), "keep_entries": L(True)})],
        "load_memmap_": "memmap",
        "load_": "memmap",
        "load": "memmap",
        "load_memmap": "memmap",
        "from_consolidated": "consolidated",
        "flatten": [([], {}), ([L(0), L(1)], {}), ([], {"start_dim": L(0), "end_dim": L(-1)})],
        "unflatten": [([L(0), ["tup", L(3), L(1)]], {}), ([L(-1), ["lst", L(1), L(2)]], {})],
        "apply_": [([["fn", "add1"]], {})],
        "cuda": [],
    }
    return S.get(mname)


# why a method cannot be exercised in this sandbox (kept in the evidence; never silently skipped)
UNSYNTH = {
    "from_dict_instance": "template-driven typed constructor of the tensorclass; its tensordict namesake has other semantics (not compared)",
    "send": "needs torch.distributed process group", "recv": "needs torch.distributed process group",
    "isend": "needs torch.distributed process group", "irecv": "needs torch.distributed process group",
    "reduce": "needs torch.distributed process group", "gather_and_stack": "needs torch.distributed process group",
    "cuda": "no CUDA device", "record_stream": "no CUDA device", "pin_memory": "no CUDA device", "pin_memory_": "no CUDA device",
    "to_h5": "h5py not installed", "from_h5": "h5py not installed",
    "from_module": "called on a module, not on a tensorclass instance (C13's domain)",
    "from_modules": "called on modules, not on a tensorclass instance (C13's domain)",
    "to_module": "swaps parameters into a module (C13's domain)",
    "map": "process pool (C12's domain)", "map_iter": "process pool (C12's domain)",
    "from_tuple": "no tuple form of a tensorclass", "from_namedtuple": "needs a namedtuple mirror of the class",
    "from_struct_array": "needs a numpy struct array", "from_dataclass": "needs a dataclass mirror of the class",
    "make_memmap_from_storage": "needs a memory-mapped storage of matching size",
    "complex32": "torch.complex32 kernels are not implemented on CPU",
}


def signature_of(mname):
    t = T()
    try:
        o = getattr(t["TD"], mname)
        return inspect.signature(o)
    except (TypeError, ValueError):
        return None


def synth(mname, cname, layout, variant, rng):
    """(args, kwargs, how) descriptors for variant number [variant] of method [mname], or (None, None, reason)"""
    sp = special(mname, cname, layout)
    if isinstance(sp, str):
        return None, None, "recipe:" + sp
    if sp is not None:
        if not sp:
            return None, None, "no-candidate"
        a, k = sp[variant % len(sp)]
        return list(a), dict(k), "special"
    sig = signature_of(mname)
    if sig is None:
        return None, None, "no-signature"
    static = inspect.getattr_static(T()["TD"], mname, None)
    is_cm = isinstance(static, classmethod) or inspect.ismethod(getattr(T()["TD"], mname))
    args, kwargs = [], {}
    params = list(sig.parameters.values())
    if not is_cm and params and params[0].name == "self":
        params = params[1:]
    v = variant
    for p in params:
        if p.kind == p.VAR_KEYWORD:
            continue
        has_default = p.default is not inspect.Parameter.empty
        cs = cand(p.name, mname, cname, layout)
        if p.kind == p.VAR_POSITIONAL:
            if cs is None:
                if p.name in ("args",):
                    return None, None, "no-candidate:*" + p.name
                continue
            if cs:
                args.extend(cs[v % len(cs)])
                v //= max(1, len(cs))
            continue
        if cs is None or not cs:
            if has_default:
                continue
            return None, None, "no-candidate:" + p.name
        if has_default and variant > 0 and rng.random() < 0.45 and p.name not in ("key", "inplace", "dim"):
            continue   # keep the default on some variants
        if has_default and variant == 0 and p.name not in ("key", "dim", "inplace", "separator", "strict", "clone", "recurse"):
            continue
        val = cs[v % len(cs)]
        v //= len(cs)
        if p.kind == p.KEYWORD_ONLY or (has_default and p.kind != p.POSITIONAL_ONLY):
            kwargs[p.name] = val      # optional parameters by keyword: positional order differs between container classes
        else:
            if kwargs and p.kind != p.KEYWORD_ONLY:
                kwargs[p.name] = val
            else:
                args.append(val)
    return args, kwargs, "signature"


# ------------------------------------------------------------------------------------------------ operators
# dunder -> (arity recipe).  "other" descriptors are chosen by the caller.
def _with(subj):
    with subj as y:
        return y


OPS = {
    "__abs__": ("un", abs), "__neg__": ("un", operator.neg), "__invert__": ("un", operator.invert), "__bool__": ("un", bool),
    "__len__": ("un", len), "__iter__": ("un", lambda s: list(iter(s))), "__reversed__": ("un", lambda s: list(reversed(s))),
    "__repr__": ("un", lambda s: bool(repr(s))), "__hash__": ("un", lambda s: isinstance(hash(s), int)),
    "__add__": ("bin", operator.add), "__sub__": ("bin", operator.sub), "__mul__": ("bin", operator.mul),
    "__truediv__": ("bin", operator.truediv), "__pow__": ("bin", operator.pow), "__and__": ("bin", operator.and_),
    "__or__": ("bin", operator.or_), "__xor__": ("bin", operator.xor),
    "__eq__": ("bin", operator.eq), "__ne__": ("bin", operator.ne), "__lt__": ("bin", operator.lt), "__le__": ("bin", operator.le),
    "__gt__": ("bin", operator.gt), "__ge__": ("bin", operator.ge),
    "__radd__": ("rbin", operator.add), "__rsub__": ("rbin", operator.sub), "__rmul__": ("rbin", operator.mul),
    "__rtruediv__": ("rbin", operator.truediv), "__rpow__": ("rbin", operator.pow), "__rand__": ("rbin", operator.and_),
    "__ror__": ("rbin", operator.or_), "__rxor__": ("rbin", operator.xor),
    "__iadd__": ("bin", operator.iadd), "__isub__": ("bin", operator.isub), "__imul__": ("bin", operator.imul),
    "__itruediv__": ("bin", operator.itruediv), "__ipow__": ("bin", operator.ipow),
    "__contains__": ("key", operator.contains), "__delitem__": ("key", operator.delitem),
    "__getitem__": ("idx", operator.getitem), "__getitems__": ("idx", lambda s, i: s.__getitems__(i)),
    "__setitem__": ("setidx", operator.setitem),
    "__enter__": ("un", _with), "__exit__": ("un", _with),
    "__getstate__": ("un", lambda s: pickle.loads(pickle.dumps(s))), "__setstate__": ("un", lambda s: pickle.loads(pickle.dumps(s))),
}
from .tr_c15 import NOT_OPERATORS  # noqa: E402  (shared with the reflection writer)


def api_dunders():
    TD = T()["TD"]
    return sorted(n for n in dir(TD) if n.startswith("__") and n.endswith("__")
                  and any(n in K.__dict__ for K in TD.__mro__ if K.__module__.startswith("tensordict")))


def public_names():
    TD = T()["TD"]
    return sorted(n for n in dir(TD) if not n.startswith("_"))


def op_variants(dunder, cname, layout):
    """argument descriptors for an operator"""
    K = keys_of(cname, layout)
    kind = OPS[dunder][0]
    boolish = dunder in ("__and__", "__or__", "__xor__", "__rand__", "__ror__", "__rxor__", "__invert__")
    if kind == "un":
        return [[]]
    if kind in ("bin", "rbin"):
        if boolish:
            return [[L(True)], [["like", "tc", 5]], [["like", "td", 5]]] if kind == "bin" else [[L(True)]]
        if kind == "rbin":
            return [[L(2.0)], [tensor(list(BS) + [1])]]
        return [[L(2.0)], [["like", "tc", 5]], [["like", "tdfloat", 5]], [tensor(list(BS))]]
    if kind == "key":
        return [[L(K["t"])], [L(K["absent"])], [L(K["nt"])]] + ([[K["nested"]]] if K["nested"] else [])
    if kind == "idx":
        return [[L(0)], [["slice", 0, 2]], [["tensor", [3], "bool", "mask"]], [["tup", ["slice", None], L(1)]],
                [["tensor", [2], "int64", "index"]], [L(None)], [["ellipsis"]], [["tup", L(1), L(0)]], [["lst", L(0), L(2)]],
                [["tup", ["ellipsis"], L(0)]], [["slice", None, None, 2]], [L(-1)], [["tup", L(0), L(None)]]]
    if kind == "setidx":
        return [[L(0), ["likeidx", "tc", 5, L(0)]], [["slice", 0, 2], ["likeidx", "td", 5, ["slice", 0, 2]]],
                [["tensor", [3], "bool", "mask"], ["likeidx", "tc", 5, ["tensor", [3], "bool", "mask"]]],
                [L(1), L(4.0)], [["tup", ["slice", None], L(1)], ["likeidx", "tc", 5, ["tup", ["slice", None], L(1)]]],
                [["tensor", [2], "int64", "index"], ["likeidx", "tc", 5, ["tensor", [2], "int64", "index"]]],
                [["ellipsis"], ["like", "tc", 5]], [L(0), ["likeidx", "tc", 7, L(0)]]]
    raise ValueError(kind)


# ------------------------------------------------------------------------------------------------ torch functions
def torch_fn_variants(fname, cname, layout):
    bs = list(BS)
    V = {
        "unbind": [([["self"], L(0)], {}), ([["self"]], {"dim": L(1)})],
        "unflatten": [([["self"], L(0), ["tup", L(3), L(1)]], {})],
        "flatten": [([["self"]], {}), ([["self"], L(0), L(1)], {})],
        "transpose": [([["self"], L(0), L(1)], {})],
        "gather": [([["self"], L(0), ["tensor", [2, 2], "int64", "index"]], {})],
        "full_like": [([["self"], L(3.0)], {})],
        "zeros_like": [([["self"]], {})], "ones_like": [([["self"]], {})], "rand_like": [([["self"]], {})],
        "randn_like": [([["self"]], {})], "empty_like": [([["self"]], {})], "clone": [([["self"]], {})],
        "squeeze": [([["liketrans", "self", 0, "unsqueeze", [L(0)]], L(0)], {}), ([["self"]], {})],
        "unsqueeze": [([["self"], L(0)], {}), ([["self"], L(-1)], {})],
        "masked_select": [([["self"], ["tensor", bs, "bool", "mask"]], {})],
        "permute": [([["self"], ["tup", L(1), L(0)]], {})],
        "cat": [([["lst", ["self"], ["like", "tc", 5]]], {}), ([["lst", ["self"], ["like", "tc", 5]], L(1)], {}),
                ([["tup", ["self"], ["like", "tc", 5]]], {"dim": L(-1)})],
        "stack": [([["lst", ["self"], ["like", "tc", 5]]], {}), ([["lst", ["self"], ["like", "tc", 5]], L(1)], {}),
                  ([["tup", ["self"], ["like", "tc", 5], ["like", "tc", 6]]], {"dim": L(-1)})],
        "split": [([["self"], L(2)], {}), ([["self"], ["lst", L(1), L(2)], L(0)], {}), ([["self"], L(1), L(1)], {})],
        "where": [([["tensor", bs, "bool", "mask"], ["self"], ["like", "tc", 5]], {})],
    }
    return V.get(fname)


# ------------------------------------------------------------------------------------------------ running one case
# survival of non-tensor fields is demanded for these operation families (property text): shape operations, stacking,
# indexing / indexed assignment, serialisation (+ plain copies)
SURVIVE = {
    "reshape", "view", "flatten", "unflatten", "squeeze", "unsqueeze", "permute", "transpose", "expand", "expand_as", "repeat",
    "repeat_interleave", "split", "chunk", "unbind", "gather", "__getitem__", "__getitems__", "__iter__", "__reversed__",
    "stack", "cat", "lazy_stack", "maybe_dense_stack", "__setitem__", "set_at_", "update_at_", "copy_at_",
    "clone", "copy", "__getstate__", "__setstate__", "memmap", "memmap_", "memmap_like", "save", "dumps", "load", "load_",
    "load_memmap", "load_memmap_", "load_state_dict", "consolidate", "contiguous", "to",
}
# results that are tensordicts by purpose, not data of the class: a bare result is what the operation promises
CONVERSIONS = {"to_tensordict": "conversion to a plain tensordict", "data_ptr": "a report (tensordict of addresses), not data of the class"}


# python / serialisation formats: a nested tensorclass contributes its own format (None fields, {"_tensordict": ...}); when the
# call is issued on an enclosing tensordict only success / failure is compared
FORMATS = {"to_dict", "tolist", "state_dict", "to_namedtuple", "to_pytree", "to_struct_array", "numpy", "to_tensordict", "data_ptr",
           "items", "values", "non_tensor_items"}


def exc_name(e):
    return type(e).__name__


def subject_for(case, side, salt=0):
    """(object the call is issued on, tensorclass instance inside it)"""
    t = T()
    tc = build(case["cls"], case["layout"], salt)
    if case.get("embed") == "outer":
        inner = tc if side == "tc" else tc._tensordict
        outer = t["TD"]({"tcnode": inner, "w": _leaf(BS, (3,), 4 + salt)}, batch_size=list(BS))
        return outer, tc
    return (tc if side == "tc" else tc._tensordict), tc


class OuterMat(Mat):
    def __init__(self, case, side, subject, tmpdirs):
        super().__init__(case["cls"], case["layout"], side, subject, tmpdirs)
        self.case = case

    def other_subject(self, salt):
        return _Wrap(subject_for(self.case, self.side, salt)[0])

    def __call__(self, d):
        if isinstance(d, list) and d and d[0] == "like" and d[1] == "tc":
            return super().__call__(["like", "td", d[2]])     # the twin of an outer tensordict is an outer tensordict
        if isinstance(d, list) and d and d[0] in ("likeidx", "liketrans", "selfseq") and d[1] == "tc":
            return super().__call__([d[0], "td"] + d[2:])
        return super().__call__(d)


class _Wrap:
    """gives an outer tensordict the two attributes Mat reads from a twin subject"""

    def __init__(self, td):
        self._tensordict = td


def invoke(case, side):
    """run one side of a case.  Returns the observation dict (JSON-able)."""
    t = T()
    torch = t["torch"]
    tmp = []
    obs = {"status": "ok"}
    try:
        target, tc = subject_for(case, side)
    except Exception as e:  # noqa: BLE001 -- a subject that cannot be built is a failure of its own, never a vacuous "both raise"
        return {"status": "build-raise", "exc": exc_name(e), "msg": str(e)[:200]}
    try:
        outer = case.get("embed") == "outer"
        if outer:
            mat = OuterMat(case, side, target, tmp)
        else:
            mat = Mat(case["cls"], case["layout"], side, tc, tmp)
        ids = {"SELF": target}
        if side == "tc" and not outer:
            ids["SELFTD"] = tc._tensordict

        def m(d):
            if isinstance(d, list) and d and d[0] == "self":
                return target
            if isinstance(d, list) and d and d[0] == "liketrans" and d[1] == "self":
                return getattr(target, d[3])(*[m(a) for a in d[4]])
            if isinstance(d, list) and d and d[0] in ("lst", "tup"):
                seq = [m(x) for x in d[1:]]
                return seq if d[0] == "lst" else tuple(seq)
            return mat(d)
        args = [m(a) for a in case.get("args", [])]
        kwargs = {k: m(v) for k, v in case.get("kwargs", {}).items()}
        for i, a in enumerate(args):
            if isinstance(a, (t["Base"],)) or _is_tc(a):
                ids[f"ARG{i}"] = a
        for k, a in kwargs.items():
            if isinstance(a, (t["Base"],)) or _is_tc(a):
                ids[f"KW{k}"] = a
        nt_before = None
        if side == "tc":
            nt_before = sorted([k, _py(v)] for k, v in tc._non_tensordict.items())
        obs["nt_before"] = nt_before
        mode, name = case["mode"], case["name"]
        recipe = case.get("recipe")
        watch_setitem = side == "tc" and not outer and mode == "op" and name == "__setitem__"
        if watch_setitem:
            from . import c15_extra
            obs["stores_pre"] = c15_extra.stores(tc)
            v = args[1] if len(args) > 1 else None
            obs["value"] = ["tc", type(v) is type(tc), c15_extra.stores(v)] if _is_tc(v) else (
                ["td", sorted(v.keys())] if isinstance(v, t["Base"]) else ("tensor" if isinstance(v, torch.Tensor) else (
                    "number" if isinstance(v, (int, float)) else "other")))
        if recipe:
            res = run_recipe(recipe, case, target, args, kwargs, mat, tmp, side)
        elif mode == "call":
            if side == "td" and not outer and inspect.ismethod(getattr(t["TD"], name, None)) and type(target) is not t["TD"]:
                # constructors (classmethods): the reference is what the underlying container's class gives, or, where that
                # container class cannot build from the input (lazy stacks), what TensorDict gives
                try:
                    res = getattr(target, name)(*args, **kwargs)
                except Exception as e0:  # noqa: BLE001
                    obs["instance_raises"] = exc_name(e0)
                    res = getattr(t["TD"], name)(*args, **kwargs)
            else:
                res = getattr(target, name)(*args, **kwargs)
        elif mode == "attr":
            res = getattr(target, name)
        elif mode == "setattr":
            setattr(target, name, args[0])
            res = None
        elif mode == "op":
            kind, f = OPS[name]
            if kind == "un":
                res = f(target)
            elif kind == "rbin":
                res = f(args[0], target)
            else:
                res = f(target, *args)
        elif mode == "torchfn":
            res = getattr(torch, name)(*args, **kwargs)
        elif mode == "pytree":
            from torch.utils import _pytree as pt
            if name == "tree_map":
                res = pt.tree_map(lambda x: x + 1 if isinstance(x, torch.Tensor) else x, target)
            elif name == "tree_flatten_unflatten":
                leaves, spec = pt.tree_flatten(target)
                res = pt.tree_unflatten(leaves, spec)
            else:
                res = [type(x).__name__ for x in pt.tree_leaves(target)]
        else:
            raise ValueError(mode)
        if watch_setitem:
            obs["stores_post"] = c15_extra.stores(tc)
        ctx = {"ids": ids}
        obs["res"] = canon(res, ctx)
        obs["post"] = canon(target, {"ids": {}})
        if side == "tc" and not outer and hasattr(res, "__dict__") and _is_tc(res):
            obs["res_shares_nt"] = res.__dict__.get("_non_tensordict") is tc.__dict__.get("_non_tensordict")
            obs["res_same_td"] = res.__dict__.get("_tensordict") is tc.__dict__.get("_tensordict")
    except Exception as e:  # noqa: BLE001 -- the exception class is the observation
        obs = {"status": "raise", "exc": exc_name(e), "msg": str(e)[:160], "nt_before": obs.get("nt_before")}
        try:
            obs["post"] = canon(target, {"ids": {}})
        except Exception:  # noqa: BLE001
            obs["post"] = None
    finally:
        for p in tmp:
            shutil.rmtree(p, ignore_errors=True)
    return obs


def run_recipe(recipe, case, target, args, kwargs, mat, tmp, side):
    """multi-step public-API scenarios (serialisation round trips) expressed once for both sides"""
    t = T()
    name = case["name"]
    if recipe == "memmap":
        d = tempfile.mkdtemp(prefix="c15-")
        tmp.append(d)
        saved = target.memmap(d)
        if name == "load_memmap_":
            fresh = subject_for(dict(case, recipe=None), side, 3)[0]
            return fresh.load_memmap_(d)
        if name == "load_":
            fresh = subject_for(dict(case, recipe=None), side, 3)[0]
            return fresh.load_(d)
        if name == "load":
            return target.load(d)
        if name == "load_memmap":
            return target.load_memmap(d)
        return saved
    if recipe == "state_dict":
        sd = target.state_dict()
        fresh = subject_for(dict(case, recipe=None), side, 3)[0]
        return fresh.load_state_dict(sd)
    if recipe == "consolidated":
        d = tempfile.mkdtemp(prefix="c15-")
        tmp.append(d)
        target.consolidate(d + "/c.bin")
        return target.from_consolidated(d + "/c.bin")
    if recipe == "pickle":
        return pickle.loads(pickle.dumps(target))
    raise ValueError(recipe)


# ------------------------------------------------------------------------------------------------ the oracle
def top_keys(c):
    if isinstance(c, list) and c and c[0] == "TD" and len(c) == 7:
        return [k for k, _ in c[6]]
    return None


def wrap_problems(tc_c, td_c, cls, fields, path="result", depth=0):
    """the re-wrapping rule: td returned itself => tc returns itself; a new tensordict whose keys are fields of the class =>
    an instance of the same class; tuples / lists element by element; an argument passed through (out=) stays as it is"""
    out = []
    if not isinstance(td_c, list) or not td_c:
        return out
    tag = td_c[0]
    if tag in ("NT", "T", "PY") and isinstance(tc_c, list) and tc_c and tc_c[0] == "TC" and tc_c[1] == cls:
        out.append(f"{path}: the tensordict returns a value that is not a tensordict ({tag}), the tensorclass returns it wrapped as {cls}")
        return out
    if tag == "REF":
        if (td_c[1].startswith("ARG") or td_c[1] == "SELF") and isinstance(tc_c, list) and tc_c and tc_c[0] == "TC" and tc_c[1] == cls:
            # an input passed through may come back wrapped in the class; where the tensordict returns itself the
            # tensorclass may return itself or a fresh instance around the same tensordict (both are "re-wrapped")
            return out
        if tc_c != td_c:
            out.append(f"{path}: the tensordict returns {td_c[1]}, the tensorclass returns {short(tc_c)}")
        return out
    if tag == "TD":
        ks = top_keys(td_c)
        if ks is not None and set(ks) <= set(fields):
            if not (isinstance(tc_c, list) and tc_c and tc_c[0] == "TC" and tc_c[1] == cls):
                out.append(f"{path}: tensordict of matching structure (keys {ks}) is not re-wrapped in {cls}: got {short(tc_c)}")
        return out
    if tag in ("tuple", "list") and isinstance(td_c[1], list):
        if not (isinstance(tc_c, list) and tc_c and tc_c[0] in ("tuple", "list") and isinstance(tc_c[1], list) and len(tc_c[1]) == len(td_c[1])):
            return out   # content comparison reports it
        if depth >= 1:
            return out   # only tuples / flat lists of tensordicts are covered by the rule (tolist() nests lists)
        for i, (a, b) in enumerate(zip(tc_c[1], td_c[1])):
            out += wrap_problems(a, b, cls, fields, f"{path}[{i}]", depth + 1)
    return out


def node_problems(tc_c, td_c, cls, fields, path="result"):
    """nested-in-a-tensordict: wherever the reference has a tensordict of matching structure under the key 'tcnode', the
    tensorclass side must hold an instance of the class there"""
    out = []
    if not (isinstance(td_c, list) and td_c and isinstance(tc_c, list) and tc_c):
        return out
    if td_c[0] == "TD" and len(td_c) == 7 and tc_c[0] == "TD" and len(tc_c) == 7:
        a = dict((k, v) for k, v in tc_c[6])
        for k, v in td_c[6]:
            if k == "tcnode" and isinstance(v, list) and v and v[0] == "TD" and top_keys(v) is not None and set(top_keys(v)) <= set(fields):
                w = a.get(k)
                if not (isinstance(w, list) and w and w[0] == "TC" and w[1] == cls):
                    out.append(f"{path}.tcnode: nested tensorclass became {short(w)}")
            elif k in a:
                out += node_problems(a[k], v, cls, fields, f"{path}.{k}")
    elif td_c[0] in ("tuple", "list", "iter") and tc_c[0] == td_c[0] and isinstance(td_c[1], list) and isinstance(tc_c[1], list):
        for i, (x, y) in enumerate(zip(tc_c[1], td_c[1])):
            out += node_problems(x, y, cls, fields, f"{path}[{i}]")
    return out


def short(c):
    if not isinstance(c, list) or not c:
        return repr(c)[:60]
    if c[0] == "TC":
        return f"{c[1]}(tensorclass)"
    if c[0] == "TD":
        return f"{c[1]}(keys={top_keys(c)})"
    if c[0] in ("tuple", "list"):
        return f"{c[0]} of {len(c[1]) if isinstance(c[1], list) else '?'}: " + (short(c[1][0]) if isinstance(c[1], list) and c[1] else "")
    return repr(c)[:80]


def nt_survives(tc_c, nt_before, path="result"):
    """every non-None non-tensor field of the subject is carried, unchanged, by every tensorclass in the result"""
    out = []
    if not isinstance(tc_c, list) or not tc_c or nt_before is None:
        return out
    if tc_c[0] == "TC":
        have = dict((k, v) for k, v in tc_c[3])
        tdk = top_keys(tc_c[2]) or []
        for k, v in nt_before:
            if v == ["PY", "None"]:
                continue
            if have.get(k) != v and k not in tdk:
                out.append(f"{path}: non-tensor field {k!r} was {v} and is {have.get(k)}")
    elif tc_c[0] in ("tuple", "list", "iter") and isinstance(tc_c[1], list):
        for i, x in enumerate(tc_c[1]):
            out += nt_survives(x, nt_before, f"{path}[{i}]")
    return out


def resolve_refs(c, post):
    """identity markers -> content: the subject itself is its state after the call; a passed-through argument is a wildcard"""
    if not isinstance(c, list) or not c:
        return c
    if c[0] == "REF":
        if c[1] in ("SELF", "SELFTD"):
            return post
        return ["REFARG"]
    return [resolve_refs(x, post) if isinstance(x, list) else x for x in c]


def first_diff(a, b, path=""):
    if a == ["REFARG"] or b == ["REFARG"]:
        return None
    if type(a) is not type(b):
        return f"{path}: {repr(a)[:80]} != {repr(b)[:80]}"
    if isinstance(a, list):
        if len(a) != len(b):
            return f"{path}: length {len(a)} != {len(b)}: {repr(a)[:100]} vs {repr(b)[:100]}"
        for i, (x, y) in enumerate(zip(a, b)):
            d = first_diff(x, y, f"{path}/{i}")
            if d:
                return d
        return None
    return None if a == b else f"{path}: {repr(a)[:80]} != {repr(b)[:80]}"


def drop_nt_fields(c, ntkeys, ref):
    """fields held in _non_tensordict are not entries of the underlying tensordict: forget them on the tensorclass side when
    the reference does not have them (to_dict / to_tensordict ...)"""
    if not isinstance(c, list) or not c or not ntkeys or not isinstance(ref, list) or not ref or ref[0] != c[0]:
        return c
    if c[0] == "TD" and len(c) == 7 and len(ref) == 7:
        have = set(k for k, _ in ref[6])
        return c[:6] + [[[k, v] for k, v in c[6] if not (k in ntkeys and k not in have)]]
    if c[0] == "dict":
        have = set(k for k, _ in ref[1])
        return ["dict", [[k, v] for k, v in c[1] if not (k.strip("'") in ntkeys and k not in have)]]
    return c


def drop_none_fields(c, nonefields):
    """None-valued fields of the class are not entries of the underlying tensordict: forget them on the tensorclass side
    (to_dict / to_tensordict with retain_none, ...)"""
    if not isinstance(c, list) or not c or not nonefields:
        return c
    none = ["PY", "None"]
    if c[0] == "TD" and len(c) == 7:
        return c[:6] + [[[k, v] for k, v in c[6] if not (k in nonefields and v == none)]]
    if c[0] == "dict":
        return ["dict", [[k, v] for k, v in c[1] if not (k.strip("'") in nonefields and v == none)]]
    return c


def judge(case, o_tc, o_td, o_td2):
    """returns (verdict, problems, flags).  verdict in ok / fail / uninformative."""
    cname = case["cls"]
    fields = fields_of(cname)
    cls = "C15" + cname
    outer = case.get("embed") == "outer"
    flags = []
    for o in (o_tc, o_td, o_td2):
        if o.get("status") == "build-raise":
            return "fail", [f"the subject {case['cls']}/{case['layout']} cannot be constructed: {o.get('exc')}: {o.get('msg', '')[:120]}"], ["build"]
    unstable = o_td != o_td2
    if unstable:
        flags.append("unstable-reference")
    if o_td["status"] == "raise":
        if o_td2["status"] != "raise":
            return "uninformative", [], flags + ["reference-flaky"]
        if o_tc["status"] == "raise":
            return "ok", [], flags + ["both-raise"]
        a0 = (case.get("args") or [None])[0]
        ntk = [k for k, _ in (o_tc.get("nt_before") or [])]
        if (o_td.get("exc") == "KeyError" or "locked" in o_td.get("msg", "").lower()) and isinstance(a0, list) and len(a0) == 2 and a0[0] == "lit" and a0[1] in ntk and not outer:
            # the key names a field held in _non_tensordict (None ...): the underlying tensordict does not know it
            return "ok", [], flags + ["field-outside-the-tensordict"]
        if case["name"] in ("update", "update_", "update_at_") and isinstance(a0, list) and a0 and (a0[0] == "dct" or a0[:2] == ["like", "dict"]):
            # a plain dict is first converted by the class's own typed constructor (from_dict with the instance's batch size)
            return "ok", [], flags + ["typed-dict-conversion"]
        return "fail", [f"the tensordict raises {o_td['exc']}, the tensorclass returns {short(o_tc.get('res'))}"], flags + ["td-raises-only"]
    if o_td2["status"] == "raise":
        return "uninformative", [], flags + ["reference-flaky"]
    ref, ref2 = o_td["res"], o_td2["res"]
    # does the reference leave the class structure?  then the property demands nothing about re-wrapping
    leaves_structure = False
    if not outer:
        for c in (ref, o_td.get("post")):
            ks = top_keys(c) if isinstance(c, list) and c and c[0] == "TD" else None
            if ks is not None and not set(ks) <= set(fields):
                leaves_structure = True
        if isinstance(ref, list) and ref and ref[0] in ("tuple", "list") and isinstance(ref[1], list):
            for c in ref[1]:
                ks = top_keys(c)
                if ks is not None and not set(ks) <= set(fields):
                    leaves_structure = True
    if o_tc["status"] == "raise":
        if o_tc.get("exc") == "FrozenInstanceError" and "frozen" in CLASS_INFO[cname][1] and (ref == ["REF", "SELF"] or case["name"].endswith("_")):
            return "ok", [], flags + ["frozen-rejects-mutation"]    # frozen=True: in-place operations are refused
        if o_td.get("instance_raises"):
            return "ok", [], flags + ["both-raise"]
        if o_tc.get("exc") == "TypeError" and "Failed to cast" in o_tc.get("msg", "") and "autocast" in CLASS_INFO[cname][1]:
            return "ok", [], flags + ["typed-cast-rejected"]     # autocast: a value that cannot become the declared type is refused
        if leaves_structure:
            return "ok", [], flags + ["nonmatching-structure-rejected"]
        return "fail", [f"the tensordict returns {short(ref)}, the tensorclass raises {o_tc['exc']}: {o_tc.get('msg', '')[:100]}"], flags + ["tc-raises-only"]
    res = o_tc["res"]
    probs = []
    nonefields = [k for k, v in (o_tc.get("nt_before") or []) if v == ["PY", "None"]]
    if case["name"] == "state_dict" and not outer and isinstance(res, list) and res and res[0] == "dict":
        # the tensorclass format is {"_tensordict": <the tensordict's state dict>, "_non_tensordict": {...}}
        sub = [v for k, v in res[1] if k == "'_tensordict'"]
        if sub:
            res = sub[0]
    ntkeys = [k for k, v in (o_tc.get("nt_before") or [])]
    if case["name"] == "non_tensor_items" and not outer and isinstance(res, list) and res and res[0] in ("list", "tuple") and isinstance(res[1], list):
        # fields held in _non_tensordict are listed too: they are not entries of the underlying tensordict
        res = [res[0], [x for x in res[1] if not (isinstance(x, list) and x and x[0] == "tuple" and x[1] and x[1][0] in (["PY", repr(k)] for k in ntkeys))]]
    # (1) content
    a, b = erase(res), erase(ref)
    a, b = resolve_refs(a, erase(o_tc.get("post"))), resolve_refs(b, erase(o_td.get("post")))
    a = drop_nt_fields(a, ntkeys, b)
    pa, pb = erase(o_tc.get("post")), erase(o_td.get("post"))
    a, b, pa, pb = strip_lock(a), strip_lock(b), strip_lock(pa), strip_lock(pb)   # the lock flag is not an observable of C15
    if outer and case["name"] in FORMATS:
        return "ok", [], flags + ["format-not-compared"]
    if unstable or "empty" in case["name"] or "rand" in case["name"]:
        a, b, pa, pb = strip_values(a), strip_values(b), strip_values(pa), strip_values(pb)
        if strip_values(erase(ref)) != strip_values(erase(ref2)):
            return "uninformative", [], flags + ["reference-structure-unstable"]
    d = first_diff(a, b, "result")
    if d:
        probs.append("content " + d)
        flags.append("content")
    d = first_diff(pa, pb, "self-after")
    if d:
        probs.append("state after the call " + d)
        flags.append("post")
    # (1b) torch.cat of lazily stacked operands: dense vs lazily stacked result is a visible difference of the result
    if case["name"] == "cat" and not outer and isinstance(ref, list) and ref and ref[0] == "TD" and isinstance(res, list) and res and res[0] == "TC":
        inner = res[2]
        if isinstance(inner, list) and inner and inner[0] == "TD" and inner[1] != ref[1]:
            probs.append(f"result container: the tensordict gives a {ref[1]} result, the tensorclass wraps a {inner[1]}")
            flags.append("kind")
    # (2) wrapping
    if outer:
        w = node_problems(res, ref, cls, fields) + node_problems(o_tc.get("post"), o_td.get("post"), cls, fields, "self-after")
    elif case["name"] in CONVERSIONS:
        w = []
    else:
        w = wrap_problems(res, ref, cls, fields)
    if w:
        probs += w
        flags.append("wrap")
        if any("not a tensordict" in x for x in w):
            flags.append("nontensor-wrapped")
    # (3) survival of non-tensor fields
    if not outer and case["name"] in SURVIVE:
        s = nt_survives(res, o_tc.get("nt_before"))
        post = o_tc.get("post")
        if isinstance(post, list) and post and post[0] == "TC":
            s += nt_survives(post, o_tc.get("nt_before"), "self-after")
        if s:
            probs += s
            flags.append("nontensor")
    return ("fail" if probs else "ok"), probs, flags


def strip_refs(c):
    """replace identity markers by a wildcard (used by defect patterns that are only about identity)"""
    if not isinstance(c, list) or not c:
        return c
    if c[0] == "REF":
        return ["REF", "*"]
    return [strip_refs(x) if isinstance(x, list) else x for x in c]


# ------------------------------------------------------------------------------------------------ abstraction for the model
def _ratom(c):
    if not isinstance(c, list) or not c:
        return "other"
    if c == ["REF", "SELF"]:
        return "self"
    if c[0] == "REF":
        return ["td", [], c[1] == "KWout"] if c[1] == "KWout" else "other"
    if c[0] == "TD" and len(c) == 7:
        return ["td", sorted(k for k, _ in c[6]), False]
    if c == ["PY", "None"]:
        return "none"
    return "other"


def _tatom(c, cls, same_td=None):
    if not isinstance(c, list) or not c:
        return "other"
    if c == ["REF", "SELF"]:
        return "self"
    if c == ["REF", "SELFTD"]:
        return "selftd"
    if c[0] == "REF":
        return "out" if c[1] == "KWout" else "other"
    if c[0] == "TC" and c[1] == cls:
        ks = sorted(top_keys(c[2]) or [])
        return ["wrapped", ks, sorted([k, "none" if v == ["PY", "None"] else "val"] for k, v in c[3]), same_td]
    if c[0] == "TD" and len(c) == 7:
        return ["bare", sorted(k for k, _ in c[6])]
    if c == ["PY", "None"]:
        return "none"
    return "other"


def abstract_pair(case, o_tc, o_td):
    """(what the tensordict returned, what the tensorclass returned) in the vocabulary of Model/C15_TCWrap.v"""
    if case.get("embed") or case.get("recipe") or case["mode"] not in ("call", "attr", "op"):
        return None
    if case["name"] in ("stack", "cat", "lazy_stack", "maybe_dense_stack") and '"tc"' in json.dumps(case.get("args", [])):
        return None      # given tensorclass inputs the inner call already returns a tensorclass: not what the reference returned
    if o_td.get("status") != "ok" or o_td.get("instance_raises"):
        return None
    cls = "C15" + case["cls"]
    ref = o_td["res"]
    if '["REF", "ARG' in json.dumps(ref):
        return None      # an argument passed through: its keys are not part of the observation
    if isinstance(ref, list) and ref and ref[0] in ("tuple", "namedtuple"):
        elems = ref[1] if ref[0] == "tuple" else [v for _, v in ref[2]]
        r = ["tuple"] + [_ratom(x) for x in elems]
    else:
        r = _ratom(ref)
    if o_tc.get("status") == "raise":
        t = ["raise", o_tc.get("exc")]
    else:
        res = o_tc["res"]
        if isinstance(res, list) and res and res[0] == "tuple" and isinstance(res[1], list):
            t = ["tuple"] + [_tatom(x, cls) for x in res[1]]
        elif isinstance(res, list) and res and res[0] == "namedtuple":
            t = ["tuple"] + [_tatom(x, cls) for _, x in res[2]]
        else:
            t = _tatom(res, cls, o_tc.get("res_same_td"))
    post = o_td.get("post")
    selfkeys = sorted(top_keys(post) or []) if isinstance(post, list) else []
    nt = [[k, "none" if v == ["PY", "None"] else "val"] for k, v in (o_tc.get("nt_before") or [])]
    out = {"r": r, "t": t, "selfkeys": selfkeys, "nt": nt}
    if "stores_post" in o_tc:
        out["setitem"] = {"pre": o_tc["stores_pre"], "post": o_tc["stores_post"], "value": o_tc["value"]}
    return out
