"""C15 deep streams with their own spec oracles (independent of the Coq model AND of the library's own helpers):

  indep   result independence / aliasing.  A producer (unbind, split, chunk, torch.unbind / torch.split, iteration, indexing,
          tuple-returning reductions, stack / cat / lazy-stack round trips, shape operations) is run on a tensorclass and on its
          underlying tensordict; every field of the source and of every result is read (.field, get(key), to_dict()[key],
          obj[0].field); then ONE object (a result, or the source) gets one field changed (Optional field None <-> tensor, a
          non-tensor value, del_) and everything is read again.  Reference = the same program on the underlying tensordict plus
          a python model of the non-tensor store in which every result owns an independent copy of the source's store
          (fields absent from the tensordict part read None).  A store shared between siblings, or between a result and the
          source, shows as a read that differs from the reference on an object that was not touched.
  nary    n-ary functions (torch.cat / torch.stack / lazy_stack / maybe_dense_stack / instance .cat / .stack) with 1-4 operands
          whose non-tensor value is drawn, in every position, from {the identical object, an equal object rebuilt at run time,
          a different value}; oracle = row provenance: row i of the result carries the non-tensor value of the operand row i
          came from (single rows, operand slices, get(), to_dict(), split / unbind round trip), alone and nested in a tensordict.
Nothing here looks at the Coq model; the correspondence with Model/C15_Pieces.v is in `correspond`."""
import json

from . import c15_lib as Lb
from .core import Sym, sx

_D = {}
MISSING = ("missing",)


def D():
    """subject classes of the nary stream (a field typed Any so that dicts / tuples / arbitrary objects are legal values)"""
    if _D:
        return _D
    t = Lb.T()
    import typing
    torch = t["torch"]
    Optional, Any = typing.Optional, typing.Any

    class C15Meta:
        x: torch.Tensor
        meta: Any = None
        o: Optional[torch.Tensor] = None
        label: str = "l"

    C15Meta.__module__ = __name__
    C15Meta.__qualname__ = "C15Meta"
    C15Meta = t["tensorclass"](C15Meta)

    class C15SubMeta(t["TensorClass"]):
        x: torch.Tensor
        meta: Any = None
        o: Optional[torch.Tensor] = None
        label: str = "l"

    for c in (C15Meta, C15SubMeta):
        c.__module__ = __name__
        c.__qualname__ = c.__name__
        globals()[c.__name__] = c

    class Rz:
        """a payload whose == raises (the library must then treat two of them as different)"""
        __hash__ = None

        def __init__(self, v):
            self.v = v

        def __eq__(self, other):
            raise ValueError("payloads of this kind cannot be compared")

        def __repr__(self):
            return f"Rz({self.v})"

    _D.update(Meta=C15Meta, SubMeta=C15SubMeta, Rz=Rz)
    return _D


def call(f):
    try:
        return ("ok", f())
    except Exception as e:  # noqa: BLE001
        return ("raise", type(e).__name__, str(e)[:160])


def unwrap(v):
    t = Lb.T()
    if isinstance(v, t["NTD"]):
        return v.data
    if isinstance(v, t["NTS"]):
        return v.tolist()
    return v


def same_val(a, b):
    torch = Lb.T()["torch"]
    if a is None or b is None:
        return a is b
    if isinstance(a, torch.Tensor) and isinstance(b, torch.Tensor):
        return a.shape == b.shape and a.dtype == b.dtype and bool((a == b).all())
    ca = Lb.strip_lock(Lb.erase(Lb.canon(a, {"ids": {}})))
    cb = Lb.strip_lock(Lb.erase(Lb.canon(b, {"ids": {}})))
    return ca == cb


def brief(v):
    if isinstance(v, tuple) and v and v[0] in ("absent", "raise", "missing"):
        return "<" + " ".join(str(x) for x in v) + ">"
    return Lb.short(Lb.canon(v, {"ids": {}}))


# ================================================================================================ indep stream
INDEP_CLASSES = ["Dec", "Sub", "Shadow", "Auto", "NoCast", "SubNoCast", "SubAuto", "Nest", "SubNest", "AutoNest"]


def opt_field(cname):
    return None if cname in ("Nest", "SubNest", "AutoNest") else "o"


def nt_field(cname):
    return "tag" if cname in ("Nest", "SubNest", "AutoNest") else "s"


def omask(ostate, i):
    return {"none": False, "all": True, "het": i % 2 == 1, "het1": i % 2 == 0}[ostate]


def build_subject(cname, layout, ostate, salt=0):
    """(tensorclass instance, the payloads deliberately put in its non-tensor store).  Public constructors only."""
    t = Lb.T()
    C = t["classes"][cname]
    of = opt_field(cname)
    bs = Lb.BS

    def inst(shape, i, sval, names=None, has_o=False):
        tc = Lb._inst(cname, shape, salt + i, sval, names)
        if has_o and of:
            tc.set(of, Lb._leaf(shape, (), 11 + salt + i))
        return tc

    if layout in ("plain", "named", "legacy"):
        tc = inst(bs, 0, "hi", ["a", "b"] if layout == "named" else None, ostate == "all")
        payloads = {}
        if layout == "legacy":
            td = tc._tensordict
            nt = {}
            for k in list(td.keys()):
                v = td.get(k)
                if isinstance(v, t["NTD"]):
                    nt[k] = v.data
                    td = td.exclude(k)
            payloads = dict(nt)
            tc = C.from_tensordict(td, dict(nt))
        return tc, payloads
    members = [inst(bs[1:], i, "hi" if layout == "lazy" else f"hi{i}", None, omask(ostate, i)) for i in range(bs[0])]
    return t["lazy_stack"](members, 0), {}


class Ref:
    """reference object: the underlying tensordict (real) + a python dict standing for the non-tensor store"""
    __slots__ = ("td", "nt")

    def __init__(self, td, nt):
        self.td, self.nt = td, nt


def ref_new(td, src_nt, fields):
    keys = set(td.keys())
    nt = {k: v for k, v in src_nt.items() if k not in keys}
    for f in fields:
        if f not in keys and f not in nt:
            nt[f] = None
    return Ref(td, nt)


def ref_read(ref, f):
    if f in ref.td.keys():
        return ("val", unwrap(ref.td.get(f)))
    if f in ref.nt:
        return ("val", ref.nt[f])
    return ("absent",)


def tc_read(fn):
    try:
        return ("val", fn())
    except (KeyError, AttributeError) as e:
        return ("absent", type(e).__name__)
    except Exception as e:  # noqa: BLE001
        return ("raise", type(e).__name__, str(e)[:80])


PRODUCERS = {
    # name -> (function of (obj, torch, lazy_stack) giving the list of results, needs batch rank >= 1)
    "unbind0": lambda o, T: list(o.unbind(0)),
    "unbind1": lambda o, T: list(o.unbind(1)),
    "unbind-1": lambda o, T: list(o.unbind(-1)),
    "split1": lambda o, T: list(o.split(1, 0)),
    "split12": lambda o, T: list(o.split([1, 2], 0)),
    "split1d1": lambda o, T: list(o.split(1, 1)),
    "chunk2": lambda o, T: list(o.chunk(2, 0)),
    "chunk3": lambda o, T: list(o.chunk(3, 0)),
    "tunbind0": lambda o, T: list(T["torch"].unbind(o, 0)),
    "tunbind1": lambda o, T: list(T["torch"].unbind(o, 1)),
    "tsplit2": lambda o, T: list(T["torch"].split(o, 2, 0)),
    "tsplit12": lambda o, T: list(T["torch"].split(o, [1, 2], 0)),
    "iter": lambda o, T: list(o),
    "index": lambda o, T: [o[0], o[1], o[0:2], o[..., 0], o[T["torch"].tensor([0, 2])], o[T["torch"].tensor([True, False, True])]],
    "max0": lambda o, T: list(o.max(dim=0)),
    "cummax0": lambda o, T: list(o.cummax(dim=0)),
    "stack-unbind": lambda o, T: list(T["torch"].stack([o, o.clone()], 0).unbind(0)),
    "stack1-unbind": lambda o, T: list(T["torch"].stack([o, o.clone(), o.clone()], 1).unbind(1)),
    "cat-split": lambda o, T: list(T["torch"].cat([o, o.clone()], 0).split(o.shape[0], 0)),
    "lazystack-unbind": lambda o, T: list(T["lazy_stack"]([o.clone(), o.clone()], 0).unbind(0)),
    "clones": lambda o, T: [o.clone(), o.copy(), o.clone(False)],
    "shapes": lambda o, T: [o.reshape(-1), o.flatten(), o.unsqueeze(0), o[None], o.permute(1, 0), o.transpose(0, 1), o[:], o[...]],
    "expand": lambda o, T: [o.expand(2, *o.shape), o.unflatten(0, (o.shape[0], 1)), o.repeat(1, 1)],
    "stack-self": lambda o, T: [T["torch"].stack([o, o], 0), T["torch"].cat([o, o], 0)],
    "two-handles": lambda o, T: [o[0], o.unbind(0)[0], o[1]],
}
MULTI = ["unbind0", "unbind1", "unbind-1", "split1", "split12", "split1d1", "chunk2", "chunk3", "tunbind0", "tunbind1", "tsplit2", "tsplit12",
         "iter", "index", "max0", "cummax0", "stack-unbind", "stack1-unbind", "cat-split", "lazystack-unbind", "two-handles"]
SINGLE = ["clones", "shapes", "expand", "stack-self"]


def mutation_menu(cname, layout, ostate):
    of, nf = opt_field(cname), nt_field(cname)
    m = []
    if of:
        m += [{"field": of, "kind": "tensor", "via": "setattr"}, {"field": of, "kind": "tensor", "via": "set"},
              {"field": of, "kind": "none", "via": "setattr"}, {"field": of, "kind": "none", "via": "set"},
              {"field": of, "kind": "del", "via": "del_"}]
    m += [{"field": nf, "kind": "payload", "via": "setattr"}, {"field": nf, "kind": "payload", "via": "set"}]
    if cname not in ("Nest", "SubNest", "AutoNest", "Shadow") and "d" in Lb.fields_of(cname):
        m.append({"field": "d", "kind": "payload", "via": "setattr"})
    return m


def mut_value(m, obj, cname):
    torch = Lb.T()["torch"]
    if m["kind"] == "tensor":
        return torch.full(tuple(obj.batch_size), 42.0)
    if m["kind"] == "none":
        return None
    if m["kind"] == "payload":
        return {"k": 2, "s": "changed"} if m["field"] == "tag" else "changed"
    return None


def mutate_tc(obj, m, cname):
    f = m["field"]
    if m["kind"] == "del":
        return obj.del_(f)
    v = mut_value(m, obj, cname)
    if m["via"] == "setattr":
        return setattr(obj, f, v)
    return obj.set(f, v)


def mutate_ref(ref, m, cname):
    f = m["field"]
    inkeys = f in ref.td.keys()
    if m["kind"] == "del":
        if inkeys:
            ref.td.del_(f)
        elif f in ref.nt:
            ref.nt[f] = None
        else:
            raise KeyError(f)
        return
    v = mut_value(m, ref.td, cname)
    if v is None:
        if inkeys:
            ref.td.del_(f)
        ref.nt[f] = None
        return
    ref.nt.pop(f, None)
    if m["kind"] == "payload":
        ref.td.set_non_tensor(f, v)       # a python payload is an entry of kind non-tensor data (td.set would read a dict as a sub-tensordict)
    else:
        ref.td.set(f, v)


def indep_cases(R):
    rng = R.rng
    out = []
    seen = set()

    def add(cname, layout, ostate, prod, target, m):
        c = {"stream": "indep", "cls": cname, "layout": layout, "ostate": ostate, "producer": prod, "target": target, "mutation": m}
        k = json.dumps(c, sort_keys=True)
        if k not in seen:
            seen.add(k)
            out.append(c)

    combos = []
    for cname in INDEP_CLASSES:
        for layout in ("plain", "legacy", "named", "lazy", "lazyhet"):
            if layout == "legacy" and cname in ("Nest", "SubNest", "AutoNest"):
                continue
            states = ["none", "all"] + (["het", "het1"] if layout in ("lazy", "lazyhet") and opt_field(cname) else [])
            if not opt_field(cname):
                states = ["none"]
            for ostate in states:
                combos.append((cname, layout, ostate))
    # core grid: every multi-result producer x {flip of the Optional field, non-tensor assignment} on the two declaration styles
    for cname in ("Dec", "Sub"):
        for layout, ostate in (("plain", "none"), ("plain", "all"), ("legacy", "none"), ("lazy", "het"), ("lazyhet", "het1")):
            for prod in MULTI + SINGLE:
                menu = mutation_menu(cname, layout, ostate)
                picks = [menu[0 if ostate != "all" else 2], menu[5]]
                if R.quick:
                    picks = [picks[(len(out) + len(prod)) % 2]] if prod in SINGLE or layout in ("lazyhet",) else picks
                for m in picks:
                    add(cname, layout, ostate, prod, 0, m)
    n = 420 if R.quick else 9000
    for _ in range(n):
        cname, layout, ostate = rng.choice(combos)
        prod = rng.choice(MULTI * 3 + SINGLE)
        m = rng.choice(mutation_menu(cname, layout, ostate))
        target = rng.choice([0, 0, 1, -1, "last", "source"])
        add(cname, layout, ostate, prod, target, m)
    return out


def observe(pairs, fields, collfields, phase, probs, detail, entries=None):
    """pairs: [(who, tensorclass object, Ref)].  Every read of every field against the reference."""
    t = Lb.T()
    if entries is None:
        entries = []
    for who, obj, ref in pairs:
        tdd = call(lambda: ref.td.to_dict())
        tcd = call(lambda: obj.to_dict())
        if tcd[0] != "ok" and tdd[0] == "ok":
            probs.append(f"{phase}: {who}.to_dict() raises {tcd[1]}")
        row_tc = row_td = None
        if len(obj.batch_size) >= 1 and obj.batch_size[0] >= 1 and len(ref.td.batch_size) >= 1:
            row_td = call(lambda: ref.td[0])
            row_tc = call(lambda: obj[0])
            if row_td[0] == "ok" and row_tc[0] != "ok":
                probs.append(f"{phase}: {who}[0] raises {row_tc[1]}")
        for f in fields:
            exp = ref_read(ref, f)
            got = tc_read(lambda: getattr(obj, f))
            detail.setdefault(phase, {})[f"{who}.{f}"] = abstract_read(got)
            if not read_ok(got, exp):
                probs.append(f"{phase}: {who}.{f} reads {brief(got[1] if got[0] == 'val' else got)}; the underlying tensordict + an own copy of the "
                             f"non-tensor store give {brief(exp[1] if exp[0] == 'val' else exp)}")
                entries.append({"who": who, "field": f, "got": abstract_read(got), "exp": abstract_read(exp), "in_td": f in ref.td.keys()})
                continue     # the other reads of this field would repeat it
            g2 = tc_read(lambda: obj.get(f))
            if not (read_ok(g2, exp) or (exp[0] == "absent" and g2 == ("val", None))):
                entries.append({"who": who, "field": f, "got": "other-read", "exp": "?", "in_td": f in ref.td.keys()})
                probs.append(f"{phase}: {who}.get({f!r}) gives {brief(g2[1] if g2[0] == 'val' else g2)}, attribute / key access give "
                             f"{brief(exp[1] if exp[0] == 'val' else exp)}")
            if tcd[0] == "ok" and tdd[0] == "ok" and f not in collfields:
                gd = tcd[1].get(f, MISSING)
                ed = tdd[1].get(f, MISSING) if f in ref.td.keys() else (ref.nt[f] if f in ref.nt else MISSING)
                if (gd is MISSING) != (ed is MISSING) or (gd is not MISSING and not same_val(gd, ed)):
                    entries.append({"who": who, "field": f, "got": "other-read", "exp": "?", "in_td": f in ref.td.keys()})
                    probs.append(f"{phase}: {who}.to_dict()[{f!r}] is {brief(gd)}, expected {brief(ed)}")
            if row_tc is not None and row_tc[0] == "ok" and row_td[0] == "ok":
                rref = Ref(row_td[1], {k: v for k, v in ref.nt.items()})
                rexp = ref_read(ref_new(row_td[1], rref.nt, fields), f)
                rgot = tc_read(lambda: getattr(row_tc[1], f))
                if not read_ok(rgot, rexp):
                    entries.append({"who": who, "field": f, "got": "other-read", "exp": "?", "in_td": f in ref.td.keys()})
                    probs.append(f"{phase}: {who}[0].{f} reads {brief(rgot[1] if rgot[0] == 'val' else rgot)}, expected "
                                 f"{brief(rexp[1] if rexp[0] == 'val' else rexp)}")


def td_kinds(td):
    t = Lb.T()
    out = {}
    for k in td.keys():
        v = td.get(k)
        out[k] = "nt" if isinstance(v, (t["NTD"], t["NTS"])) else ("c" if isinstance(v, t["Base"]) or Lb._is_tc(v) else "t")
    return out


def real_wf(tc):
    fields = list(type(tc).__dataclass_fields__)
    td, nt = tc.__dict__["_tensordict"], tc.__dict__["_non_tensordict"]
    tk = set(td.keys())
    return all((f in tk) != (f in nt) for f in fields) and all(k in fields for k in list(tk) + list(nt))


def read_ok(got, exp):
    if exp[0] == "absent":
        return got[0] == "absent"
    return got[0] == "val" and same_val(got[1], exp[1])


def abstract_read(got):
    """vocabulary of the model: t (tensor / collection) | py (python payload) | none | absent | raise"""
    t = Lb.T()
    if got[0] != "val":
        return got[0]
    v = got[1]
    if v is None:
        return "none"
    if isinstance(v, t["torch"].Tensor) or isinstance(v, t["Base"]) or Lb._is_tc(v):
        return "t"
    return "py"


def run_indep(case):
    t = Lb.T()
    cname = case["cls"]
    fields = Lb.fields_of(cname)
    C = t["classes"][cname]
    T = {"torch": t["torch"], "lazy_stack": t["lazy_stack"]}
    probs, flags, detail = [], [], {}
    tc, payloads = build_subject(cname, case["layout"], case["ostate"])
    twin, _ = build_subject(cname, case["layout"], case["ostate"])
    src_td = twin._tensordict
    src_ref = ref_new(src_td, payloads, fields)
    prod = PRODUCERS[case["producer"]]
    r_td = call(lambda: prod(src_td, T))
    r_tc = call(lambda: prod(tc, T))
    flags.append("producer:" + case["producer"])
    if r_td[0] != "ok":
        if r_tc[0] == "ok":
            probs.append(f"the tensordict raises {r_td[1]} for {case['producer']}, the tensorclass does not")
        return ("fail" if probs else "uninformative"), probs, flags + ["producer-raises"], detail
    if r_tc[0] != "ok":
        return "fail", [f"{case['producer']}: the tensordict succeeds, the tensorclass raises {r_tc[1]}: {r_tc[2][:100]}"], flags, detail
    res_td, res_tc = r_td[1], r_tc[1]
    if len(res_td) != len(res_tc):
        return "fail", [f"{case['producer']}: {len(res_td)} results on the tensordict, {len(res_tc)} on the tensorclass"], flags, detail
    if not res_td:
        return "uninformative", [], flags + ["no-result"], detail
    if any(x is src_td for x in res_td):
        # the tensordict hands out itself: the tensorclass may return itself or a fresh instance around the same tensordict
        return "uninformative", [], flags + ["td-returns-itself"], detail
    refs = {}
    collfields = [f for f in fields if f in ("inner",)]
    pairs = [("source", tc, src_ref)]
    for i, (a, b) in enumerate(zip(res_tc, res_td)):
        if not isinstance(b, t["Base"]):
            return "uninformative", [], flags + ["non-td-result"], detail
        if set(b.keys()) <= set(fields):
            if type(a) is not C:
                probs.append(f"result[{i}] of {case['producer']} is a {type(a).__name__}, not re-wrapped in {C.__name__}")
                return "fail", probs, flags, detail
            if id(b) in refs:
                flags.append("two-handles-on-one-tensordict")      # e.g. the same member of a lazy stack reached twice
            refs[id(b)] = True
            # the tensordict object is shared by identity where the reference shares it; the non-tensor store is this result's own copy
            pairs.append((f"result[{i}]", a, ref_new(b, src_ref.nt, fields)))
    if len(pairs) < 2:
        return "uninformative", [], flags + ["no-wrapped-result"], detail
    order = []
    for _, _, rf in pairs:
        if not any(rf.td is x for x in order):
            order.append(rf.td)
    detail["tdheap"] = [td_kinds(x) for x in order]
    detail["alias"] = [next(i for i, x in enumerate(order) if x is rf.td) for _, _, rf in pairs]
    detail["who"] = [p[0] for p in pairs]
    detail["nt0"] = sorted([k, "none" if v is None else "val"] for k, v in src_ref.nt.items())
    observe(pairs, fields, collfields, "after-op", probs, detail)
    if probs:
        return "fail", probs, flags + ["phase:after-op"], detail
    # one mutation on ONE object
    tgt = case["target"]
    ti = 0 if tgt == "source" else (len(pairs) - 1 if tgt == "last" else (1 + (tgt % (len(pairs) - 1))))
    who, obj, ref = pairs[ti]
    m = case["mutation"]
    if "frozen" in Lb.CLASS_INFO[cname][1]:
        return "ok", [], flags + ["frozen"], detail
    mt = call(lambda: mutate_ref(ref, m, cname))
    mc = call(lambda: mutate_tc(obj, m, cname))
    flags.append(f"mutation:{m['kind']}:{m['via']}")
    flags.append("target:" + ("source" if ti == 0 else "result"))
    detail["mutated"] = ti
    detail["mutation"] = m
    if mt[0] != "ok" or mc[0] != "ok":
        if mt[0] == "ok":
            # the typed assignment is judged by the attr stream; here only that a refused assignment changes nothing
            flags.append("mutation-refused:" + mc[1])
            return "uninformative", [], flags, detail
        if mc[0] == "ok":
            flags.append("reference-mutation-raises:" + mt[1])
            return "uninformative", [], flags, detail
        return "ok", [], flags + ["both-raise"], detail
    entries = []
    observe(pairs, fields, collfields, "after-mutation", probs, detail, entries)
    detail["wf-after"] = [real_wf(o_) for _, o_, _ in pairs]
    probs[:] = [x.replace("after-mutation:", f"after-mutation of {who}:") for x in probs]
    if probs:
        flags.append("phase:after-mutation")
        if (m["kind"] == "tensor" and entries and all(e["who"] != who and e["field"] == m["field"] and e["got"] == "none" and e["exp"] == "t" and e["in_td"]
                                                      for e in entries)):
            # a None kept in _non_tensordict hides a tensor that reached the (shared) underlying tensordict through another handle
            flags.append("sig:stale-none-hides-tensor-of-shared-tensordict")
    return ("fail" if probs else "ok"), probs, flags, detail


# ================================================================================================ nary stream
KINDS = ["str", "dict", "tuple", "list", "raiser"]
FNS = ["cat", "stack", "lazy_stack", "maybe_dense_stack", "m.cat", "m.stack"]


def make_value(kind, vclass):
    """a FRESH object of the given equality class, built at run time (never an interned literal)"""
    if kind == "str":
        return "".join(["value-", str(vclass)])
    if kind == "dict":
        return {"shard": vclass, "src": ["a", "b", "c", "d"][vclass]}
    if kind == "tuple":
        return tuple([vclass, "k"])
    if kind == "list":
        return [vclass, "k"]
    if kind == "raiser":
        return D()["Rz"](vclass)
    raise ValueError(kind)


def veq(a, b):
    Rz = D()["Rz"]
    if isinstance(a, Rz) or isinstance(b, Rz):
        return isinstance(a, Rz) and isinstance(b, Rz) and a.v == b.v
    return type(a) is type(b) and a == b


def leaves_all(got, v):
    if isinstance(got, type(v)) and veq(got, v):
        return True
    if isinstance(got, list) and got:
        return all(leaves_all(g, v) for g in got)
    return False


def nary_cases(R):
    rng = R.rng
    out, seen = [], set()

    def add(c):
        k = json.dumps(c, sort_keys=True)
        if k not in seen:
            seen.add(k)
            out.append(c)

    def case(cls, fn, dim, ops, kind, layout, embed, sizes):
        return {"stream": "nary", "cls": cls, "fn": fn, "dim": dim, "ops": ops, "kind": kind, "layout": layout, "embed": embed, "sizes": sizes}

    # core grid: every pattern of {identical, equal-but-distinct, different} over 1..4 positions for torch.cat / torch.stack
    import itertools
    choices = [(0, True), (0, False), (1, False)]       # (equality class, shared object?)
    for n in (1, 2, 3, 4):
        pats = list(itertools.product(choices, repeat=n - 1))
        if R.quick and n == 4:
            pats = rng.sample(pats, 9)
        for p in pats:
            ops = [[0, True]] + [[c, s] for c, s in p]
            for fn in ("cat", "stack"):
                kind = KINDS[(len(out)) % 3]
                cls = ("Meta", "SubMeta")[len(out) % 2]
                add(case(cls, fn, 0, ops, kind, "plain", None, [2] * n))
    nrand = 260 if R.quick else 6000
    for _ in range(nrand):
        n = rng.choice([1, 2, 2, 3, 3, 3, 4, 4])
        ops = [[rng.randrange(3), rng.random() < 0.4] for _ in range(n)]
        fn = rng.choice(FNS)
        dim = rng.choice([0, 1, -1]) if "cat" in fn else rng.choice([0, 1, 2, -1])
        layout = rng.choice(["plain"] * 6 + ["lazy", "legacy"])
        embed = "outer" if (rng.random() < 0.25 and not fn.startswith("m.")) else None
        sizes = [rng.choice([1, 2, 3]) for _ in range(n)] if "cat" in fn else [2] * n
        add(case(rng.choice(["Meta", "SubMeta"]), fn, dim, ops, rng.choice(KINDS), layout, embed, sizes))
    return out


def nary_operands(case):
    """the operands (fresh tensorclass instances), their values, and twin operands for the tensordict-level run"""
    t = Lb.T()
    torch = t["torch"]
    C = D()[case["cls"]]
    kind, dim, fn = case["kind"], case["dim"], case["fn"]
    shared = {}
    vals, ops = [], []
    for k, ((vclass, share), size) in enumerate(zip(case["ops"], case["sizes"])):
        if share:
            if vclass not in shared:
                shared[vclass] = make_value(kind, vclass)
            v = shared[vclass]
        else:
            v = make_value(kind, vclass)
        vals.append(v)
        if "cat" in fn:
            d = dim % 2
            shape = [2, 2]
            shape[d] = size
        else:
            shape = [2, 3]
        n = shape[0] * shape[1]
        x = torch.arange(n, dtype=torch.float32).reshape(shape) + 100 * k
        if case["layout"] == "lazy":
            members = [C(x=x[i], meta=v, batch_size=shape[1:]) for i in range(shape[0])]
            op = t["lazy_stack"](members, 0)
        elif case["layout"] == "legacy":
            td = t["TD"]({"x": x}, batch_size=shape)
            op = C.from_tensordict(td, {"meta": v, "label": "l"})
        else:
            op = C(x=x, meta=v, batch_size=shape)
        ops.append(op)
    return C, ops, vals


def nary_apply(fn, ops, dim):
    t = Lb.T()
    torch = t["torch"]
    if fn == "cat":
        return torch.cat(ops, dim)
    if fn == "stack":
        return torch.stack(ops, dim)
    if fn == "lazy_stack":
        return t["lazy_stack"](ops, dim)
    if fn == "maybe_dense_stack":
        return t["Lazy"].maybe_dense_stack(ops, dim)
    if fn == "m.cat":
        return ops[0].cat(ops, dim)
    if fn == "m.stack":
        return ops[0].stack(ops, dim)
    raise ValueError(fn)


def sel(r, d, i):
    return r[(slice(None),) * d + (i,)]


def run_nary(case):
    t = Lb.T()
    torch = t["torch"]
    probs, flags, detail = [], [], {}
    C, ops, vals = nary_operands(case)
    fn, embed = case["fn"], case["embed"]
    is_cat = "cat" in fn
    rank = 2
    d = case["dim"] % (rank if is_cat else rank + 1)
    tds = [o._tensordict for o in nary_operands(case)[1]]
    if embed:
        wrap = lambda o, inner: t["TD"]({"tc": inner, "z": o.x + 1}, batch_size=list(o.batch_size))  # noqa: E731
        args_tc = [wrap(o, o) for o in ops]
        args_td = [wrap(o, td) for o, td in zip(ops, tds)]
    else:
        args_tc, args_td = ops, tds
    flags += ["fn:" + fn, f"n:{len(ops)}", "kind:" + case["kind"], "layout:" + case["layout"]]
    classes = [c for c, _ in case["ops"]]
    pattern = "all-same" if len(set(classes)) == 1 else ("later-differs" if len(classes) > 2 and classes[0] == classes[1] else "differs")
    flags.append("values:" + pattern)
    if any(not s for c, s in case["ops"][1:]) and len(set(classes)) > 1:
        flags.append("values:equal-but-distinct-then-different" if pattern == "later-differs" and not case["ops"][1][1] else "values:mixed-identity")
    rt = call(lambda: nary_apply(fn.replace("m.", "") if fn.startswith("m.") else fn, args_td, case["dim"]))
    rc = call(lambda: nary_apply(fn, args_tc, case["dim"]))
    if rt[0] != "ok":
        if rc[0] == "ok":
            probs.append(f"{fn}: the tensordicts raise {rt[1]}, the tensorclasses do not")
        return ("fail" if probs else "uninformative"), probs, flags + ["reference-raises"], detail
    if rc[0] != "ok":
        return "fail", [f"{fn} of {len(ops)} tensorclasses raises {rc[1]}: {rc[2][:120]} (the tensordicts succeed)"], flags, detail
    r = rc[1]
    if embed:
        r = call(lambda: r.get("tc"))
        if r[0] != "ok":
            return "fail", [f"{fn}: the nested entry cannot be read: {r[1]}"], flags, detail
        r = r[1]
    if type(r) is not C:
        return "fail", [f"{fn}: the result is a {type(r).__name__}, not re-wrapped in {C.__name__}"], flags, detail
    # rows owned by each operand along d
    if is_cat:
        bounds, lo = [], 0
        for o in ops:
            n = o.batch_size[d]
            bounds.append((lo, lo + n))
            lo += n
    else:
        bounds = [(k, k + 1) for k in range(len(ops))]
    if r.batch_size[d] != bounds[-1][1]:
        return "fail", [f"{fn}: the result has {r.batch_size[d]} rows along dim {d}, the operands have {bounds[-1][1]}"], flags, detail
    rows_obs = []
    bad = []       # equality class read at a wrong place
    for k, (lo, hi) in enumerate(bounds):
        v = vals[k]
        for i in range(lo, hi):
            row = call(lambda: sel(r, d, i))
            if row[0] != "ok":
                probs.append(f"row {i} cannot be read: {row[1]}")
                continue
            got = tc_read(lambda: row[1].meta)
            if not (got[0] == "val" and leaves_all(got[1], v)):
                probs.append(f"{fn}(dim={d}) row {i} comes from operand {k} whose non-tensor value is {v!r}; the result reads "
                             f"{(got[1] if got[0] == 'val' else got)!r} there")
            # one fully indexed element
            full = call(lambda: row[1][(0,) * len(row[1].batch_size)].meta)
            if full[0] != "ok" or not veq(full[1], v):
                bad.append(class_of(full[1], vals, case) if full[0] == "ok" else "raise")
                probs.append(f"{fn}(dim={d}) element ({i}, 0..) reads {full[1]!r}, operand {k} holds {v!r}")
            rows_obs.append(class_of(full[1], vals, case) if full[0] == "ok" else "raise")
            xs = call(lambda: sel(r, d, i).x)
            xo = sel(ops[k], d, i - lo).x if is_cat else ops[k].x
            if xs[0] != "ok" or xs[1].shape != xo.shape or not bool((xs[1] == xo).all()):
                probs.append(f"{fn}(dim={d}) row {i}: tensor field x differs from operand {k}")
        sl = call(lambda: r[(slice(None),) * d + (slice(lo, hi),)])
        if sl[0] == "ok":
            g = tc_read(lambda: sl[1].meta)
            if not (g[0] == "val" and leaves_all(g[1], v)):
                probs.append(f"{fn}(dim={d}) rows {lo}:{hi} are operand {k} (value {v!r}); result[{lo}:{hi}].meta is {(g[1] if g[0] == 'val' else g)!r}")
            g = tc_read(lambda: sl[1].get("meta"))
            if not (g[0] == "val" and leaves_all(g[1], v)):
                probs.append(f"{fn}(dim={d}) result[{lo}:{hi}].get('meta') is {(g[1] if g[0] == 'val' else g)!r}, operand {k} holds {v!r}")
            g = call(lambda: sl[1].to_dict()["meta"])
            if not (g[0] == "ok" and leaves_all(g[1], v)):
                probs.append(f"{fn}(dim={d}) result[{lo}:{hi}].to_dict()['meta'] is {g[1]!r}, operand {k} holds {v!r}")
        else:
            probs.append(f"result[{lo}:{hi}] cannot be read: {sl[1]}")
    detail["rows"] = rows_obs
    if probs and case["layout"] == "legacy" and bad and all(b == case["ops"][0][0] for b in bad):
        # payloads held in _non_tensordict (from_tensordict(td, non_tensordict)): the result is given the first operand's store
        flags.append("sig:first-operand-store-wins")
    o_ = tc_read(lambda: r.o)
    if o_ != ("val", None):
        probs.append(f"{fn}: the Optional field o of the result reads {o_!r} (None in every operand)")
    lab = tc_read(lambda: r.label)
    if not (lab[0] == "val" and leaves_all(lab[1], "l")):
        probs.append(f"{fn}: the defaulted field label reads {lab!r}")
    # round trip
    back = call(lambda: list(r.split([hi - lo for lo, hi in bounds], d)) if is_cat else list(r.unbind(d)))
    if back[0] != "ok":
        probs.append(f"{fn} -> {'split' if is_cat else 'unbind'} raises {back[1]}")
    elif len(back[1]) != len(ops):
        probs.append(f"{fn} -> {'split' if is_cat else 'unbind'} gives {len(back[1])} pieces for {len(ops)} operands")
    else:
        for k, p in enumerate(back[1]):
            g = tc_read(lambda: p.meta)
            if type(p) is not C or not (g[0] == "val" and leaves_all(g[1], vals[k])):
                probs.append(f"{fn} -> {'split' if is_cat else 'unbind'}: piece {k} ({type(p).__name__}) has meta "
                             f"{(g[1] if g[0] == 'val' else g)!r}, operand {k} had {vals[k]!r}")
            elif not bool((p.x == ops[k].x).all()):
                probs.append(f"{fn} -> round trip: piece {k} has other tensor content than operand {k}")
    detail["classes"] = classes
    detail["shared"] = [bool(s) for _, s in case["ops"]]
    return ("fail" if probs else "ok"), probs, flags, detail


def class_of(v, vals, case):
    for k, w in enumerate(vals):
        if veq(v, w):
            return case["ops"][k][0]
    return "?"


# ================================================================================================ correspondence
def S(x):
    return Sym(x)


def model_got(g):
    if g == "none":
        return "none"
    if g == "dangling":
        return "dangling"
    if isinstance(g, list) and g and g[0] in ("t", "c"):
        return "t"
    if isinstance(g, list) and g and g[0] == "py":
        return "py"
    if isinstance(g, list) and g and g[0] == "raise":
        return "absent" if g[1] == "KeyError" else "raise"
    return str(g)


def pieces_line(case, detail):
    """the protocol line that asks Model/C15_Pieces.v what every object reads before / after the mutation of this case"""
    from . import c15_extra, c15_model
    cname = case["cls"]
    fields = Lb.fields_of(cname)
    n = [0]

    def tdsx(kinds):
        out = []
        for k, kind in sorted(kinds.items()):
            n[0] += 1
            out.append([k, [S(kind), n[0]]])
        return out
    tdh = [tdsx(k) for k in detail["tdheap"]]
    nt = [[k, S("none") if v == "none" else 500 + j] for j, (k, v) in enumerate(detail["nt0"])]
    tds = detail["alias"][1:]
    m = detail["mutation"]
    opts = Lb.CLASS_INFO[cname][1]
    if m["kind"] == "del":
        mx = [S("del"), detail["mutated"], m["field"]]
    else:
        vk = {"tensor": "tensor", "none": "none", "payload": "dict" if m["field"] == "tag" else "other"}[m["kind"]]
        hint = c15_model.HINTS[c15_extra.hint_of(cname, m["field"])]
        mx = [S("set"), detail["mutated"], m["field"], S(vk), S(hint), "autocast" in opts, "nocast" in opts]
    return sx([S("pieces"), [str(f) for f in fields], tdh, nt, tds, mx]), fields


def nary_line(case):
    """the operands of a nary case as model items: shared objects of one equality class have one identity"""
    items = []
    for k, ((vclass, share), size) in enumerate(zip(case["ops"], case["sizes"])):
        oid = 100 + vclass if share else k
        items.append([S("ntd"), size if "cat" in case["fn"] else 1, [oid, vclass, case["kind"] == "raiser"]])
    return sx([S("cat-nt" if "cat" in case["fn"] else "stack-nt"), items])


LAZY_OK = ("two-handles", "unbind0", "iter", "tunbind0")


def correspond_pieces(R, cases, results):
    """Model/C15_Pieces.v rewrap_all + set_field_h / del_field_h  vs  what the real results (and the source) read"""
    from . import c15_extra, c15_model
    lines, meta = [], []
    for (i, verdict, probs, flags, detail, _o, _ab) in results:
        case = cases[i]
        if case.get("stream") != "indep" or not isinstance(detail, dict) or "mutated" not in detail or "after-mutation" not in detail:
            continue
        lazy = case["layout"] in ("lazy", "lazyhet")
        if lazy and (case["producer"] not in LAZY_OK or detail["mutated"] == 0):
            R.count("pieces-model:skipped-overlapping-lazy-members")
            continue
        line, fields = pieces_line(case, detail)
        lines.append(line)
        meta.append((i, case, detail, fields, lazy))
    res = R.model(lines) if lines else []
    for (i, case, detail, fields, lazy), mres in zip(meta, res):
        R.traces += 1
        R.count("pieces-model:" + ("lazy" if lazy else "dense"))
        if not (isinstance(mres, list) and mres and mres[0] == "ok"):
            R.mismatch("pieces", case, "ok", mres)
            continue
        names = ["source"] + [f"result[{k}]" for k in range(len(detail["alias"]) - 1)]
        # names of the wrapped results follow the order of the pairs
        names = [w for w in detail.get("who", names)]
        for phase, block in (("after-op", mres[1]), ("after-mutation", mres[2])):
            obs = detail.get(phase, {})
            for who, (wf, gots) in zip(names, block):
                if lazy and who == "source":
                    continue
                mod = {f: model_got(g) for f, g in zip(fields, gots)}
                real = {f: obs.get(f"{who}.{f}") for f in fields}
                if mod != real:
                    R.mismatch("pieces:" + phase, case, {who: real}, {who: mod})
                    break
            else:
                if phase == "after-mutation" and "wf-after" in detail:
                    mw = [w == "t" for w, _ in block]
                    rw = list(detail["wf-after"])
                    if lazy:
                        mw, rw = mw[1:], rw[1:]
                    if mw != rw:
                        R.mismatch("pieces:invariant", case, rw, mw)
                continue
            break


def rule_objects(rng):
    """a pool of python values with identity (index), equality class and raising ==, and the real objects"""
    Rz = D()["Rz"]
    pool = []
    for oid in range(7):
        cls = rng.randrange(3)
        raises = rng.random() < 0.15
        pool.append((oid, cls, raises, Rz(cls) if raises else "".join(["v", str(cls)])))
    return pool


def obj_class(o):
    return o.v if isinstance(o, D()["Rz"]) else int(o[1:])


def correspond_rules(R):
    """_same_non_tensor / the non-tensor branch of _cat / NonTensorData._stack_non_tensor  vs  the model, on generated operand lists"""
    t = Lb.T()
    torch = t["torch"]
    from tensordict import _torch_func as TF
    NTD, NTS, TD = t["NTD"], t["NTS"], t["TD"]
    rng = R.rng
    n = 300 if R.quick else 5000
    lines, real = [], []
    for _ in range(n):
        pool = rule_objects(rng)
        k = rng.choice([1, 2, 2, 3, 3, 3, 4, 4, 5])
        if rng.random() < 0.5:
            sub = rng.sample(pool, rng.choice([1, 2, 2, 3]))       # few distinct objects: identical ones recur
        else:
            sub = pool
        items_sx, items = [], []
        mode = rng.choice(["same", "cat", "cat", "stack", "stack"])
        for _j in range(k):
            r = rng.random()
            rows = rng.choice([1, 2, 3]) if mode != "stack" else 2
            if mode != "stack" and r < 0.15:
                vs = [rng.choice(sub) for _ in range(rows)]
                items_sx.append([S("nts"), [[o[0], o[1], o[2]] for o in vs]])
                items.append(NTS(*[NTD(data=o[3], batch_size=[]) for o in vs], stack_dim=0))
            elif mode == "same" and r < 0.25:
                items_sx.append([S("tensor"), rows])
                items.append(torch.zeros(rows))
            else:
                o = rng.choice(sub)
                items_sx.append([S("ntd"), rows, [o[0], o[1], o[2]]])
                items.append(NTD(data=o[3], batch_size=[rows]))
        if mode == "same":
            lines.append(sx([S("same-nt"), items_sx]))
            got = call(lambda: bool(TF._same_non_tensor(items)))
            real.append(("same_non_tensor", items_sx, got[1] if got[0] == "ok" else ["raise", got[1]]))
        elif mode == "cat":
            lines.append(sx([S("cat-nt"), items_sx]))

            def do_cat():
                tds = [TD({"k": it}, batch_size=list(it.batch_size)) for it in items]
                v = torch.cat(tds, 0).get("k")
                if isinstance(v, NTS):
                    return ["stack", [obj_class(x.data) for x in v.unbind(0)]]
                return ["data", [obj_class(v.data)] * v.batch_size[0]]
            got = call(do_cat)
            real.append(("cat", items_sx, got[1] if got[0] == "ok" else ["raise", got[1]]))
        else:
            lines.append(sx([S("stack-nt"), items_sx]))

            def do_stack():
                v = NTD._stack_non_tensor(items, dim=0)
                if isinstance(v, NTS):
                    return ["stack", [obj_class(x.data) for x in v.unbind(0)]]
                return ["data", [obj_class(v.data)] * v.batch_size[0]]
            got = call(do_stack)
            real.append(("stack", items_sx, got[1] if got[0] == "ok" else ["raise", got[1]]))
    res = R.model(lines)
    for (label, items_sx, obs), m in zip(real, res):
        R.traces += 1
        R.count("rule-model:" + label)
        if label == "same_non_tensor":
            mod = (m == "t")
        else:
            mod = [m[0], [int(x) for x in m[1]]] if isinstance(m, list) else m
            R.count("rule-model:" + label + ":" + (mod[0] if isinstance(mod, list) else str(mod)))
        if obs != mod:
            R.mismatch(label, {"items": json.loads(json.dumps(items_sx, default=str))}, obs, mod)


def correspond(R, cases, results):
    correspond_pieces(R, cases, results)
    correspond_rules(R)


# ================================================================================================ glue
def gen(R):
    return indep_cases(R) + nary_cases(R)


def run_deep(case):
    D()
    if case["stream"] == "indep":
        return run_indep(case)
    return run_nary(case)


def replay(case):
    v, probs, flags, detail = run_deep(case)
    print("oracle       :", v, flags[:10])
    for p in probs[:12]:
        print("   -", p[:500])
    for k, d in detail.items():
        print("   ", k, ":", json.dumps(d, default=str)[:600])
    try:
        from .core import run_model
        if case["stream"] == "nary" and case["layout"] != "legacy":
            print("model        :", "rows of the result under the non-tensor key (equality classes):", run_model("C15", [nary_line(case)])[0],
                  "; implementation:", detail.get("rows"))
        elif case["stream"] == "indep" and "mutated" in detail:
            m = run_model("C15", [pieces_line(case, detail)[0]])[0]
            if isinstance(m, list) and m and m[0] == "ok":
                for who, (wf, gots) in zip(detail["who"], m[2]):
                    print("model        :", who, "after the mutation reads", [model_got(g) for g in gots], "invariant", wf)
            else:
                print("model        :", m)
    except Exception as e:  # noqa: BLE001
        print("model        : (not evaluated:", type(e).__name__, str(e)[:100], ")")
    return 0 if v != "fail" else 1
