"""C14 — key plumbing of probabilistic modules against coq/Model/C14_Prob.v (three correspondence streams).

  pm-keys : ProbabilisticTensorDictModule.__init__ + the properties out_keys / log_prob_key / log_prob_keys /
            dist_sample_keys, over composite_lp_aggregate at construction x at the time of the call.
  pm-fwd  : ProbabilisticTensorDictModule.forward(td, tensordict_out, _requires_sample): which entry is written under which
            key with which PROVENANCE (input object / sample of which distribution by which method / log-prob of which
            distribution at which stored value), and from which entries the distribution was built.
  ps-fwd  : ProbabilisticTensorDictSequential: _requires_sample, in_keys / out_keys, forward, get_dist, log_prob.
Provenance is object identity: every tensor a recording distribution or a module function hands out is registered by id().
"""
import itertools
import json
import warnings

import torch

from .core import Sym, sx
from . import c14_prob as P

ITYPES = P.ITYPES
REG = {}
KEEP = []
INITS = []
FAILS = []
METHOD = {"deterministic_sample": "deterministic_sample", "mode": "mode", "median": "median", "mean": "mean",
          "rsample": "rsample", "sample": "sample"}


def reg(obj, tag):
    REG[id(obj)] = tag
    KEEP.append(obj)
    return obj


def reset():
    REG.clear()
    del KEEP[:]
    del INITS[:]


def rec_class(tag, has_rsample=True, has_det=True):
    D = P._imports()[0]

    class Rec(D.Distribution):
        arg_constraints = {}

        def __init__(self, **params):
            INITS.append((tag, dict(params)))
            self.base = sum(v for v in params.values() if v is not None)      # a missing in_key arrives as None (get_dist)
            super().__init__(batch_shape=self.base.shape, validate_args=False)

        def _v(self, name, shape=()):
            return reg((self.base * 10 + P.CODE[name]).expand(tuple(shape) + tuple(self.base.shape)).clone(), ("smp", tag, name))

        mode = property(lambda self: self._v("mode"))
        median = property(lambda self: self._v("median"))
        mean = property(lambda self: self._v("mean"))

        def rsample(self, shape=torch.Size()):
            return self._v("rsample", shape)

        def sample(self, shape=torch.Size()):
            return self._v("sample", shape)

        def log_prob(self, value):
            return reg(value * 2 + 1, ("lp", tag, REG.get(id(value), ("other",))))
    Rec.has_rsample = has_rsample
    if has_det:
        Rec.deterministic_sample = property(lambda self: self._v("deterministic_sample"))
    return Rec


# ------------------------------------------------------------------ protocol helpers
def ksx(k):
    return list(k) if isinstance(k, (tuple, list)) else [k]


def kstr(k):
    return ".".join(k) if isinstance(k, (tuple, list)) else k


def opt(x):
    return Sym("none") if x is None else [Sym("some"), x]


def pargs_sx(c):
    return [c["id"], [ksx(k) for k in c["in"]], opt(None if c["dict"] is None else list(c["dict"])),
            opt(None if c["out"] is None else [ksx(k) for k in c["out"]]),
            opt(None if c["comp"] is None else [ksx(k) for k in c["comp"]]), bool(c["rlp"]),
            opt(None if c["lpk"] is None else ksx(c["lpk"])), opt(None if c["lpks"] is None else [ksx(k) for k in c["lpks"]]),
            Sym(c["default"])]


def cap_sx(composite, has_rsample, has_det):
    if composite:
        return [False, True, Sym("none"), Sym("none"), Sym("value"), Sym("raise-attr"), Sym("value"), False]
    return [False, bool(has_det), Sym("none"), Sym("none"), Sym("value"), Sym("value"), Sym("value"), bool(has_rsample)]


def tk(k):
    """python key from the case's JSON spelling (lists are nested keys)"""
    return tuple(k) if isinstance(k, list) else k


def build_module(c, agg_init, classes, factory=True):
    D, TensorDict, PTM, PTS, TDM, TDS, IT, set_it, Comp, PR, set_agg = P._imports()
    kw = {}
    if c["lpk"] is not None:
        kw["log_prob_key"] = tk(c["lpk"])
    if c["lpks"] is not None:
        kw["log_prob_keys"] = [tk(k) for k in c["lpks"]]
    in_keys = [tk(k) for k in c["in"]]
    if c["dict"] is not None:
        in_keys = dict(zip(c["dict"], in_keys))
    if c["comp"] is not None:
        dmap = {tk(k): classes[kstr(k)] for k in c["comp"]}
        if factory:
            def maker(**kws):
                INITS.append(("composite", dict(kws)))
                return Comp(distribution_map=dmap, **kws)
            kw["distribution_class"] = maker
        else:
            kw["distribution_class"] = Comp
            kw["distribution_kwargs"] = {"distribution_map": dmap}
    else:
        kw["distribution_class"] = classes["d"]
    with set_agg(agg_init), warnings.catch_warnings():
        warnings.simplefilter("ignore")
        return PTM(in_keys=in_keys, out_keys=None if c["out"] is None else [tk(k) for k in c["out"]],
                   default_interaction_type=c["default"], return_log_prob=c["rlp"], **kw)


# ------------------------------------------------------------------ stream 1: constructor + properties
def check_keys(R, ok):
    D, TensorDict, PTM, PTS, TDM, TDS, IT, set_it, Comp, PR, set_agg = P._imports()
    rng = R.rng
    outs_opts = [None, ["act"], [["s", "v"]], ["a", "b"], ["a", ["n", "b"]], ["a", "a_log_prob"], ["sample_log_prob", "b"]]
    cases = []
    for outs in outs_opts:
        for comp in (False, True):
            names = outs if outs is not None else ["x", ["n", "y"]]
            n = len(names)
            lpks_opts = [None, ["lp%d" % i for i in range(n)], ["lpz"], [kstr(tk(k)) + "_log_prob" if not isinstance(k, list) else k[:-1] + [k[-1] + "_log_prob"] for k in names]]
            for lpk in (None, "my_lp", ["s", "lp"], "a"):
                for lpks in lpks_opts:
                    for rlp in (False, True):
                        for agg in (False, True):
                            for now in (False, True):
                                if not comp and outs is None and rng.random() < 0.5:
                                    continue
                                cases.append({"kind": "plumb", "sub": "keys", "id": 1, "in": ["loc", ["par", "scale"]], "dict": None,
                                              "out": outs, "comp": names if comp else None, "rlp": rlp, "lpk": lpk, "lpks": lpks,
                                              "default": "mode", "agg": agg, "now": now})
    if R.quick:
        rng.shuffle(cases)
        cases = cases[:900]
    lines, obs = [], []
    for c in cases:
        classes = {kstr(k): rec_class(kstr(k)) for k in (c["comp"] or [])}
        classes["d"] = rec_class("d")
        try:
            mod = build_module(c, c["agg"], classes, factory=False)
        except RuntimeError:
            o = "raise"
        except Exception as e:  # noqa: BLE001
            o = "raise:" + type(e).__name__
        else:
            o = []
            with set_agg(c["now"]), warnings.catch_warnings():
                warnings.simplefilter("ignore")
                for attr in ("out_keys", "log_prob_key", "log_prob_keys"):
                    try:
                        v = getattr(mod, attr)
                        o.append(kstr(v) if attr == "log_prob_key" else [kstr(k) for k in v])
                    except RuntimeError:
                        o.append("raise")
                    except Exception as e:  # noqa: BLE001
                        o.append("raise:" + type(e).__name__)
                o.append([kstr(k) for k in mod.dist_sample_keys])
        obs.append(o)
        lines.append(sx([Sym("pm-keys"), c["agg"], c["now"], pargs_sx(c)]))
        R.case("plumb-keys:" + json.dumps(c, sort_keys=True), nontrivial=o != "raise")
        R.count("plumb-keys:" + ("raise" if o == "raise" else "agg=%s/now=%s" % (c["agg"], c["now"])))
    if not ok:
        return
    for c, o, m in zip(cases, obs, R.model(lines)):
        if m == "raise":
            got = "raise"
        else:
            got = [m[0] if m[0] == "raise" else [kstr(k) for k in m[0]], m[1] if m[1] == "raise" else kstr(m[1]),
                   m[2] if m[2] == "raise" else [kstr(k) for k in m[2]], [kstr(k) for k in m[4]]]
        R.traces += 1
        if got != o:
            R.mismatch("model-vs-code:pm-keys", c, o, got)


# ------------------------------------------------------------------ canonical provenance
def canon_obj(v, inputs):
    if id(v) in inputs:
        return ["v", inputs[id(v)]]
    t = REG.get(id(v))
    if t is None:
        return ["other"]
    return tag_json(t, inputs)


def tag_json(t, inputs):
    if t[0] == "smp":
        return ["smp", t[1], t[2]]
    if t[0] == "lp":
        return ["lp", t[1], tag_json(t[2], inputs)]
    if t[0] == "app":
        return ["app", t[1]]
    if t[0] == "in":
        return ["v", t[1]]
    return ["other"]


def canon_td(td, inputs, node_keys):
    """leaf map with provenance; the nodes named by node_keys are collapsed to one entry"""
    out = {}
    for k, v in td.items(True, True):
        ks = kstr(k)
        nk = next((n for n in node_keys if ks == n or ks.startswith(n + ".")), None)
        if nk is not None:
            c = canon_obj(v, inputs)
            prev = out.get(nk)
            node = td.get(tk(nk.split(".")) if "." in nk else nk)
            if id(node) in inputs:
                out[nk] = ["v", inputs[id(node)]]
            else:
                out[nk] = c if prev in (None, c) else ["mixed"]
        else:
            out[ks] = canon_obj(v, inputs)
    return out


def m_term(t):
    if t[0] == "in":
        return ["v", kstr(t[1])]
    return ["app", t[1]]


def m_sval(s, names, composite):
    if s[0] == "up":
        return m_term(s[1])
    return ["smp", names[s[3]] if composite else "d", "*" if composite else s[2]]


def m_pv(v, names, composite):
    if v[0] == "v":
        return m_term(v[1])
    if v[0] == "smp":
        return ["smp", names[v[3]] if composite else "d", "*" if composite else v[2]]
    j = v[2]
    if j == "none":
        if composite:
            return ["other"]
        return ["lp", "d", m_sval(v[3][0], names, composite)]
    return ["lp", names[j[1]], m_sval(v[3][0], names, composite)]


def m_dist(d):
    return {kw: (None if p == "none" else m_term(p[1])) for kw, p in zip(d[2], d[3])}


def find_dist(ptd):
    for kv in ptd:
        if kv[1][0] in ("smp", "lp"):
            return kv[1][1]
    return None


def star(c, composite):
    """composite: which method each component uses is CompositeDistribution's business"""
    if not composite:
        return c
    if isinstance(c, dict):
        return {k: star(v, composite) for k, v in c.items()}
    if isinstance(c, list):
        if c and c[0] == "smp":
            return ["smp", c[1], "*"]
        return [star(x, composite) for x in c]
    return c


# ------------------------------------------------------------------ stream 2: forward of one module
def gen_fwd_case(rng):
    composite = rng.random() < 0.5
    c = {"kind": "plumb", "sub": "fwd", "id": 1, "dict": None, "default": rng.choice(ITYPES), "ctx": rng.choice([None] * 3 + ITYPES),
         "rlp": rng.random() < 0.7, "lpk": None, "lpks": None, "tout": rng.random() < 0.3, "req": rng.random() < 0.65,
         "agg": rng.random() < 0.35, "has_rsample": rng.random() < 0.6, "has_det": rng.random() < 0.6}
    c["now"] = c["agg"] if rng.random() < 0.9 else not c["agg"]
    if composite:
        names = rng.choice([["a", "b"], ["a", ["n", "b"]], ["a"], ["a", "b", "c"]])
        c["comp"], c["out"], c["in"] = names, list(names), ["params"]
        if rng.random() < 0.1:
            c["out"] = list(reversed(names)) if len(names) > 1 else ["z"]
        if not c["agg"] and rng.random() < 0.4:
            # custom key or the default spelling, per sample IN THE ORDER OF out_keys (a custom key equal to ANOTHER sample's
            # default name makes _update_td_lp's sequential renames collide: no demand there)
            c["lpks"] = ["lp%d" % i if rng.random() < 0.7 else kstr(tk(k)) + "_log_prob" for i, k in enumerate(c["out"])]
            if rng.random() < 0.1:
                c["lpks"] = c["lpks"][:-1]
        if c["agg"] and rng.random() < 0.3:
            c["lpk"] = "my_lp"
    else:
        c["comp"] = None
        c["out"] = rng.choice([["act"], [["s", "v"]], ["act"], None, ["act", "b"]])
        if rng.random() < 0.4:
            c["dict"], c["in"] = ["loc", "scale"], ["p_loc", ["par", "scale"]]
        else:
            c["in"] = ["loc", ["par", "scale"]] if rng.random() < 0.3 else ["loc", "scale"]
        if rng.random() < 0.35:
            c["lpk"] = rng.choice(["my_lp", ["s", "lp"]])
    outs = c["out"] if c["out"] is not None else ["_"]
    c["stored"] = [k for k in outs if rng.random() < (0.85 if not c["req"] else 0.2)]
    c["drop_param"] = (not composite) and rng.random() < 0.05
    return c


def run_fwd_case(c):
    """-> (observation, model line)"""
    D, TensorDict, PTM, PTS, TDM, TDS, IT, set_it, Comp, PR, set_agg = P._imports()
    reset()
    composite = c["comp"] is not None
    names = [kstr(tk(k)) for k in (c["comp"] or [])]
    classes = {n: rec_class(n, has_rsample=(i % 2 == 0), has_det=True) for i, n in enumerate(names)}
    classes["d"] = rec_class("d", c["has_rsample"], c["has_det"])
    try:
        mod = build_module(c, c["agg"], classes)
    except Exception as e:  # noqa: BLE001
        return "init-raise", None
    one = torch.tensor([1, 2], dtype=torch.int64)
    td = TensorDict({}, [2])
    inputs, present = {}, []

    def put(k, v):
        td.set(tk(k), v)
        got = td.get(tk(k))
        inputs[id(got)] = kstr(tk(k))
        reg(got, ("in", kstr(tk(k))))
        present.append(k)
    if composite:
        node = TensorDict({}, [2])
        for i, k in enumerate(c["comp"]):
            node.set(tk(k), TensorDict({"loc": one * (i + 1), "scale": one * 100 * 10 ** i}, [2]))
        put("params", node)
    else:
        for i, k in enumerate(c["in"]):
            if c["drop_param"] and i == 1:
                continue
            put(k, one * (1 if i == 0 else 100))
    put("other", one + 7)
    for i, k in enumerate(c["stored"]):
        if kstr(tk(k)) not in [kstr(tk(p)) for p in present]:
            put(k, one * 0 + 555 + i)
    tout = None
    tkeys = None
    if c["tout"]:
        tout = TensorDict({}, [2])
        tout.set("keep", one + 3)
        inputs[id(tout.get("keep"))] = "@out.keep"
        tkeys = ["keep"]
    node_keys = ["params"] if composite else []
    del FAILS[:]
    before_keys = {False: [kstr(k) for k in td.keys(True, True)], True: ([kstr(k) for k in tout.keys(True, True)] if tout is not None else [])}
    try:
        with set_agg(c["now"]), warnings.catch_warnings():
            warnings.simplefilter("ignore")
            kwargs = {"_requires_sample": c["req"]}
            if tout is not None:
                kwargs["tensordict_out"] = tout
            if c["ctx"] is not None:
                with set_it(IT(c["ctx"])):
                    res = mod(td, **kwargs)
            else:
                res = mod(td, **kwargs)
    except Exception as e:  # noqa: BLE001
        o = "raise"
    else:
        # spec oracle on the implementation (independent of the model): forward writes only advertised out_keys, and the
        # advertised log-prob keys are there afterwards
        try:
            with set_agg(c["now"]), warnings.catch_warnings():
                warnings.simplefilter("ignore")
                adv = [kstr(k) for k in mod.out_keys]
                lpks = [kstr(k) for k in mod.log_prob_keys] if c["rlp"] else []
            dst = tout if tout is not None else td
            after = [kstr(k) for k in dst.keys(True, True)]
            if composite and sorted(kstr(tk(k)) for k in c["out"]) != sorted(names):
                after, lpks = [], []      # out_keys that are not the distribution map's names: a misconfiguration, no demand
            for k in after:
                if k not in before_keys[tout is not None] and k not in adv:
                    FAILS.append(("plumb:wrote-non-out-key", {"key": k, "out_keys": adv},
                                  {"check": "plumb-footprint", "pattern": "composite-aggregate-writes-per-leaf-log-probs"
                                   if (composite and c["now"] and c["rlp"]) else "none"}))
            for k in lpks:
                if k not in after:
                    FAILS.append(("plumb:log-prob-key-not-written", {"key": k, "written": after}, {"check": "plumb-lp-key", "pattern": "none"}))
            if tout is not None and sorted(kstr(k) for k in td.keys(True, True)) != sorted(before_keys[False]):
                FAILS.append(("plumb:input-written-with-tensordict_out", {}, {"check": "plumb-input", "pattern": "none"}))
        except Exception:  # noqa: BLE001
            pass
        o = {"input": star(canon_td(td, inputs, node_keys), composite),
             "tout": None if tout is None else star(canon_td(tout, inputs, node_keys), composite),
             "ret": "out" if res is tout else ("in" if res is td else "fresh")}
        if INITS:
            last = [x for x in INITS if x[0] == ("composite" if composite else "d")]
            if last:
                o["dist"] = {kw: (None if v is None else canon_obj(v, inputs)) for kw, v in last[-1][1].items()}
    line = sx([Sym("pm-fwd"), True, True, c["agg"], c["now"], opt(None if c["ctx"] is None else Sym(c["ctx"])),
               cap_sx(composite, c["has_rsample"], c["has_det"]), pargs_sx(c),
               [ksx(tk(k)) for k in present], opt(None if tkeys is None else [ksx(k) for k in tkeys]), bool(c["req"])])
    return o, line


def model_fwd_obs(m, c):
    composite = c["comp"] is not None
    names = [kstr(tk(k)) for k in (c["comp"] or [])]
    if isinstance(m, str):
        return {"raise": "raise", "init-raise": "init-raise", "outside-model": "outside-model"}.get(m, m)
    x, o = m[1], m[2]
    out = {"input": {kstr(kv[0]): m_pv(kv[1], names, composite) for kv in x},
           "tout": None if o == "none" else {("keep" if kstr(kv[0]) == "@out.keep" else kstr(kv[0])): m_pv(kv[1], names, composite) for kv in o[1]},
           "ret": "in" if o == "none" else "out"}
    for t in (out["input"], out["tout"] or {}):
        for k, v in t.items():
            if v == ["v", "@out.keep"]:
                t[k] = ["v", "@out.keep"]
    d = find_dist(x) or (find_dist(o[1]) if o != "none" else None)
    if d is not None:
        out["dist"] = m_dist(d)
    return out


def check_fwd(R, ok):
    rng = R.rng
    n = 700 if R.quick else 8000
    cases, obs, lines = [], [], []
    for _ in range(n):
        c = gen_fwd_case(rng)
        o, line = run_fwd_case(c)
        for (label, detail, sig) in FAILS:
            R.oracle_fail(label, c, detail, sig)
        R.case("plumb-fwd:" + json.dumps(c, sort_keys=True), nontrivial=isinstance(o, dict))
        R.count("plumb-fwd:" + ("composite" if c["comp"] else "plain") + ("/sample" if c["req"] else "/no-sample") +
                ("" if isinstance(o, dict) else "/" + str(o)))
        if line is None:
            # the constructor raised: the model must refuse the same arguments
            line = sx([Sym("pm-keys"), c["agg"], c["now"], pargs_sx(c)])
        cases.append(c)
        obs.append(o)
        lines.append(line)
    if not ok:
        return
    for c, o, m in zip(cases, obs, R.model(lines)):
        R.traces += 1
        if o == "init-raise":
            if m != "raise":
                R.mismatch("model-vs-code:pm-init", c, o, "constructed")
            continue
        got = model_fwd_obs(m, c)
        if isinstance(o, dict) and isinstance(got, dict):
            if "dist" not in got:
                o = {k: v for k, v in o.items() if k != "dist"}
            elif "dist" not in o:
                got = {k: v for k, v in got.items() if k != "dist"}
            if got["tout"] is not None:
                got["tout"] = {("keep" if k == "@out.keep" else k): v for k, v in got["tout"].items()}
        if got != o:
            R.mismatch("model-vs-code:pm-fwd", c, o, got)


# ------------------------------------------------------------------ stream 3: probabilistic sequences
def run_seq_case(c):
    D, TensorDict, PTM, PTS, TDM, TDS, IT, set_it, Comp, PR, set_agg = P._imports()
    reset()
    K, W = list(c["keys"]), list(c["upstream"])
    composite = c["composite"]
    classes = {k: rec_class(k, has_rsample=(i % 2 == 0), has_det=True) for i, k in enumerate(K)}
    classes["d"] = rec_class("d", True, True)
    pk = [("params", k, nm) for k in K for nm in ("loc", "scale")] if composite else ["loc", "scale"]

    def fn(mid, nout):
        def f(x):
            outs = tuple(reg(x * (3 + j) + mid, ("app", mid)) for j in range(nout))
            return outs if nout != 1 else outs[0]
        return f
    if c["split"] and W:
        mods = [TDM(fn(1, len(pk)), in_keys=["x"], out_keys=pk), TDM(fn(2, len(W)), in_keys=["x"], out_keys=list(W))]
        det = [[Sym("mod"), 1, [["x"]], [["params"]] if composite else [["loc"], ["scale"]], Sym("none"), Sym("t")],
               [Sym("mod"), 2, [["x"]], [[k] for k in W], Sym("none"), Sym("t")]]
    else:
        mods = [TDM(fn(1, len(pk) + len(W)), in_keys=["x"], out_keys=pk + list(W))]
        det = [[Sym("mod"), 1, [["x"]], ([["params"]] if composite else [["loc"], ["scale"]]) + [[k] for k in W], Sym("none"), Sym("t")]]
    pa = {"id": 9, "in": ["params"] if composite else ["loc", "scale"], "dict": None, "out": list(K), "comp": list(K) if composite else None,
          "rlp": c["return_log_prob"], "lpk": None, "lpks": None, "default": c["it"]}
    try:
        with set_agg(False):
            pm = build_module(pa, False, classes)
            seq = PTS(*mods, pm)
    except Exception as e:  # noqa: BLE001
        return "init-raise", None
    x = torch.tensor([1, 2], dtype=torch.int64)
    td = TensorDict({"x": x, "other": x + 5}, [2])
    inputs = {id(td.get("x")): "x", id(td.get("other")): "other"}
    node_keys = ["params"] if composite else []
    node_keys = ["params"] if composite else []
    # (the node key "params" is advertised as an in_key although the deterministic part writes every leaf below it:
    #  _compute_in_and_out_keys compares whole keys.  A superset of the needed inputs; the model sees the node as one key.)
    o = {"requires_sample": bool(seq._requires_sample), "in_keys": [kstr(k) for k in seq.in_keys if kstr(k) not in node_keys]}
    with set_agg(False):
        ok_ = [kstr(k) for k in seq.out_keys]
    # the six parameter leaves of a composite are one node in the model
    o["out_keys"] = list(dict.fromkeys("params" if k.startswith("params.") else k for k in ok_))
    try:
        with set_agg(False), warnings.catch_warnings():
            warnings.simplefilter("ignore")
            seq(td)
        o["forward"] = star(canon_td(td, inputs, node_keys), composite)
    except Exception as e:  # noqa: BLE001
        o["forward"] = "raise"
    # get_dist / log_prob on fresh inputs
    reset()
    td2 = TensorDict({"x": x.clone(), "other": x + 5}, [2])
    in2 = {id(td2.get("x")): "x", id(td2.get("other")): "other"}
    try:
        with set_agg(False):
            seq.get_dist(td2)
        last = [i for i in INITS if i[0] == ("composite" if composite else "d")][-1][1]
        o["dist"] = {}
        for kw, v in last.items():
            if isinstance(v, torch.Tensor):
                o["dist"][kw] = canon_obj(v, in2)
            else:
                tags = {json.dumps(canon_obj(l, in2)) for l in v.values(True, True)}
                o["dist"][kw] = json.loads(tags.pop()) if len(tags) == 1 else ["mixed"]
    except Exception as e:  # noqa: BLE001
        o["dist"] = "raise"
    if not composite:
        reset()
        td3 = TensorDict({"x": x.clone(), "other": x + 5, K[0]: x * 3}, [2])
        in3 = {id(td3.get("x")): "x", id(td3.get("other")): "other", id(td3.get(K[0])): K[0]}
        reg(td3.get(K[0]), ("in", K[0]))
        try:
            with set_agg(False):
                lp = seq.log_prob(td3)
            o["log_prob"] = canon_obj(lp, in3)
        except Exception as e:  # noqa: BLE001
            o["log_prob"] = "raise"
    line = sx([Sym("ps-fwd"), True, True, False, False, Sym("none"), cap_sx(composite, True, True), pargs_sx(pa), det, [["x"], ["other"]]])
    line3 = None
    if not composite:
        line3 = sx([Sym("ps-fwd"), True, True, False, False, Sym("none"), cap_sx(composite, True, True), pargs_sx(pa), det,
                    [["x"], ["other"], [K[0]]]])
    return o, (line, line3)


def check_seq(R, ok):
    rng = R.rng
    cases = []
    for K in (["a", "b"], ["a", "b", "c"]):
        for r in range(len(K) + 1):
            for W in itertools.combinations(K, r):
                for it in ITYPES:
                    for rlp in (False, True):
                        cases.append({"kind": "plumb", "sub": "seq", "composite": True, "keys": K, "upstream": list(W), "it": it,
                                      "return_log_prob": rlp, "split": rng.random() < 0.5})
    for W in ([], ["act"]):
        for it in ITYPES:
            for rlp in (False, True):
                for split in (False, True):
                    cases.append({"kind": "plumb", "sub": "seq", "composite": False, "keys": ["act"], "upstream": W, "it": it,
                                  "return_log_prob": rlp, "split": split})
    obs, lines, idx = [], [], []
    for c in cases:
        o, ls = run_seq_case(c)
        R.case("plumb-seq:" + json.dumps(c, sort_keys=True), nontrivial=isinstance(o, dict))
        R.count("plumb-seq:" + ("composite" if c["composite"] else "plain"))
        obs.append(o)
        if ls is None:
            idx.append(None)
            continue
        idx.append((len(lines), ls[1] is not None))
        lines.append(ls[0])
        if ls[1] is not None:
            lines.append(ls[1])
    if not ok:
        return
    res = R.model(lines)
    for c, o, ix in zip(cases, obs, idx):
        R.traces += 1
        if ix is None:
            R.mismatch("model-vs-code:ps-init", c, o, "(no model line)")
            continue
        m = res[ix[0]]
        composite = c["composite"]
        names = list(c["keys"])
        got = {"requires_sample": m[0] == "t"}
        if m[1] == "raise":
            got["in_keys"] = got["out_keys"] = "raise"
        else:
            got["in_keys"] = [kstr(k) for k in m[1][0]]
            got["out_keys"] = [kstr(k) for k in m[1][1]]
        f = m[2]
        got["forward"] = f if isinstance(f, str) else {kstr(kv[0]): m_pv(kv[1], names, composite) for kv in f[1]}
        d = m[3]
        got["dist"] = d if isinstance(d, str) else m_dist(d)
        if not composite:
            lp = res[ix[0] + 1][4]
            got["log_prob"] = lp if isinstance(lp, str) else m_pv(lp, names, composite)
        if got != o:
            R.mismatch("model-vs-code:ps-fwd", c, o, got)


def check(R, ok):
    check_keys(R, ok)
    check_fwd(R, ok)
    check_seq(R, ok)


def replay(case):
    print("plumbing case:", json.dumps(case))
    if case.get("sub") == "fwd":
        o, line = run_fwd_case(case)
        print("oracle on the implementation:", FAILS or "(no failure)")
        print("implementation:", json.dumps(o))
        print("model line:", line)
    elif case.get("sub") == "seq":
        o, ls = run_seq_case(case)
        print("implementation:", json.dumps(o))
        print("model lines:", ls)
    else:
        print("(constructor / property grid: re-run ./check C14)")
    return 0
