"""translator for C15 (ast only; never imports the code it reads; fail-closed):
 - the delegation tables of tensordict/tensorclass.py: _METHOD_FROM_TD, _FALLBACK_METHOD_FROM_TD(_NOWRAP/_FORCE/_COPY),
   _TD_PASS_THROUGH, _CLEAR_METADATA
 - the installation sequence of _tensorclass(): every statement that assigns an attribute of `cls`, with its guard, in order
 - the torch functions registered with @implements_for_td / @implements_for_lazy_td in tensordict/_torch_func.py
 -> coq/Gen/C15_tables.v
The reflection lists (public attributes of TensorDictBase, properties, classmethods ...) are obtained at run time by the
harness (which imports tensordict) and written next to the tables by write_reflection() -> coq/Gen/C15_reflect.v."""
import ast
import os

from .core import COQ, REPO
from .translate import TranslateError, coq_list, coq_str, translator, write_if_changed

TABLES = {"_METHOD_FROM_TD": "tbl_direct", "_FALLBACK_METHOD_FROM_TD_NOWRAP": "tbl_nowrap", "_FALLBACK_METHOD_FROM_TD_FORCE": "tbl_force",
          "_FALLBACK_METHOD_FROM_TD": "tbl_wrap", "_FALLBACK_METHOD_FROM_TD_COPY": "tbl_copy"}


def _strs(node, what):
    if not isinstance(node, (ast.List, ast.Tuple, ast.Set)):
        raise TranslateError(f"{what} is not a list / set literal")
    out = []
    for e in node.elts:
        if not (isinstance(e, ast.Constant) and isinstance(e.value, str)):
            raise TranslateError(f"{what} has an element that is not a string literal")
        out.append(e.value)
    return out


def _torch_attr(node, what):
    if isinstance(node, ast.Attribute) and isinstance(node.value, ast.Name) and node.value.id == "torch":
        return node.attr
    raise TranslateError(f"{what}: not of the form torch.<name>")


def module_tables(tree):
    found = {}
    for node in tree.body:
        if isinstance(node, ast.Assign) and len(node.targets) == 1 and isinstance(node.targets[0], ast.Name):
            n = node.targets[0].id
            if n in TABLES:
                if n in found:
                    raise TranslateError(f"{n} assigned twice")
                found[n] = _strs(node.value, n)
            elif n == "_CLEAR_METADATA":
                found[n] = _strs(node.value, n)
            elif n == "_TD_PASS_THROUGH":
                if not isinstance(node.value, ast.Dict):
                    raise TranslateError("_TD_PASS_THROUGH is not a dict literal")
                ks = []
                for k, v in zip(node.value.keys, node.value.values):
                    if not (isinstance(v, ast.Constant) and v.value is True):
                        raise TranslateError("_TD_PASS_THROUGH has a value that is not True")
                    ks.append(_torch_attr(k, "_TD_PASS_THROUGH key"))
                found[n] = ks
        # a table that is later mutated (append / extend / +=) is not a table this translator understands
        if isinstance(node, ast.AugAssign) and isinstance(node.target, ast.Name) and (node.target.id in TABLES or node.target.id in ("_CLEAR_METADATA", "_TD_PASS_THROUGH")):
            raise TranslateError(f"{node.target.id} is modified after its definition")
        if isinstance(node, ast.Expr) and isinstance(node.value, ast.Call) and isinstance(node.value.func, ast.Attribute) \
                and isinstance(node.value.func.value, ast.Name) and node.value.func.value.id in list(TABLES) + ["_CLEAR_METADATA", "_TD_PASS_THROUGH"]:
            raise TranslateError(f"{node.value.func.value.id} is modified after its definition")
    for n in list(TABLES) + ["_CLEAR_METADATA", "_TD_PASS_THROUGH"]:
        if n not in found:
            raise TranslateError(f"{n} not found at module level of tensorclass.py")
    return found


# ---------------------------------------------------------------------------------------------- the installation sequence
def _touches_cls(node):
    """does this statement assign / delete an attribute of `cls` (directly or through setattr / delattr)?"""
    for n in ast.walk(node):
        if isinstance(n, ast.Attribute) and isinstance(n.ctx, (ast.Store, ast.Del)) and isinstance(n.value, ast.Name) and n.value.id == "cls":
            return True
        if isinstance(n, ast.Call) and isinstance(n.func, ast.Name) and n.func.id in ("setattr", "delattr") and n.args \
                and isinstance(n.args[0], ast.Name) and n.args[0].id == "cls":
            return True
    return False


def _cls_targets(assign):
    out = []
    for t in assign.targets:
        if isinstance(t, ast.Attribute) and isinstance(t.value, ast.Name) and t.value.id == "cls":
            out.append(t.attr)
        elif isinstance(t, ast.Name):
            continue
        else:
            raise TranslateError("assignment with a target that is neither a local name nor cls.<attr>")
    return out


def _is_call(n, fname):
    return isinstance(n, ast.Call) and isinstance(n.func, ast.Name) and n.func.id == fname


def _cond_atoms(test):
    """conjunction of recognised atoms -> set of atom tags (about the name [subject])"""
    parts = test.values if isinstance(test, ast.BoolOp) and isinstance(test.op, ast.And) else [test]
    atoms = []
    for p in parts:
        if isinstance(p, ast.UnaryOp) and isinstance(p.op, ast.Not):
            q = p.operand
            if _is_call(q, "hasattr") and len(q.args) == 2 and isinstance(q.args[0], ast.Name) and q.args[0].id == "cls":
                atoms.append(("not-hasattr", q.args[1]))
                continue
            if isinstance(q, ast.Name) and q.id == "_is_non_tensor":
                atoms.append(("not-nt", None))
                continue
            raise TranslateError("unrecognised negated condition in _tensorclass")
        if isinstance(p, ast.Compare) and len(p.ops) == 1 and isinstance(p.ops[0], ast.NotIn) and len(p.comparators) == 1:
            c = p.comparators[0]
            if isinstance(c, ast.Name) and c.id == "expected_keys":
                atoms.append(("not-field", p.left))
                continue
            if isinstance(c, ast.Attribute) and c.attr == "__dict__" and isinstance(c.value, ast.Name) and c.value.id == "cls":
                atoms.append(("not-in-dict", p.left))
                continue
        raise TranslateError("unrecognised condition in _tensorclass: " + ast.dump(p)[:120])
    return atoms


def _guard(atoms, subject):
    """subject: ('const', name) or ('var', loopvar)"""
    def same(node):
        if node is None:
            return True
        if subject[0] == "const":
            return isinstance(node, ast.Constant) and node.value == subject[1]
        return isinstance(node, ast.Name) and node.id == subject[1]
    tags = set()
    for tag, node in atoms:
        if not same(node):
            raise TranslateError(f"guard talks about another name than the one it protects ({subject[1]})")
        tags.add(tag)
    table = {frozenset(): "GAlways", frozenset(["not-in-dict"]): "GNotInDict", frozenset(["not-hasattr"]): "GNotHasattr",
             frozenset(["not-hasattr", "not-field"]): "GNotHasattrNotField", frozenset(["not-nt"]): "GNotNT",
             frozenset(["not-nt", "not-hasattr", "not-field"]): "GNotHasattrNotFieldNotNT"}
    g = table.get(frozenset(tags))
    if g is None:
        raise TranslateError(f"unrecognised combination of guards {sorted(tags)}")
    return g


def _table_kind(call, loopvar):
    """setattr(cls, method_name, <value>) -> kind of the installed attribute"""
    if _is_call(call, "getattr") and len(call.args) == 2 and isinstance(call.args[0], ast.Name) and call.args[0].id == "TensorDict" \
            and isinstance(call.args[1], ast.Name) and call.args[1].id == loopvar:
        return "KDirect"
    if _is_call(call, "_wrap_td_method") and len(call.args) == 1 and isinstance(call.args[0], ast.Name) and call.args[0].id == loopvar:
        kw = {}
        for k in call.keywords:
            if k.arg == "is_property":
                continue
            if not (isinstance(k.value, ast.Constant) and isinstance(k.value.value, bool)):
                raise TranslateError("_wrap_td_method called with a non-literal option")
            kw[k.arg] = k.value.value
        if set(kw) - {"no_wrap", "copy_non_tensor"}:
            raise TranslateError(f"_wrap_td_method called with unknown options {sorted(kw)}")
        if kw.get("no_wrap") and kw.get("copy_non_tensor"):
            raise TranslateError("_wrap_td_method called with no_wrap and copy_non_tensor")
        if kw.get("no_wrap"):
            return "KNoWrap"
        return "(KWrap true)" if kw.get("copy_non_tensor") else "(KWrap false)"
    raise TranslateError("unrecognised value installed by a table loop")


FLAGS = {}


def install_steps(fn):
    FLAGS.clear()
    FLAGS["nowrap_reads_noncallables"] = False
    steps = []          # coq terms
    summary = []        # python tuples for the harness
    for st in fn.body:
        if isinstance(st, ast.FunctionDef) or isinstance(st, (ast.Import, ast.ImportFrom, ast.Return)):
            continue
        if not _touches_cls(st):
            continue
        # cls.x = ... / a = cls.x = ...
        if isinstance(st, ast.Assign):
            names = _cls_targets(st)
            for n in names:
                steps.append(f"SOne {coq_str(n)} GAlways")
                summary.append(("one", n, "GAlways"))
            continue
        if isinstance(st, ast.If) and not st.orelse:
            atoms = _cond_atoms(st.test)
            body = st.body
            if len(body) == 1 and isinstance(body[0], ast.Assign):
                names = _cls_targets(body[0])
                if len(names) != 1:
                    raise TranslateError("guarded assignment of several attributes")
                g = _guard(atoms, ("const", names[0]))
                steps.append(f"SOne {coq_str(names[0])} {g}")
                summary.append(("one", names[0], g))
                continue
            raise TranslateError("unrecognised guarded statement touching cls in _tensorclass")
        if isinstance(st, ast.For) and not st.orelse:
            # for field in cls.fields(): if hasattr(cls, field.name): delattr(cls, field.name)   (defaults of fields)
            if isinstance(st.iter, ast.Call) and isinstance(st.iter.func, ast.Attribute) and st.iter.func.attr == "fields":
                ok = len(st.body) == 1 and isinstance(st.body[0], ast.If) and len(st.body[0].body) == 1 \
                    and isinstance(st.body[0].body[0], ast.Expr) and _is_call(st.body[0].body[0].value, "delattr")
                if not ok:
                    raise TranslateError("unrecognised loop over cls.fields()")
                summary.append(("del-field-defaults",))
                continue
            if not isinstance(st.target, ast.Name):
                raise TranslateError("loop with a structured target touching cls")
            var = st.target.id
            # the classmethod loop
            if isinstance(st.iter, ast.Call) and isinstance(st.iter.func, ast.Attribute) and st.iter.func.attr == "keys" \
                    and isinstance(st.iter.func.value, ast.Attribute) and st.iter.func.value.attr == "__dict__" \
                    and isinstance(st.iter.func.value.value, ast.Name) and st.iter.func.value.value.id == "TensorDict":
                src = ast.unparse(st)
                for needle in ("inspect.ismethod(func)", f"{var} not in cls.__dict__", "issubclass(tdcls, TensorDictBase)", "_wrap_classmethod(tdcls, cls, func)"):
                    if needle not in src:
                        raise TranslateError(f"classmethod loop changed shape (missing `{needle}`)")
                steps.append("SClassmethods")
                summary.append(("classmethods",))
                continue
            if isinstance(st.iter, ast.Name) and st.iter.id in TABLES:
                body = st.body
                atoms = []
                if len(body) == 1 and isinstance(body[0], ast.If) and not body[0].orelse:
                    atoms = _cond_atoms(body[0].test)
                    body = body[0].body
                # optional locals:  [td_attr = getattr(TensorDictBase, method_name, None);]  is_property = isinstance(..., property) [or not callable(...)]
                for b in body:
                    if isinstance(b, ast.Assign) and len(b.targets) == 1 and isinstance(b.targets[0], ast.Name) and b.targets[0].id == "is_property":
                        src = ast.unparse(b.value)
                        if "property" not in src:
                            raise TranslateError("is_property is no longer computed from `property`")
                        FLAGS["nowrap_reads_noncallables"] = "not callable(" in src
                body = [b for b in body if not (isinstance(b, ast.Assign) and len(b.targets) == 1 and isinstance(b.targets[0], ast.Name))]
                if not (len(body) == 1 and isinstance(body[0], ast.Expr) and _is_call(body[0].value, "setattr") and len(body[0].value.args) == 3
                        and isinstance(body[0].value.args[1], ast.Name) and body[0].value.args[1].id == var):
                    raise TranslateError(f"unrecognised body of the loop over {st.iter.id}")
                g = _guard(atoms, ("var", var))
                k = _table_kind(body[0].value.args[2], var)
                steps.append(f"STable {TABLES[st.iter.id]} {g} {k}")
                summary.append(("table", st.iter.id, g, k))
                continue
            raise TranslateError("unrecognised loop touching cls in _tensorclass")
        raise TranslateError(f"unrecognised statement touching cls in _tensorclass (line {st.lineno})")
    return steps, summary


def handled_functions(tree):
    td, lazy = [], []
    for node in ast.walk(tree):
        if isinstance(node, ast.FunctionDef):
            for d in node.decorator_list:
                if isinstance(d, ast.Call) and isinstance(d.func, ast.Name) and d.func.id in ("implements_for_td", "implements_for_lazy_td"):
                    if len(d.args) != 1:
                        raise TranslateError("implements_for_td with several arguments")
                    (td if d.func.id == "implements_for_td" else lazy).append(_torch_attr(d.args[0], "implements_for_td argument"))
    if not td:
        raise TranslateError("no @implements_for_td registration found in _torch_func.py")
    return td, lazy


def strs(l):
    return coq_list([coq_str(x) for x in l])


@translator("c15_tables")
def c15_tables():
    src = open(os.path.join(REPO, "tensordict", "tensorclass.py")).read()
    tree = ast.parse(src)
    tabs = module_tables(tree)
    fns = [n for n in tree.body if isinstance(n, ast.FunctionDef) and n.name == "_tensorclass"]
    if len(fns) != 1:
        raise TranslateError("_tensorclass not found (or defined twice)")
    steps, summary = install_steps(fns[0])
    if not any(s[0] == "table" for s in summary) or not any(s[0] == "classmethods" for s in summary):
        raise TranslateError("the table loops / the classmethod loop of _tensorclass were not found")
    used = {s[1] for s in summary if s[0] == "table"}
    if used != set(TABLES):
        raise TranslateError(f"tables installed by _tensorclass {sorted(used)} differ from the tables defined {sorted(TABLES)}")
    tf = ast.parse(open(os.path.join(REPO, "tensordict", "_torch_func.py")).read())
    td_fns, lazy_fns = handled_functions(tf)
    lines = ["(* GENERATED from /repo/tensordict/tensorclass.py and _torch_func.py by harness/tr_c15.py on every run of ./check C15 *)",
             "From Coq Require Import List String.", "Import ListNotations.", "From TD Require Import Model.C15_TCWrap.", "Open Scope string_scope."]
    for py, cq in TABLES.items():
        lines.append(f"Definition {cq} : list string := {strs(tabs[py])}.")
    lines.append(f"Definition tbl_clear_metadata : list string := {strs(tabs['_CLEAR_METADATA'])}.")
    lines.append(f"Definition tbl_pass_through : list string := {strs(tabs['_TD_PASS_THROUGH'])}.")
    lines.append(f"Definition torch_handled_td : list string := {strs(td_fns)}.")
    lines.append(f"Definition torch_handled_lazy : list string := {strs(lazy_fns)}.")
    lines.append("(* the no-wrap loop installs non-callable class attributes (is_meta ...) as properties, like properties *)")
    lines.append(f"Definition nowrap_reads_noncallables : bool := {'true' if FLAGS['nowrap_reads_noncallables'] else 'false'}.")
    lines.append("Definition install_steps : list step := [\n  " + ";\n  ".join(steps) + "].")
    write_if_changed(os.path.join(COQ, "Gen", "C15_tables.v"), "\n".join(lines) + "\n")
    return {"tables": {k: tabs[k] for k in tabs}, "steps": summary, "torch_td": td_fns, "torch_lazy": lazy_fns, "flags": dict(FLAGS)}


# dunders of the object / class protocol: not operators of the tensordict API
NOT_OPERATORS = {"__hash__", "__abstractmethods__", "__annotations__", "__class_getitem__", "__dict__", "__doc__", "__init__", "__module__",
                 "__slots__", "__subclasshook__", "__weakref__", "__torch_function__"}


def reflection():
    """lists obtained from the imported library (never from a hand-written list).  This is the one place of this module that
    imports tensordict: it does not read source, it asks the running library what it exposes."""
    import inspect
    from tensordict import TensorDict as TD, TensorDictBase as Base
    from tensordict import _torch_func as TF
    allattrs = sorted(n for n in dir(TD) if '"' not in n)
    public = sorted(n for n in dir(TD) if not n.startswith("_"))
    props = [n for n in allattrs if isinstance(inspect.getattr_static(Base, n, None), property) or isinstance(inspect.getattr_static(TD, n, None), property)]
    noncallable = [n for n in allattrs if n not in props and not callable(getattr(TD, n, None))]
    dunders = sorted(n for n in dir(TD) if n.startswith("__") and n.endswith("__")
                     and any(n in K.__dict__ for K in TD.__mro__ if K.__module__.startswith("tensordict")))
    handled = []
    for f in list(TF.TD_HANDLED_FUNCTIONS) + list(TF.LAZY_TD_HANDLED_FUNCTIONS):
        n = getattr(f, "__name__", repr(f))
        if n not in handled:
            handled.append(n)
    return {"td_public": public, "td_all": allattrs, "td_properties": props, "td_noncallable": noncallable,
            "td_own_classmethods": [a for a in TD.__dict__ if inspect.ismethod(getattr(TD, a))],
            "td_api_dunders": [d for d in dunders if d not in NOT_OPERATORS],
            "td_handled_runtime": handled, "object_attrs": sorted(dir(object))}


@translator("c15_reflect")
def c15_reflect():
    """registered so that `python -m harness.translate all` (setup.sh) also writes coq/Gen/C15_reflect.v on a fresh clone"""
    refl = reflection()
    write_reflection(refl)
    return {k: len(v) for k, v in refl.items()}


def write_reflection(refl):
    """refl: dict name -> list of str, obtained by the harness from the imported library"""
    order = ["td_public", "td_all", "td_properties", "td_noncallable", "td_own_classmethods", "td_api_dunders", "td_handled_runtime", "object_attrs"]
    lines = ["(* GENERATED at run time by harness/c15.py (reflection on the imported tensordict): written next to the translated tables *)",
             "From Coq Require Import List String.", "Import ListNotations.", "Open Scope string_scope."]
    for k in order:
        lines.append(f"Definition {k} : list string := {strs(sorted(refl[k]) if k != 'td_handled_runtime' else refl[k])}.")
    write_if_changed(os.path.join(COQ, "Gen", "C15_reflect.v"), "\n".join(lines) + "\n")
