"""C06 translator: from /repo's current source (pure ast, nothing imported) to coq/Gen/C06_Sites.v:
  * every method carrying @cache, per class (all files under tensordict/),
  * every method carrying @erase_cache and every method whose body calls <x>._erase_cache(),
  * the shape of the decorator itself (tensordict/utils.py): consulted only when locked and not compiling; a Tensor result is
    not stored; the key is _make_cache_key(args, kwargs); _unfold_sequence yields str/int/slice/Ellipsis by value, recurses into
    list/tuple, and everything else by id(); _erase_cache resets self._cache.
The finite theorem C06_cache_sites_covered (Props/C06.v) is over these rows: a memoised method the model does not know, a
modelled method that lost its decorator, a lost invalidation point or a changed decorator shape make it fail."""
import ast
import os

from .core import COQ, REPO
from .translate import TranslateError, coq_list, coq_str, translator, write_if_changed

# methods the model transcribes (Model/C06_Cache.v meth_name) and memoised methods known but deliberately not modelled
NOT_MODELLED = {
    "_remove_batch_dim": "vmap exit path: same dependencies as _add_batch_dim (oracle stream only)",
    "_maybe_remove_batch_dim": "vmap exit path (oracle stream only)",
    "_is_shared": "_PermutedTensorDict/_CustomOpTensorDict flag passthrough",
    "_is_memmap": "_PermutedTensorDict/_CustomOpTensorDict flag passthrough",
    "_valid_keys": "PersistentTensorDict (h5) key list",
}


def _dec_name(d):
    if isinstance(d, ast.Call):
        d = d.func
    if isinstance(d, ast.Name):
        return d.id
    if isinstance(d, ast.Attribute):
        return d.attr
    return None


def _walk_defs(tree):
    """(class name or '<module>', FunctionDef) for every function at module level or directly in a class"""
    for node in tree.body:
        if isinstance(node, (ast.FunctionDef, ast.AsyncFunctionDef)):
            yield "<module>", node
        elif isinstance(node, ast.ClassDef):
            for sub in node.body:
                if isinstance(sub, (ast.FunctionDef, ast.AsyncFunctionDef)):
                    yield node.name, sub


def scan_sites():
    root = os.path.join(REPO, "tensordict")
    cache_sites, erase_sites, erase_calls = set(), set(), set()
    nfiles = 0
    for dirpath, _, files in os.walk(root):
        for f in sorted(files):
            if not f.endswith(".py"):
                continue
            path = os.path.join(dirpath, f)
            try:
                tree = ast.parse(open(path).read())
            except SyntaxError as e:
                raise TranslateError(f"cannot parse {path}: {e}")
            nfiles += 1
            for cls, fn in _walk_defs(tree):
                decs = [_dec_name(d) for d in fn.decorator_list]
                if "cache" in decs:
                    cache_sites.add((cls, fn.name))
                if "erase_cache" in decs:
                    is_setter = any(isinstance(d, ast.Attribute) and d.attr == "setter" for d in fn.decorator_list)
                    erase_sites.add((cls, fn.name + (".setter" if is_setter else "")))
                for n in ast.walk(fn):
                    if isinstance(n, ast.Call) and isinstance(n.func, ast.Attribute) and n.func.attr == "_erase_cache":
                        erase_calls.add((cls, fn.name))
    if nfiles < 10:
        raise TranslateError(f"only {nfiles} python files under {root}")
    if len(cache_sites) < 10:
        raise TranslateError("fewer than 10 @cache methods found: decorator spelled differently?")
    return cache_sites, erase_sites, erase_calls


def _find_fn(tree, name):
    for node in ast.walk(tree):
        if isinstance(node, ast.FunctionDef) and node.name == name:
            return node
    raise TranslateError(f"tensordict/utils.py: function {name} not found")


def _src(n):
    return ast.unparse(n)


def decorator_shape():
    path = os.path.join(REPO, "tensordict", "utils.py")
    tree = ast.parse(open(path).read())
    shape = {}
    cache = _find_fn(tree, "cache")
    newfun = None
    for n in cache.body:
        if isinstance(n, ast.FunctionDef):
            newfun = n
    if newfun is None:
        raise TranslateError("utils.cache: inner wrapper not found")
    body = [b for b in newfun.body if not (isinstance(b, ast.Expr) and isinstance(b.value, ast.Constant))]
    first = body[0]
    # if not _self.is_locked or is_compiling(): return fun(_self, *args, **kwargs)
    ok = (isinstance(first, ast.If) and isinstance(first.test, ast.BoolOp) and isinstance(first.test.op, ast.Or)
          and any(isinstance(v, ast.UnaryOp) and isinstance(v.op, ast.Not) and isinstance(v.operand, ast.Attribute) and v.operand.attr == "is_locked"
                  for v in first.test.values)
          and len(first.body) == 1 and isinstance(first.body[0], ast.Return) and isinstance(first.body[0].value, ast.Call)
          and _dec_name(first.body[0].value) == "fun")
    shape["consulted_only_when_locked"] = bool(ok)
    shape["bypassed_when_compiling"] = bool(ok and any(isinstance(v, ast.Call) and _dec_name(v) == "is_compiling" for v in first.test.values))
    src = _src(newfun)
    shape["key_from_make_cache_key"] = "key = _make_cache_key(args, kwargs)" in src
    shape["per_method_table"] = "cache[fun.__name__]" in src
    # if key not in cache: out = fun(...); if not isinstance(out, Tensor): cache[key] = out   else: out = cache[key]
    store_guarded = False
    for n in ast.walk(newfun):
        if isinstance(n, ast.If) and isinstance(n.test, ast.UnaryOp) and isinstance(n.test.op, ast.Not) and isinstance(n.test.operand, ast.Call) \
                and _dec_name(n.test.operand) == "isinstance" and _src(n.test.operand.args[1]) == "Tensor":
            if any(isinstance(b, ast.Assign) and _src(b.targets[0]) == "cache[key]" for b in n.body):
                store_guarded = True
    shape["tensor_result_not_stored"] = store_guarded
    nstores = sum(1 for n in ast.walk(newfun) if isinstance(n, ast.Assign) and _src(n.targets[0]) == "cache[key]")
    shape["single_store_site"] = nstores == 1
    miss_test = any(isinstance(n, ast.If) and _src(n.test) == "key not in cache" for n in ast.walk(newfun))
    shape["miss_is_key_absent"] = miss_test
    # D64: `if getattr(_self, "_is_locked", True) is None: return fun(...)` — no memoisation under a derived lock
    shape["derived_lock_not_memoised"] = any(
        isinstance(n, ast.If) and isinstance(n.test, ast.Compare) and len(n.test.ops) == 1 and isinstance(n.test.ops[0], ast.Is)
        and "_is_locked" in _src(n.test.left) and _src(n.test.comparators[0]) == "None"
        and len(n.body) == 1 and isinstance(n.body[0], ast.Return) and isinstance(n.body[0].value, ast.Call) and _dec_name(n.body[0].value) == "fun"
        for n in newfun.body)
    # D67: the entry keeps the call's arguments alive: cache[key] = (out, args, kwargs), read back as cache[key][0]
    shape["entry_keeps_arguments"] = any(
        isinstance(n, ast.Assign) and _src(n.targets[0]) == "cache[key]" and isinstance(n.value, ast.Tuple)
        and [_src(e) for e in n.value.elts] == ["out", "args", "kwargs"] for n in ast.walk(newfun)) and "out = cache[key][0]" in src
    # _unfold_sequence
    unf = _find_fn(tree, "_unfold_sequence")
    usrc = _src(unf)
    by_value = None
    recurse = False
    by_id = False
    for n in ast.walk(unf):
        if isinstance(n, ast.Call) and _dec_name(n) == "isinstance" and isinstance(n.args[1], ast.Tuple):
            names = sorted(_src(e) for e in n.args[1].elts)
            if names == ["list", "tuple"]:
                recurse = True
            else:
                by_value = names
        if isinstance(n, (ast.Yield,)) and n.value is not None and _src(n.value) == "id(item)":
            by_id = True
    if by_value is None:
        raise TranslateError("utils._unfold_sequence: by-value isinstance test not found")
    shape["by_value_types"] = by_value
    shape["ellipsis_by_value"] = "item is Ellipsis" in usrc
    shape["sequences_unfolded"] = recurse and "tuple(_unfold_sequence(item))" in usrc
    shape["others_by_id"] = by_id
    mk = _find_fn(tree, "_make_cache_key")
    msrc = _src(mk)
    shape["kwargs_sorted"] = "sorted(kwargs.items())" in msrc
    shape["args_unfolded"] = "tuple(_unfold_sequence(args))" in msrc
    er = _find_fn(tree, "erase_cache")
    shape["erase_cache_calls_erase"] = "self._erase_cache()" in _src(er)
    base = ast.parse(open(os.path.join(REPO, "tensordict", "base.py")).read())
    ec = None
    for cls, fn in _walk_defs(base):
        if cls == "TensorDictBase" and fn.name == "_erase_cache":
            ec = fn
    if ec is None:
        raise TranslateError("base.py: TensorDictBase._erase_cache not found")
    shape["erase_resets_cache"] = "self._cache = None" in _src(ec)
    return shape


@translator("c06_cache_sites")
def run():
    cache_sites, erase_sites, erase_calls = scan_sites()
    shape = decorator_shape()

    def b(x):
        return "true" if x else "false"
    pairs = lambda S: coq_list([f"({coq_str(a)}, {coq_str(c)})" for a, c in sorted(S)])  # noqa: E731
    lines = ["(* GENERATED by harness/tr_c06.py from /repo's source on every run -- do not edit. *)",
             "From Coq Require Import List String Bool.", "Import ListNotations.", "From TD Require Import Model.C06_Cache.",
             "Open Scope string_scope.", "",
             "(* (class, method) carrying @cache *)",
             "Definition cache_sites : list (string * string) :=", "  " + pairs(cache_sites) + ".", "",
             "(* (class, method) carrying @erase_cache (setters marked) *)",
             "Definition erase_sites : list (string * string) :=", "  " + pairs(erase_sites) + ".", "",
             "(* (class, method) whose body calls <x>._erase_cache() *)",
             "Definition erase_calls : list (string * string) :=", "  " + pairs(erase_calls) + ".", "",
             "(* memoised methods known to the check but not transcribed in the model *)",
             "Definition not_modelled : list string := " + coq_list([coq_str(k) for k in sorted(NOT_MODELLED)]) + ".", "",
             "(* the decorator's shape, read off tensordict/utils.py *)",
             f"Definition consulted_only_when_locked : bool := {b(shape['consulted_only_when_locked'])}.",
             f"Definition bypassed_when_compiling : bool := {b(shape['bypassed_when_compiling'])}.",
             f"Definition key_from_make_cache_key : bool := {b(shape['key_from_make_cache_key'] and shape['per_method_table'] and shape['miss_is_key_absent'])}.",
             f"Definition tensor_result_not_stored : bool := {b(shape['tensor_result_not_stored'] and shape['single_store_site'])}.",
             "Definition by_value_types : list string := " + coq_list([coq_str(t) for t in shape["by_value_types"]]) + ".",
             f"Definition ellipsis_by_value : bool := {b(shape['ellipsis_by_value'])}.",
             f"Definition sequences_unfolded : bool := {b(shape['sequences_unfolded'] and shape['args_unfolded'])}.",
             f"Definition others_by_id : bool := {b(shape['others_by_id'])}.",
             f"Definition kwargs_sorted : bool := {b(shape['kwargs_sorted'])}.",
             f"Definition erase_resets_cache : bool := {b(shape['erase_cache_calls_erase'] and shape['erase_resets_cache'])}.",
             f"Definition derived_lock_not_memoised : bool := {b(shape['derived_lock_not_memoised'])}.",
             f"Definition entry_keeps_arguments : bool := {b(shape['entry_keeps_arguments'])}.", "",
             "Definition str_in (x : string) (l : list string) : bool := existsb (String.eqb x) l.",
             "Definition pair_in (x : string * string) (l : list (string * string)) : bool :=",
             "  existsb (fun y => String.eqb (fst x) (fst y) && String.eqb (snd x) (snd y)) l.", "",
             "(* what the model assumes about the source *)",
             "Definition sites_ok : bool :=",
             "  (* no memoised method the check has never seen *)",
             "  forallb (fun site => str_in (snd site) (map meth_name all_meths) || str_in (snd site) not_modelled) cache_sites",
             "  (* every transcribed method is still memoised *)",
             "  && forallb (fun m => existsb (fun site => String.eqb (snd site) (meth_name m)) cache_sites) all_meths",
             "  (* the invalidation points of the model: unlock (plain and lazy) and the lazy names setter *)",
             '  && pair_in ("TensorDictBase", "_propagate_unlock") erase_sites',
             '  && pair_in ("LazyStackedTensorDict", "_propagate_unlock") erase_sites',
             '  && pair_in ("LazyStackedTensorDict", "names.setter") erase_sites',
             "  (* the decorator *)",
             "  && consulted_only_when_locked && bypassed_when_compiling && key_from_make_cache_key && tensor_result_not_stored",
             '  && forallb (fun t => str_in t by_value_types) ["int"; "slice"; "str"] && forallb (fun t => str_in t ["int"; "slice"; "str"]) by_value_types',
             "  && ellipsis_by_value && sequences_unfolded && others_by_id && kwargs_sorted && erase_resets_cache",
             "  (* the repairs the model has switched on: D64 (Model fixed_D64) and D67 (discharges objs_consistent) *)",
             "  && Bool.eqb derived_lock_not_memoised fixed_D64 && entry_keeps_arguments.", ""]
    path = os.path.join(COQ, "Gen", "C06_Sites.v")
    changed = write_if_changed(path, "\n".join(lines))
    return {"cache_sites": len(cache_sites), "erase_sites": sorted(f"{a}.{c}" for a, c in erase_sites),
            "erase_calls": sorted(f"{a}.{c}" for a, c in erase_calls), "shape": shape, "rewritten": changed}
