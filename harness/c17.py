"""C17 — context-managed transformations write back through the inverse transformation (DESIGN.md §4 C17)."""
import itertools
import json

import torch
from tensordict import TensorDict, LazyStackedTensorDict, lazy_stack

from .core import Sym, some, sx


def call(f):
    try:
        return ("ok", f())
    except Exception as e:  # noqa: BLE001
        return ("raise", type(e).__name__)


# ------------------------------------------------------------------ subjects
VARIANT = ["plain-first"]   # key-order variant of the subject, set per case by main()


def base(bs, kind="regular", flatkeys=False, sep="."):
    n = 1
    for s in bs:
        n *= s
    a = torch.arange(n * 2, dtype=torch.int64).reshape(*bs, 2) + 1
    b = torch.arange(n, dtype=torch.int64).reshape(*bs) * 3 + 100
    v = VARIANT[0]
    if v != "plain-first":
        # every leaf has the same shape (so a value copied onto the wrong leaf is not rejected) and distinct contents
        a = b + 100000
    if flatkeys:
        src = {"a": a, f"n{sep}b": b, f"n{sep}m{sep}c": b + 7}
        if v == "nested-first":
            src = {f"n{sep}b": b, f"n{sep}m{sep}c": b + 7, "a": a}
        elif v == "interleaved":
            src = {f"n{sep}b": b, "a": a, f"n{sep}m{sep}c": b + 7}
    else:
        src = {"a": a, "n": {"b": b, "m": {"c": b + 7}}}
        if v == "nested-first":
            src = {"n": {"m": {"c": b + 7}, "b": b}, "a": a}
        elif v == "interleaved":
            src = {"n": {"b": b}, "a": a, "m": {"c": b + 7}}
    if kind == "lazy":
        parts = [TensorDict({k: v[i] for k, v in {"a": a, "b": b}.items()}, batch_size=list(bs[1:])) for i in range(bs[0])]
        return lazy_stack(parts, 0)
    return TensorDict(src, batch_size=list(bs))


def snap(td):
    out = {"bs": list(td.batch_size), "locked": bool(td.is_locked), "leaves": {}}
    for k, v in td.items(True, True):
        out["leaves"]["/".join(k) if isinstance(k, tuple) else k] = [list(v.shape), v.reshape(-1).tolist()]
    return out


# ------------------------------------------------------------------ ops, spellings and reference inverses
# each entry: (op, args, kwargs, batch shape, reference inverse as a function of (modified, original_batch_shape))
def spellings():
    S = []
    bs = (2, 3, 4)
    for (d0, d1) in [(0, 1), (1, 2), (0, 2), (-1, 0), (-2, -1), (1, 1), (0, -1)]:
        inv = lambda y, o, d0=d0, d1=d1: y.transpose(d0, d1)
        S.append(("transpose", (d0, d1), {}, bs, inv))
        S.append(("transpose", (), {"dim0": d0, "dim1": d1}, bs, inv))
        S.append(("transpose", (d0,), {"dim1": d1}, bs, inv))
    for p in [(2, 0, 1), (1, 0, 2), (0, 1, 2), (-1, 0, 1), (1, 2, 0), (-1, -3, -2)]:
        def inv(y, o, p=p):
            pp = [q % 3 for q in p]
            ip = [pp.index(i) for i in range(3)]
            return y.permute(ip)
        S.append(("permute", p, {}, bs, inv))
        S.append(("permute", (list(p),), {}, bs, inv))
        S.append(("permute", (), {"dims": list(p)}, bs, inv))
    for shp in [(6, 4), (2, 12), (24,), (-1, 4), (2, 3, 2, 2), (4, -1)]:
        inv = lambda y, o: y.view(*o)
        S.append(("view", shp, {}, bs, inv))
        S.append(("view", (list(shp),), {}, bs, inv))
        S.append(("view", (torch.Size([s for s in shp]),), {}, bs, inv) if -1 not in shp else ("view", shp, {}, bs, inv))
    for (a, k) in [((), {}), ((0, 1), {}), ((1, 2), {}), ((1,), {}), ((), {"start_dim": 1}), ((1,), {"end_dim": 2}), ((-2, -1), {}),
                   ((), {"start_dim": 0, "end_dim": -1}), ((), {"end_dim": 1}), ((0,), {"end_dim": -2}), ((-3, 1), {})]:
        def inv(y, o, a=a, k=k):
            s = a[0] if len(a) > 0 else k.get("start_dim", 0)
            e = a[1] if len(a) > 1 else k.get("end_dim", -1)
            s, e = s % 3, e % 3
            return y.unflatten(s, o[s:e + 1])
        S.append(("flatten", a, k, bs, inv))
    for bs2, (a, k) in [((6, 4), ((0, (2, 3)), {})), ((6, 4), ((), {"dim": 0, "unflattened_size": (2, 3)})), ((6, 4), ((-1, (2, 2)), {})),
                        ((6, 4), ((1, (2, 2)), {})), ((6, 4), ((0,), {"unflattened_size": (3, 2)})), ((6, 4), ((0, (6,)), {})),
                        ((6, 4), ((-2, (1, 6)), {})), ((6, 4), ((1, [4, 1]), {})), ((6, 4), ((0, (1, 2, 3)), {}))]:
        def inv(y, o, a=a, k=k):
            d = a[0] if a else k["dim"]
            sz = a[1] if len(a) > 1 else k["unflattened_size"]
            d = d % len(o)
            return y if len(sz) == 1 else y.flatten(d, d + len(sz) - 1)     # flatten over one dim is the identity
        S.append(("unflatten", a, k, bs2, inv))
    for bs3, (a, k) in [((2, 1, 3), ((1,), {})), ((2, 1, 3), ((), {"dim": 1})), ((2, 1, 3), ((-2,), {})), ((2, 1, 3), ((0,), {})),
                        ((1, 2, 1), ((-1,), {})), ((1, 2, 1), ((0,), {})), ((1, 2, 1), ((), {"dim": -3}))]:
        def inv(y, o, a=a, k=k):
            d = a[0] if a else k["dim"]
            d = d % len(o)
            return y.unsqueeze(d) if o[d] == 1 else y
        S.append(("squeeze", a, k, bs3, inv))
    for (a, k) in [((0,), {}), ((1,), {}), ((-1,), {}), ((3,), {}), ((), {"dim": 2}), ((), {"dim": -2}), ((-4,), {})]:
        def inv(y, o, a=a, k=k):
            d = a[0] if a else k["dim"]
            d = d % 4
            return y.squeeze(d)
        S.append(("unsqueeze", a, k, bs, inv))
    for (a, k) in [((), {}), (("_",), {}), ((), {"separator": "_"}), ((), {"separator": "."}), (("-",), {}), ((), {"separator": "::"})]:
        sep = a[0] if a else k.get("separator", ".")
        S.append(("flatten_keys", a, k, (2, 3), lambda y, o, sep=sep: y.unflatten_keys(sep)))
        S.append(("unflatten_keys", a, k, (2, 3), lambda y, o, sep=sep: y.flatten_keys(sep)))
    return S


EDITS = ["none", "value", "value-inplace", "newkey", "newnested"]


def apply_edit(y, edit, locked):
    if edit == "none":
        return
    k = "a" if "a" in y.keys() else next(iter(y.keys(True, True)))
    if edit == "value":
        v = y.get(k) * 10 + 1
        if locked:
            y.set_(k, v)
        else:
            y.set(k, v)
    elif edit == "value-inplace":
        y.get(k).mul_(2).add_(5)
    elif edit == "newkey":
        y.set("z", torch.ones(*y.batch_size, 3, dtype=torch.int64) * 9)
    elif edit == "newnested":
        nk = ("n", "znew")
        if any(isinstance(kk, str) and ("." in kk or "_" in kk or "-" in kk or "::" in kk) for kk in y.keys()):
            nk = "zflat"
        y.set(nk, torch.ones(*y.batch_size, dtype=torch.int64) * 4)


def expected(op, args, kwargs, bs, inv, edit, locked, flat_sep, repeat=1):
    out = base(bs, flatkeys=(op == "unflatten_keys"), sep=flat_sep)
    for _ in range(repeat):
        y = getattr(out, op)(*args, **kwargs)
        y = y.clone()   # independent of the original
        apply_edit(y, edit, False)
        back = inv(y, list(bs))
        out.update(back)
    return out


def run_impl(op, args, kwargs, bs, edit, locked, flat_sep, recorder=None, repeat=1, reuse_cm=False):
    orig = base(bs, flatkeys=(op == "unflatten_keys"), sep=flat_sep)
    ptrs_before = {k: v.untyped_storage().data_ptr() for k, v in orig.items(True, True)}
    if locked:
        orig.lock_()
    cm = getattr(orig, op)(*args, **kwargs) if reuse_cm else None
    for _ in range(repeat):
        # the same original goes through the same block again (same spelling): every block must write back
        with (cm if reuse_cm else getattr(orig, op)(*args, **kwargs)) as y:
            apply_edit(y, edit, locked)
            if recorder is not None:
                recorder.start()
        if recorder is not None:
            recorder.stop()
    ptrs_after = {k: v.untyped_storage().data_ptr() for k, v in orig.items(True, True)}
    return orig, ptrs_before, ptrs_after


class Recorder:
    """records the first inverse-transformation call issued by __exit__ (the code's re-parsing of the recorded arguments)"""
    NAMES = ["transpose", "permute", "view", "flatten", "unflatten", "squeeze", "unsqueeze", "flatten_keys", "unflatten_keys"]

    def __init__(self):
        self.calls = []
        self.saved = {}

    def start(self):
        self.calls = []
        for n in self.NAMES:
            f = getattr(TensorDict, n)
            self.saved[n] = f

            def wrap(slf, *a, __f=f, __n=n, **k):
                self.calls.append((__n, a, k))
                return __f(slf, *a, **k)
            setattr(TensorDict, n, wrap)

    def stop(self):
        for n, f in self.saved.items():
            setattr(TensorDict, n, f)
        self.saved = {}


def canon_val(v):
    if isinstance(v, torch.Size):
        return [int(x) for x in v]
    if isinstance(v, (list, tuple)):
        return [canon_val(x) for x in v]
    if hasattr(v, "tolist"):
        return v.tolist()
    return v


def val_sx(v):
    if isinstance(v, str):
        return [Sym("str"), v]
    if isinstance(v, (list, tuple, torch.Size)):
        return [Sym("ints")] + [int(x) for x in v]
    return [Sym("int"), int(v)]


def model_line(op, args, kwargs, bs):
    try:
        self_ndim = len(getattr(base(bs, flatkeys=(op == "unflatten_keys")), op)(*args, **kwargs).batch_size)
    except Exception:  # noqa: BLE001
        self_ndim = len(bs)
    return sx([Sym("reverse"), Sym(op), [val_sx(a) for a in args], [[k, val_sx(v)] for k, v in sorted(kwargs.items())], list(bs), self_ndim])


def canon_call(c):
    """(name, args, kwargs) of the recorded inverse call -> model's canonical form"""
    n, a, k = c
    a = [canon_val(x) for x in a]
    if n == "permute":
        dims = a[0] if len(a) == 1 and isinstance(a[0], list) else a
        return ["permute", [int(x) for x in dims]]
    if n == "view":
        shp = a[0] if len(a) == 1 and isinstance(a[0], list) else a
        return ["view", [int(x) for x in shp]]
    if n == "unflatten":
        return ["unflatten", int(a[0]), [int(x) for x in a[1]]]
    if n in ("flatten_keys", "unflatten_keys"):
        return [n, a[0] if a else k.get("separator", ".")]
    return [n] + [int(x) for x in a]


def _size_len(op, args, kwargs):
    """length of the unflattened_size argument (signature component of D201)"""
    if op != "unflatten":
        return None
    sz = args[1] if len(args) > 1 else kwargs.get("unflattened_size", ())
    return len(sz)


def main(R):
    torch.set_num_threads(1)
    R.rule = ("every operation registered as invertible x argument spellings (positional / keyword / mixed / negative dims / custom "
              "separators / list and Size arguments) x locked and unlocked originals x edits inside the block (none, rebinding value edit, "
              "in-place value edit, new key, new nested key) x nested blocks; distinct by (op, spelling, lock, edit); non-trivial = edit != none")
    R.assumptions = ["the reference inverse used by the oracle is torch's own inverse operation written per op in harness/c17.py",
                     "to_module as a context manager is checked under C13"]
    from . import translate, tr_c17
    try:
        translate.run("c17_registry")
    except translate.TranslateError as e:
        R.broken.append(f"translator c17_registry: {e}")
    R.step_prove()
    ok = R.step_driver()
    sps = spellings()
    cases = []
    for (op, args, kwargs, bs, inv) in sps:
        for locked in (False, True):
            for edit in EDITS:
                if locked and edit in ("newkey", "newnested"):
                    continue    # the property promises new keys only for unlocked originals
                cases.append((op, args, kwargs, bs, inv, locked, edit, "plain-first", 1))
                if edit in ("value", "none"):
                    # key-order variants of the original (nested entry before a plain leaf; interleaved flat names) and
                    # the same block entered twice on the same original
                    for variant in ("nested-first", "interleaved"):
                        cases.append((op, args, kwargs, bs, inv, locked, edit, variant, 1))
                    if edit == "value":
                        cases.append((op, args, kwargs, bs, inv, locked, edit, "plain-first", 2))
                        cases.append((op, args, kwargs, bs, inv, locked, edit, "nested-first", 2))
    if R.quick:
        R.rng.shuffle(cases)
        keep = cases[:2200]
    else:
        keep = cases
        R.exhaustive = True
    lines = [model_line(op, args, kwargs, bs) for (op, args, kwargs, bs, inv, locked, edit, variant, repeat) in keep]
    mres = R.model(lines) if ok else [None] * len(lines)
    rec = Recorder()
    for ci, (op, args, kwargs, bs, inv, locked, edit, variant, repeat) in enumerate(keep):
        VARIANT[0] = variant
        flat_sep = (args[0] if args else kwargs.get("separator", ".")) if op == "unflatten_keys" else "."
        case = {"op": op, "args": canon_val(list(args)), "kwargs": {k: canon_val(v) for k, v in kwargs.items()}, "bs": list(bs),
                "locked": locked, "edit": edit, "key_order": variant, "blocks": repeat}
        spelled = "kw" if kwargs and not args else ("mixed" if kwargs else "pos")
        sig = {"op": op, "spelling": spelled}
        if op == "unflatten":
            sig["size_len"] = len(args[1] if len(args) > 1 else kwargs["unflattened_size"])
        R.case((op, repr(args), repr(sorted(kwargs.items())), locked, edit, variant, repeat), nontrivial=edit != "none", sample=case if ci % 97 == 0 else None)
        R.count(f"key-order:{variant}")
        R.count(f"blocks:{repeat}")
        R.count(f"op:{op}")
        R.count(f"spelling:{spelled}")
        R.count(f"edit:{edit}")
        exp = call(lambda: snap(expected(op, args, kwargs, bs, inv, edit, locked, flat_sep, repeat)))
        if exp[0] != "ok":
            R.count("skipped:reference-raises")
            continue
        got = call(lambda: run_impl(op, args, kwargs, bs, edit, locked, flat_sep, rec, repeat))
        rec.stop()
        if got[0] != "ok":
            R.oracle_fail("writeback:raises", case, {"exception": got[1]}, dict(sig, kind="raises"))
        else:
            orig, pb, pa = got[1]
            s = snap(orig)
            e = exp[1]
            if s["leaves"] != e["leaves"] or s["bs"] != e["bs"]:
                diff = [k for k in set(s["leaves"]) | set(e["leaves"]) if s["leaves"].get(k) != e["leaves"].get(k)]
                R.oracle_fail("writeback:content", case, {"differing_keys": sorted(diff)[:6], "have_keys": sorted(s["leaves"]),
                                                          "want_keys": sorted(e["leaves"])}, dict(sig, kind="content"))
            elif s["locked"] != locked:
                R.oracle_fail("writeback:lock-state", case, {"locked_after": s["locked"]}, dict(sig, kind="lock"))
            elif locked and any(pb[k] != pa.get(k) for k in pb):
                R.oracle_fail("writeback:not-in-place", case, {"rebound": [str(k) for k in pb if pb[k] != pa.get(k)]}, dict(sig, kind="inplace"))
        # correspondence: the inverse call the code issued vs the model's re-parsing
        if ok and mres[ci] is not None:
            m = mres[ci]
            first = rec.calls[0] if rec.calls else None
            impl_call = canon_call(first) if first is not None else ("raise" if got[0] != "ok" else "none")
            if impl_call != m and not (got[0] != "ok" and m == "raise"):
                R.mismatch("reverse-call", case, impl_call, m)
        R.traces += 1
    VARIANT[0] = "plain-first"
    check_reused_cm(R, sps)
    check_other_containers(R, sps)
    check_locks_and_nesting(R)
    check_elem(R, ok)
    check_protocol(R, ok)
    check_writeback_rule(R, ok)
    check_writeback_tree(R, ok)
    check_key_blocks(R, ok)


def check_reused_cm(R, sps):
    """one stored context manager object entered twice in a row: both blocks must write back"""
    for (op, args, kwargs, bs, inv) in sps:
        if kwargs or (R.quick and R.rng.random() < 0.5):
            continue
        for locked in (False, True):
            flat_sep = (args[0] if args else ".") if op == "unflatten_keys" else "."
            case = {"op": op, "args": canon_val(list(args)), "kwargs": {}, "bs": list(bs), "locked": locked, "edit": "value",
                    "stored_cm_entered_twice": True}
            R.case(("reused-cm", op, repr(args), locked), nontrivial=True)
            R.count("reused-cm")

            def ref():
                out = base(bs, flatkeys=(op == "unflatten_keys"), sep=flat_sep)
                y = getattr(out, op)(*args).clone()
                apply_edit(y, "value", False)
                apply_edit(y, "value", False)
                out.update(inv(y, list(bs)))
                return snap(out)
            e = call(ref)
            if e[0] != "ok":
                continue
            g = call(lambda: snap(run_impl(op, args, {}, bs, "value", locked, flat_sep, None, 2, True)[0]))
            sig = {"op": op, "kind": "reused-cm"}
            if g[0] != "ok":
                R.oracle_fail("writeback:raises", case, {"exception": g[1]}, dict(sig, kind="raises", size_len=_size_len(op, args, {})))
            elif g[1]["leaves"] != e[1]["leaves"]:
                R.oracle_fail("writeback:content", case, {"differing_keys": sorted(k for k in e[1]["leaves"] if g[1]["leaves"].get(k) != e[1]["leaves"][k])[:6]}, sig)
            R.traces += 1


def _mk(kind, bs):
    n = 1
    for x in bs:
        n *= x
    a = torch.arange(n * 2, dtype=torch.int64).reshape(*bs, 2) + 1
    b = torch.arange(n, dtype=torch.int64).reshape(*bs) * 3 + 100
    if kind == "lazy":
        parts = [TensorDict({"a": a[i], "b": b[i]}, batch_size=list(bs[1:])) for i in range(bs[0])]
        return lazy_stack(parts, 0)
    if kind == "tensorclass":
        return _TC(a=a, b=b, batch_size=list(bs))
    return TensorDict({"a": a, "b": b}, batch_size=list(bs))


_TC = None


def check_other_containers(R, sps):
    """lazy-stack and tensorclass originals: same oracle (the regular tensordict with the same content is the reference)"""
    global _TC
    from tensordict import tensorclass
    if _TC is None:
        @tensorclass
        class _TCc:
            a: torch.Tensor
            b: torch.Tensor
        _TC = _TCc
    for kind in ("lazy", "tensorclass"):
        for (op, args, kwargs, bs, inv) in sps:
            if op in ("unflatten_keys", "flatten_keys") and kind == "tensorclass":
                continue
            if op == "unflatten_keys":
                continue
            for edit in ("value", "value-inplace"):
                if kind == "lazy" and edit == "value-inplace":
                    continue   # get() on a lazy stack returns a fresh stacked tensor: an in-place edit of it is not an edit of y
                if R.quick and R.rng.random() < 0.6:
                    continue
                case = {"op": op, "args": canon_val(list(args)), "kwargs": {k: canon_val(v) for k, v in kwargs.items()},
                        "bs": list(bs), "container": kind, "edit": edit}
                R.case((kind, op, repr(args), repr(sorted(kwargs.items())), edit), nontrivial=True)
                R.count("container:" + kind)

                def ref():
                    r = _mk("regular", bs)
                    y = getattr(r, op)(*args, **kwargs).clone()
                    y.get("a").mul_(2).add_(5) if edit == "value-inplace" else y.set("a", y.get("a") * 10 + 1)
                    out = _mk("regular", bs)
                    out.update(inv(y, list(bs)))
                    return {k: out.get(k).reshape(-1).tolist() for k in ("a", "b")}

                def impl():
                    o = _mk(kind, bs)
                    with getattr(o, op)(*args, **kwargs) as y:
                        if edit == "value-inplace":
                            y.get("a").mul_(2).add_(5)
                        else:
                            y.set("a", y.get("a") * 10 + 1)
                    return {k: o.get(k).reshape(-1).tolist() for k in ("a", "b")}, list(o.batch_size), type(o).__name__
                e = call(ref)
                if e[0] != "ok":
                    continue
                # is the forward operation itself supported by this container?  (the property is about the write-back)
                fw = call(lambda: getattr(_mk(kind, bs), op)(*args, **kwargs))
                if fw[0] != "ok":
                    R.count("skipped:forward-unsupported-on-" + kind)
                    continue
                # ... and the inverse operation, called directly on the transformed object (outside any block)?  If the
                # container cannot do that (e.g. lazy transpose back across the stack dim, C08's domain) there is no
                # inverse to write back through.
                if call(lambda: inv(fw[1], list(bs)))[0] != "ok":
                    R.count("skipped:inverse-unsupported-on-" + kind)
                    continue
                g = call(impl)
                sig = {"op": op, "container": kind, "spelling": "kw" if kwargs and not args else ("mixed" if kwargs else "pos")}
                if g[0] != "ok":
                    R.oracle_fail("writeback:raises", case, {"exception": g[1]}, dict(sig, kind="raises", size_len=_size_len(op, args, kwargs)))
                elif g[1][0] != e[1] or g[1][1] != list(bs):
                    R.oracle_fail("writeback:content", case, {"batch_size": g[1][1]}, dict(sig, kind="content"))
                R.traces += 1


def check_locks_and_nesting(R):
    """lock_/unlock_ as context managers revert the lock state; nested blocks unwind in LIFO order"""
    for start_locked in (False, True):
        for op in ("lock_", "unlock_"):
            for nested in (False, True):
                td = base((2, 3))
                if start_locked:
                    td.lock_()
                case = {"op": op, "start_locked": start_locked, "nested": nested}
                R.case(("lock", op, start_locked, nested), nontrivial=True)
                R.count("op:" + op)

                def body():
                    with getattr(td, op)() as y:
                        inside = y.is_locked
                        if nested:
                            with y.transpose(0, 1) as t:
                                if not t.is_locked:
                                    t.set("w", torch.zeros(3, 2, dtype=torch.int64))
                        sub_inside = td.get("n").is_locked
                    return inside, sub_inside
                r = call(body)
                if r[0] != "ok":
                    R.oracle_fail("lock:raises", case, {"exception": r[1]}, {"op": op, "kind": "raises"})
                    continue
                inside, sub_inside = r[1]
                want_inside = op == "lock_"
                if inside != want_inside or sub_inside != want_inside:
                    R.oracle_fail("lock:inside", case, {"inside": inside, "nested_node": sub_inside}, {"op": op, "kind": "inside"})
                if td.is_locked != start_locked or td.get("n").is_locked != start_locked:
                    R.oracle_fail("lock:not-reverted", case, {"after": td.is_locked, "nested_after": td.get("n").is_locked},
                                  {"op": op, "kind": "not-reverted"})
                if nested and op == "unlock_" and "w" not in td.keys():
                    R.oracle_fail("nested:writeback-lost", case, {"keys": sorted(td.keys())}, {"op": op, "kind": "nested"})
    # block inside block on the yielded object, both transformations
    for (o1, a1, o2, a2) in [("transpose", (0, 1), "unsqueeze", (0,)), ("permute", (2, 0, 1), "flatten", (0, 1)),
                             ("flatten", (0, 1), "unflatten", (0, (2, 3))), ("unsqueeze", (1,), "transpose", (0, 2)),
                             ("flatten_keys", (), "transpose", (0, 1)), ("transpose", (1, 2), "flatten_keys", ("_",))]:
        bs = (2, 3, 4)
        td = base(bs)
        case = {"op": "nested-blocks", "outer": [o1, list(map(canon_val, a1))], "inner": [o2, list(map(canon_val, a2))]}
        R.case(("nested", o1, o2), nontrivial=True)

        def body():
            with getattr(td, o1)(*a1) as y:
                with getattr(y, o2)(*a2) as z:
                    k = "a" if "a" in z.keys() else sorted(z.keys())[0]
                    z.set(k, z.get(k) * 0 - 3)
                    z.set("q", torch.ones(*z.batch_size, dtype=torch.int64))
            return snap(td)
        r = call(body)
        ref = base(bs)
        ok_ = r[0] == "ok" and r[1]["bs"] == list(bs) and set(r[1]["leaves"]) == set(snap(ref)["leaves"]) | {"q"} \
            and all(x == -3 for x in r[1]["leaves"]["a"][1]) and r[1]["leaves"]["q"][0] == list(bs)
        if not ok_:
            R.oracle_fail("nested:blocks", case, {"result": r[1] if r[0] != "ok" else {"keys": sorted(r[1]["leaves"]), "bs": r[1]["bs"]}},
                          {"op": "nested-blocks", "outer": o1, "inner": o2})
        R.traces += 1


# ------------------------------------------------------------------ element maps (Model/C17_Elem.v)
def _prod(l):
    n = 1
    for x in l:
        n *= x
    return n


def _unravel(sh, k):
    out = []
    for i in range(len(sh)):
        m = _prod(sh[i + 1:])
        out.append(k // m)
        k = k % m
    return out


def gen_elem_case(rng):
    """(op, args, kwargs, bs): random rank / sizes / dims (also out of range) / spelling"""
    n = rng.choice([1, 2, 2, 3, 3, 3, 4])
    bs = [rng.choice([1, 2, 2, 3, 3]) for _ in range(n)]
    if rng.random() < 0.1:
        bs = rng.choice([[4, 6], [6], [2, 6, 2], [12, 1]])
        n = len(bs)
    op = rng.choice(["transpose", "permute", "view", "flatten", "unflatten", "squeeze", "unsqueeze"])
    dim = lambda hi=None: rng.randint(-(hi or n) - 1, (hi or n))
    if op == "transpose":
        a, b = dim(), dim()
        sp = rng.choice(["pos", "mixed", "kw", "kw-rev", "bad"])
        if sp == "pos":
            return op, (a, b), {}, bs
        if sp == "mixed":
            return op, (a,), {"dim1": b}, bs
        if sp == "bad":
            return op, (a, b), {"dim0": a}, bs
        return op, (), ({"dim0": a, "dim1": b} if sp == "kw" else {"dim1": b, "dim0": a}), bs
    if op == "permute":
        k = n if rng.random() < 0.75 else rng.randint(0, n)
        p = list(range(k))
        rng.shuffle(p)
        p = [d - n if rng.random() < 0.35 else d for d in p]
        if rng.random() < 0.1 and p:
            p[rng.randrange(len(p))] = rng.randint(-n - 1, n)
        sp = rng.choice(["pos", "list", "kw"])
        if sp == "pos" and p:
            return op, tuple(p), {}, bs
        if sp == "list":
            return op, (list(p),), {}, bs
        return op, (), {"dims": list(p)}, bs
    if op == "view":
        tot = _prod(bs)
        cands = [[tot], list(bs), list(reversed(bs)), [1, tot], [tot, 1]]
        for d in range(2, tot):
            if tot % d == 0:
                cands.append([d, tot // d])
                cands.append([d, 1, tot // d])
        shp = list(rng.choice(cands))
        r = rng.random()
        if r < 0.3:
            shp[rng.randrange(len(shp))] = -1
        elif r < 0.36:
            shp = [-1, -1] + shp[1:]
        elif r < 0.42:
            shp[0] = shp[0] + 1
        sp = rng.choice(["pos", "list", "kw", "size"])
        if sp == "pos":
            return op, tuple(shp), {}, bs
        if sp == "list":
            return op, (list(shp),), {}, bs
        if sp == "size" and -1 not in shp:
            return op, (torch.Size(shp),), {}, bs
        return op, (), {"size": list(shp)}, bs
    if op == "flatten":
        a, b = dim(), dim()
        sp = rng.choice(["pos2", "pos1", "pos1kw", "kw2", "kwa", "kwb", "none"])
        return {"pos2": (op, (a, b), {}, bs), "pos1": (op, (a,), {}, bs), "pos1kw": (op, (a,), {"end_dim": b}, bs),
                "kw2": (op, (), {"start_dim": a, "end_dim": b}, bs), "kwa": (op, (), {"start_dim": a}, bs),
                "kwb": (op, (), {"end_dim": b}, bs), "none": (op, (), {}, bs)}[sp]
    if op == "unflatten":
        d = dim()
        m = bs[d % n] if -n <= d < n else 2
        cands = [[m], [1, m], [m, 1], [1, m, 1]]
        for q in range(2, m):
            if m % q == 0:
                cands.append([q, m // q])
        sz = list(rng.choice(cands))
        r = rng.random()
        if r < 0.25:
            sz[rng.randrange(len(sz))] = -1
        elif r < 0.3:
            sz[0] += 1
        sp = rng.choice(["pos", "mixed", "kw"])
        szv = tuple(sz) if rng.random() < 0.5 else list(sz)
        if sp == "pos":
            return op, (d, szv), {}, bs
        if sp == "mixed":
            return op, (d,), {"unflattened_size": szv}, bs
        return op, (), {"dim": d, "unflattened_size": szv}, bs
    d = dim(n + 1 if op == "unsqueeze" else n)
    return (op, (d,), {}, bs) if rng.random() < 0.6 else (op, (), {"dim": d}, bs)


def _elem_td(bs):
    tot = _prod(bs)
    a = torch.arange(tot, dtype=torch.int64).reshape(bs)
    f = torch.arange(tot * 2, dtype=torch.int64).reshape(*bs, 2)
    return TensorDict({"a": a, "f": f, "n": {"b": a + 1000}}, batch_size=list(bs))


def _scatter(pushes, ysh):
    """the tensor of shape ysh holding at position push(k) the source's row-major position k (None if not a bijection)"""
    tot = _prod(ysh)
    if len(pushes) != tot:
        return None
    out = torch.full((tot,), -1, dtype=torch.int64)
    for k, j in enumerate(pushes):
        if j is None or j == "none" or len(j[1]) != len(ysh):
            return None
        pos = 0
        for x, s in zip(j[1], ysh):
            if not 0 <= x < s:
                return None
            pos = pos * s + x
        if out[pos] != -1:
            return None
        out[pos] = k
    return out.reshape(ysh)


def run_elem_case(op, args, kwargs, bs, locked):
    """real code: forward shape / element map; then a block that overwrites every leaf of the yielded object with a
    position-identifying content; what the original holds afterwards"""
    obs = {}
    td = _elem_td(bs)
    fw = call(lambda: getattr(td, op)(*args, **kwargs))
    if fw[0] != "ok":
        return {"fwd": "raise", "exc": fw[1]}
    y = fw[1]
    ysh = [int(x) for x in y.batch_size]
    obs["fwd"] = "ok"
    obs["ysh"] = ysh
    obs["ya"] = y.get("a").reshape(-1).tolist()
    obs["yf_ok"] = bool((y.get("f").reshape(-1, 2)[:, 0] == 2 * y.get("a").reshape(-1)).all()) and \
        bool((y.get(("n", "b")) == y.get("a") + 1000).all())
    td = _elem_td(bs)
    if locked:
        td.lock_()
    tot = _prod(ysh)
    W = torch.arange(tot, dtype=torch.int64).reshape(ysh) + 5000

    def block():
        with getattr(td, op)(*args, **kwargs) as yy:
            if locked:
                yy.set_("a", W.clone())
            else:
                yy.set("a", W.clone())
        return td
    r = call(block)
    if r[0] != "ok":
        obs["block"] = "raise"
        obs["exc"] = r[1]
        return obs
    obs["block"] = "ok"
    obs["after_bs"] = [int(x) for x in td.batch_size]
    obs["after_a"] = td.get("a").reshape(-1).tolist() if list(td.get("a").shape) == list(bs) else None
    again = call(lambda: getattr(td, op)(*args, **kwargs).get("a"))
    obs["oracle"] = again[0] == "ok" and list(again[1].shape) == ysh and bool((again[1] == W).all()) \
        and obs["after_bs"] == list(bs) and bool((td.get("f") == _elem_td(bs).get("f")).all())
    return obs


def check_elem(R, ok):
    n_cases = 700 if R.quick else 12000
    cases = []
    seen = set()
    while len(cases) < n_cases:
        c = gen_elem_case(R.rng)
        key = (c[0], repr(c[1]), repr(sorted(c[2].items())), tuple(c[3]))
        if key in seen and R.rng.random() < 0.9:
            continue
        seen.add(key)
        cases.append(c)
    lines = [sx([Sym("elem"), Sym(op), [val_sx(a) for a in args], [[k, val_sx(v)] for k, v in sorted(kwargs.items())], list(bs)])
             for (op, args, kwargs, bs) in cases]
    mres = R.model(lines) if ok else [None] * len(lines)
    for ci, (op, args, kwargs, bs) in enumerate(cases):
        locked = bool(ci % 2)
        case = {"op": op, "args": canon_val(list(args)), "kwargs": {k: canon_val(v) for k, v in kwargs.items()}, "bs": list(bs),
                "locked": locked, "stream": "elem"}
        obs = run_elem_case(op, args, kwargs, bs, locked)
        R.case(("elem", op, repr(args), repr(sorted(kwargs.items())), tuple(bs), locked), nontrivial=obs["fwd"] == "ok",
               sample=case if ci % 211 == 0 else None)
        R.count(f"elem:{op}")
        R.count(f"elem:rank{len(bs)}")
        R.count("elem:fwd-" + obs["fwd"])
        R.traces += 1
        sizelen = None
        if op == "unflatten":
            sz = args[1] if len(args) > 1 else kwargs.get("unflattened_size", ())
            sizelen = len(sz)
        sig = {"op": op, "stream": "elem"}
        if obs["fwd"] == "ok":
            if obs.get("block") == "raise":
                R.oracle_fail("elem:block-raises", case, {"exception": obs["exc"]}, dict(sig, kind="raises", size_len=sizelen))
            elif not obs["oracle"]:
                R.oracle_fail("elem:roundtrip", case, {"after_bs": obs["after_bs"]}, dict(sig, kind="content"))
            if not obs["yf_ok"]:
                R.oracle_fail("elem:leaves-disagree", case, {}, dict(sig, kind="leaves"))
        m = mres[ci]
        if m is None:
            continue
        if obs["fwd"] != "ok":
            if not (m == "badcall" or (isinstance(m, list) and m[0] == "fwdraise")):
                R.mismatch("elem-forward", case, "raise:" + obs.get("exc", ""), m if not isinstance(m, list) else m[:3])
            continue
        if not (isinstance(m, list) and m[0] == "ok"):
            R.mismatch("elem-forward", case, {"ysh": obs["ysh"]}, m)
            continue
        _, c, ysh, pushes, r, rsh, rpushes = m
        exp = _scatter(pushes, obs["ysh"]) if ysh == obs["ysh"] else None
        if exp is None or exp.reshape(-1).tolist() != obs["ya"]:
            R.mismatch("elem-forward-map", case, {"ysh": obs["ysh"], "ya": obs["ya"][:12]}, {"call": c, "ysh": ysh})
            continue
        if obs.get("block") == "raise":
            if rsh != "none":
                R.mismatch("elem-reverse", case, "raise:" + obs["exc"], {"reverse": r, "shape": rsh})
            continue
        if rsh == "none" or rsh[1] != obs["after_bs"]:
            R.mismatch("elem-reverse", case, {"after_bs": obs["after_bs"]}, {"reverse": r, "shape": rsh})
            continue
        back = _scatter(rpushes, list(bs))
        want = None if back is None else (back + 5000).reshape(-1).tolist()
        if want != obs["after_a"]:
            R.mismatch("elem-reverse-map", case, {"after_a": (obs["after_a"] or [])[:12]}, {"reverse": r, "want": (want or [])[:12]})


# ------------------------------------------------------------------ the protocol itself (Model/C17_Ctx.v)
class _BaseExc(BaseException):
    pass


def gen_prog(rng, depth):
    r = rng.random()
    if depth <= 0 or r < 0.12:
        return rng.choice(["skip", "skip", ["raise", "exception"], ["raise", "base"]]) if rng.random() < 0.5 else "skip"
    if r < 0.3:
        return ["seq", gen_prog(rng, depth - 1), gen_prog(rng, depth - 1)]
    if r < 0.6:
        return ["lock", gen_prog(rng, depth - 1)]
    if r < 0.9:
        return ["unlock", gen_prog(rng, depth - 1)]
    return ["bare", gen_prog(rng, depth - 1)]


def prog_sx(p):
    if isinstance(p, str):
        return Sym(p)
    return [Sym(p[0])] + [prog_sx(x) if not isinstance(x, str) or x in ("skip",) else Sym(x) for x in p[1:]]


def prog_depth(p):
    if isinstance(p, str) or p[0] == "raise":
        return 0
    if p[0] == "seq":
        return max(prog_depth(p[1]), prog_depth(p[2]))
    return 1 + prog_depth(p[1])


def exec_prog(p, td):
    """interprets the program as real nested `with` statements on td; returns the pending exception kind"""
    if p == "skip":
        return
    if p[0] == "raise":
        raise (ValueError("body") if p[1] == "exception" else _BaseExc())
    if p[0] == "seq":
        exec_prog(p[1], td)
        exec_prog(p[2], td)
        return
    cm = td.lock_() if p[0] == "lock" else td.unlock_() if p[0] == "unlock" else td
    with cm:
        exec_prog(p[1], td)


def lastop_name(td):
    lo = getattr(td, "_last_op", None)
    return None if lo is None else lo[0]


def run_protocol_case(locked, lo_kind, p):
    keep = base((2, 3))
    if lo_kind == "none":
        td = keep.unlock_()      # a fresh TensorDict has no _last_op attribute at all; the wrapper sets it to None here
    elif lo_kind == "alive":
        td = keep.transpose(0, 1)
    else:
        td = base((2, 3)).transpose(0, 1)     # the original dies at once
        import gc
        gc.collect()
    if locked:
        # not through the decorated lock_(): the recorded op must stay what it is
        td._propagate_lock(is_compiling=False)
    pending = "none"
    try:
        exec_prog(p, td)
    except ValueError:
        pending = "exception"
    except _BaseExc:
        pending = "base"
    except RuntimeError as e:
        # a pending non-Exception BaseException is replaced by bool(tensordict)'s RuntimeError (see Model/C17_Ctx.v::after_exit)
        pending = "exception" if "boolean" in str(e) else "crash:RuntimeError"
    except AttributeError:
        return "fail", td, keep
    q = getattr(td, "_last_op_queue", [])
    return ["ok", [bool(td.is_locked), lastop_name(td), [None if x is None else x[0] for x in q]], pending], td, keep


def check_protocol(R, ok):
    """random programs of nested lock_/unlock_/bare blocks with raises, on a fresh tensordict, on a yielded object whose
    original is alive and on one whose original is dead: lock flag, _last_op, _last_op_queue, pending exception"""
    n = 400 if R.quick else 6000
    cases = []
    for _ in range(n):
        cases.append((R.rng.random() < 0.5, R.rng.choice(["none", "none", "alive", "dead"]), gen_prog(R.rng, R.rng.randint(1, 6))))
    lines = [sx([Sym("runprog"), bool(lk), Sym("none") if lo == "none" else [Sym("shape"), Sym("transpose"), lo == "alive"], prog_sx(p)])
             for (lk, lo, p) in cases]
    mres = R.model(lines) if ok else [None] * len(lines)
    for ci, (lk, lo, p) in enumerate(cases):
        case = {"op": "protocol", "stream": "protocol", "locked": lk, "last_op": lo, "prog": p}
        R.case(("protocol", lk, lo, json.dumps(p)), nontrivial=p != "skip", sample=case if ci % 131 == 0 else None)
        R.count(f"protocol:depth{min(prog_depth(p), 6)}")
        R.count("protocol:last_op-" + lo)
        R.traces += 1
        try:
            obs, td, keep = run_protocol_case(lk, lo, p)
        except BaseException as e:  # noqa: BLE001
            obs, td = "crash:" + type(e).__name__, None
        uses_bare = "bare" in json.dumps(p)
        # oracle (no model): blocks made of lock_/unlock_ only leave the lock flag and the queue as they were
        if obs != "fail" and not isinstance(obs, str) and not uses_bare:
            if obs[1][0] != lk or obs[1][2] != []:
                R.oracle_fail("protocol:lock-not-reverted", case, {"locked_after": obs[1][0], "queue": obs[1][2]},
                              {"op": "protocol", "kind": "lock-not-reverted"})
        if isinstance(obs, str) and obs.startswith("crash"):
            R.oracle_fail("protocol:crash", case, {"exception": obs}, {"op": "protocol", "kind": "crash"})
        m = mres[ci]
        if m is None:
            continue
        mm = m
        if isinstance(m, list) and m[0] == "ok":
            lo_m = m[1][1]
            mm = ["ok", [m[1][0] == "t", None if lo_m == "none" else lo_m[1], [None if x == "none" else x[1] for x in m[1][2]]], m[2]]
        if mm != obs:
            R.mismatch("protocol", case, obs, mm)


def run_writeback_case(locked, out_keys, inv_keys):
    out = TensorDict({k: torch.full((2,), 10 + i, dtype=torch.int64) for i, k in enumerate(out_keys)}, batch_size=[2])
    inv = TensorDict({k: torch.full((2,), 500 + i, dtype=torch.int64) for i, k in enumerate(inv_keys)}, batch_size=[2])
    ids = {out.get(k).data_ptr(): i for i, k in enumerate(out_keys)}
    ids.update({inv.get(k).data_ptr(): 100 + i for i, k in enumerate(inv_keys)})
    if locked:
        out.lock_()
    r = call(lambda: out.update_(inv) if locked else out.update(inv, inplace=False))
    if r[0] != "ok":
        return "raise"
    return [[k, [ids.get(out.get(k).data_ptr(), -1), int(out.get(k)[0])]] for k in out.keys()]


def check_writeback_rule(R, ok):
    """the write-back rule of every _reverse_* function on flat key sets: update_ (locked) / update(inplace=False)"""
    names = ["a", "b", "c", "d", "e"]
    cases = []
    for _ in range(150 if R.quick else 2000):
        ok_keys = [k for k in names if R.rng.random() < 0.5]
        R.rng.shuffle(ok_keys)
        iv = [k for k in names if R.rng.random() < 0.45]
        R.rng.shuffle(iv)
        cases.append((R.rng.random() < 0.5, ok_keys, iv))
    ent = lambda keys, base_id, base_c: [[k, [base_id + i, base_c + i]] for i, k in enumerate(keys)]
    lines = [sx([Sym("writeback"), bool(lk), ent(o, 0, 10), ent(i, 100, 500)]) for (lk, o, i) in cases]
    mres = R.model(lines) if ok else [None] * len(lines)
    for ci, (lk, o, i) in enumerate(cases):
        case = {"op": "writeback-rule", "stream": "writeback", "locked": lk, "out": o, "inv": i}
        new = [k for k in i if k not in o]
        R.case(("writeback-rule", lk, tuple(o), tuple(i)), nontrivial=bool(i))
        R.count("writeback-rule:" + ("locked" if lk else "unlocked") + ("+new" if new else ""))
        R.traces += 1
        obs = run_writeback_case(lk, o, i)
        if obs != "raise":
            keys = [x[0] for x in obs]
            if lk and (keys != o or any(x[1][0] != n for n, x in enumerate(obs))):
                R.oracle_fail("writeback-rule:locked-not-in-place", case, {"after": obs}, {"op": "writeback-rule", "kind": "inplace"})
            if not lk and keys != o + new:
                R.oracle_fail("writeback-rule:unlocked-keys", case, {"after": obs}, {"op": "writeback-rule", "kind": "keys"})
        elif not lk:
            R.oracle_fail("writeback-rule:unlocked-raises", case, {}, {"op": "writeback-rule", "kind": "raises"})
        m = mres[ci]
        if m is None:
            continue
        mm = "raise" if m == "none" else m[1]
        if mm != obs:
            R.mismatch("writeback-rule", case, obs, mm)


# ------------------------------------------------------------------ write-back on trees (Model/C17_Tree.v)
_TKEYS = ["a", "b", "n", "m", "z"]


def gen_tree(rng, depth, counter):
    """nested dict: leaf = ["leaf", sid, content], node = {"k": tree}"""
    out = {}
    for k in _TKEYS:
        r = rng.random()
        if r < 0.45:
            continue
        if depth > 0 and r > 0.8:
            out[k] = gen_tree(rng, depth - 1, counter)
        else:
            counter[0] += 1
            out[k] = ["leaf", counter[0], 10 + counter[0]]
    items = list(out.items())
    rng.shuffle(items)
    return dict(items)


def mutate_tree(rng, t, counter, depth):
    """the yielded object after the inverse: same structure with new leaf objects / contents, some entries dropped, some new
    leaves and nested entries, rarely a leaf where the original has a node or the reverse"""
    out = {}
    for k, v in t.items():
        r = rng.random()
        if r < 0.15:
            continue
        if isinstance(v, dict):
            if r > 0.95:
                counter[0] += 1
                out[k] = ["leaf", 100 + counter[0], 500 + counter[0]]
            else:
                out[k] = mutate_tree(rng, v, counter, depth - 1)
        else:
            counter[0] += 1
            if r > 0.96 and depth > 0:
                out[k] = {"q": ["leaf", 100 + counter[0], 500 + counter[0]]}
            else:
                out[k] = ["leaf", 100 + counter[0], 500 + counter[0]]
    for k in _TKEYS:
        if k not in out and k not in t and rng.random() < 0.25:
            counter[0] += 1
            out[k] = ["leaf", 100 + counter[0], 500 + counter[0]] if rng.random() < 0.6 or depth <= 0 else \
                {"q": ["leaf", 100 + counter[0], 500 + counter[0]]}
    items = list(out.items())
    rng.shuffle(items)
    return dict(items)


def tree_sx(t):
    if isinstance(t, dict):
        return [Sym("node")] + [[Sym(k), tree_sx(v)] for k, v in t.items()]
    return [Sym("leaf"), t[1], t[2]]


def tree_td(t, ids):
    src = {}
    for k, v in t.items():
        if isinstance(v, dict):
            src[k] = tree_td(v, ids)
        else:
            x = torch.full((2,), v[2], dtype=torch.int64)
            ids[x.data_ptr()] = v[1]
            ids.setdefault("keep", []).append(x)
            src[k] = x
    return TensorDict(src, batch_size=[2])


def td_tree(td, ids):
    out = {}
    for k in td.keys():
        v = td.get(k)
        if isinstance(v, torch.Tensor):
            out[k] = ["leaf", ids.get(v.data_ptr(), -1), int(v[0])]
        else:
            out[k] = td_tree(v, ids)
    return out


def model_tree(m):
    """parsed (node (k tree) ...) -> the same nested form"""
    if m[0] == "leaf":
        return ["leaf", m[1], m[2]]
    return {kv[0]: model_tree(kv[1]) for kv in m[1:]}


def tree_skel(t):
    return {k: (tree_skel(v) if isinstance(v, dict) else v[1]) for k, v in t.items()}


def tree_compatible(a, b):
    """no path where one side has a leaf and the other a node"""
    for k, v in b.items():
        if k in a:
            if isinstance(v, dict) != isinstance(a[k], dict):
                return False
            if isinstance(v, dict) and not tree_compatible(a[k], v):
                return False
    return True


def frame_ok(before, inv, after):
    """model-free: an entry of the original the yielded object does not have, at any depth reached through nodes that both
    have, is still there, the same object with the same content"""
    for k, v in before.items():
        if k not in inv:
            if not isinstance(after, dict) or after.get(k) != v:
                return False
        elif isinstance(v, dict) and isinstance(inv[k], dict):
            if not isinstance(after, dict) or not frame_ok(v, inv[k], after.get(k)):
                return False
    return True


def run_writeback_tree_case(locked, out_t, inv_t):
    ids = {}
    out = tree_td(out_t, ids)
    inv = tree_td(inv_t, ids)
    if locked:
        out.lock_()
    r = call(lambda: out.update_(inv) if locked else out.update(inv, inplace=False))
    if r[0] != "ok":
        return "raise"
    return td_tree(out, ids)


def check_writeback_tree(R, ok):
    cases = []
    for _ in range(300 if R.quick else 5000):
        cnt = [0]
        out_t = gen_tree(R.rng, 2, cnt)
        inv_t = mutate_tree(R.rng, out_t, cnt, 2)
        cases.append((R.rng.random() < 0.5, out_t, inv_t))
    lines = [sx([Sym("writeback_t"), bool(lk), tree_sx(o), tree_sx(i)]) for (lk, o, i) in cases]
    mres = R.model(lines) if ok else [None] * len(lines)
    for ci, (lk, o, i) in enumerate(cases):
        case = {"op": "writeback-tree", "stream": "writeback-tree", "locked": lk, "out": o, "inv": i}
        compat = tree_compatible(o, i)
        R.case(("writeback-tree", lk, json.dumps(o), json.dumps(i)), nontrivial=bool(i), sample=case if ci % 101 == 0 else None)
        R.count("writeback-tree:" + ("locked" if lk else "unlocked") + ("" if compat else ":leaf-vs-node"))
        R.traces += 1
        obs = run_writeback_tree_case(lk, o, i)
        if obs != "raise":
            if lk and tree_skel(obs) != tree_skel(o):
                R.oracle_fail("writeback-tree:locked-not-in-place", case, {"after": obs}, {"op": "writeback-tree", "kind": "inplace"})
            if not lk and list(obs) != list(o) + [k for k in i if k not in o]:
                R.oracle_fail("writeback-tree:unlocked-keys", case, {"after": obs}, {"op": "writeback-tree", "kind": "keys"})
            if not lk and not frame_ok(o, i, obs):
                R.oracle_fail("writeback-tree:frame", case, {"after": obs}, {"op": "writeback-tree", "kind": "frame"})
        elif not lk and compat:
            R.oracle_fail("writeback-tree:unlocked-raises", case, {}, {"op": "writeback-tree", "kind": "raises"})
        m = mres[ci]
        if m is None:
            continue
        if not compat and lk:
            R.count("writeback-tree:outside-model(leaf-vs-node,locked)")
            continue
        mm = "raise" if m == "none" else model_tree(m[1])
        if mm != obs or (mm != "raise" and list(mm) != list(obs)):
            R.mismatch("writeback-tree", case, obs, mm)


# ------------------------------------------------------------------ flatten_keys / unflatten_keys blocks (Model/C17_Keys.v)
_SEPS = [".", ".", "_", "-", "::", "aa"]
_ATOMS = ["a", "b", "n", "m", "ab", "a.b", "x_y", "a-b", "p::q", "aab"]


def gen_key_tree(rng, depth, counter, width=3):
    out = {}
    for k in rng.sample(_ATOMS, rng.randint(0, width)):
        r = rng.random()
        if depth > 0 and r < 0.4:
            out[k] = gen_key_tree(rng, depth - 1, counter, 2)
        else:
            counter[0] += 1
            out[k] = ["leaf", counter[0]]
    return out


def ktree_sx(t):
    if isinstance(t, dict):
        return [Sym("node")] + [[k, ktree_sx(v)] for k, v in t.items()]
    return [Sym("leaf"), t[1]]


def ktree_td(t, ids):
    src = {}
    for k, v in t.items():
        if isinstance(v, dict):
            src[k] = ktree_td(v, ids)
        else:
            src[k] = _kleaf(v[1], ids)
    return TensorDict(src, batch_size=[2])


def _kleaf(z, ids):
    x = torch.full((2,), z, dtype=torch.int64)
    ids[x.data_ptr()] = z
    ids.setdefault("keep", []).append(x)
    return x


def run_key_block(which, sep, spelled_kw, locked, orig_t, sets):
    ids = {}
    orig = ktree_td(orig_t, ids)
    if locked:
        orig.lock_()
    a, k = ((), {"separator": sep}) if spelled_kw else ((sep,), {})
    fw = call(lambda: getattr(orig, which)(*a, **k))
    if fw[0] != "ok":
        return "fwd-raise"

    def block():
        with getattr(orig, which)(*a, **k) as y:
            for key, z in sets:
                kk = key if isinstance(key, str) else (tuple(key) if len(key) > 1 else key[0])
                if y.is_locked:
                    y.unlock_()
                y.set(kk, _kleaf(z, ids))
    r = call(block)
    if r[0] != "ok":
        return "raise"
    return ["ok", td_tree(orig, ids)]


def check_key_blocks(R, ok):
    """(1) separator.join / key.split / `separator in key` on generated paths; (2) whole blocks on key trees: custom
    separators (also of several characters), keys that contain the separator, empty nested nodes, added flat / nested names"""
    sj = []
    for _ in range(250 if R.quick else 4000):
        sep = R.rng.choice(_SEPS)
        p = [R.rng.choice(_ATOMS + ["", "a", "aa", ".", "_x"]) for _ in range(R.rng.randint(1, 4))]
        sj.append((sep, p))
    lines = [sx([Sym("splitjoin"), sep, list(p)]) for sep, p in sj]
    mres = R.model(lines) if ok else [None] * len(lines)
    for (sep, p), m in zip(sj, mres):
        k = sep.join(p)
        case = {"op": "splitjoin", "stream": "splitjoin", "sep": sep, "path": p}
        R.case(("splitjoin", sep, tuple(p)), nontrivial=len(p) > 1)
        R.count("splitjoin:" + ("roundtrip" if k.split(sep) == p else "no-roundtrip"))
        R.traces += 1
        if m is None:
            continue
        obs = [k, sep in k, k.split(sep), k.split(sep) if sep in k else [k]]
        mm = [m[0], m[1] == "t", list(m[2]), list(m[3])]
        if obs != mm:
            R.mismatch("splitjoin", case, obs, mm)
        # the model's side condition must be exactly "split gives the components back"
        if (m[4] == "t") != (k.split(sep) == p):
            R.mismatch("splitjoin-clean-path", case, k.split(sep) == p, m[4])
        if m[5] == "t" and len(sep) == 1 and k.split(sep) != p:
            R.mismatch("splitjoin-no-sep-inside", case, k.split(sep), m[5])
    cases = []
    for _ in range(300 if R.quick else 5000):
        cnt = [0]
        which = R.rng.choice(["flatten_keys", "unflatten_keys"])
        sep = R.rng.choice(_SEPS)
        locked = R.rng.random() < 0.4
        if which == "flatten_keys":
            orig = gen_key_tree(R.rng, 2, cnt)
            sets = []
            for _ in range(R.rng.choice([0, 1, 1, 2])):
                cnt[0] += 1
                nm = R.rng.choice(["z", "a", sep.join(["p", "q", "r"]), sep.join(["n", "b"]), sep.join(["n", "znew"]), "a.b", sep + "x"])
                sets.append((nm, 100 + cnt[0]))
        else:
            orig = {}
            for _ in range(R.rng.randint(0, 4)):
                cnt[0] += 1
                nm = sep.join(R.rng.choice(_ATOMS[:5]) for _ in range(R.rng.choice([1, 1, 2, 3])))
                orig[nm] = ["leaf", cnt[0]]
            sets = []
            for _ in range(R.rng.choice([0, 1, 1, 2])):
                cnt[0] += 1
                sets.append((R.rng.choice([["z"], ["a"], ["n", "c"], ["p", "q"], ["a", "b"]]), 100 + cnt[0]))
        cases.append((which, sep, R.rng.random() < 0.5, locked, orig, sets))
    lines = [sx([Sym(w + "_block"), sep, bool(lk), ktree_sx(o),
                 [[(k if isinstance(k, str) else list(k)), [Sym("leaf"), z]] for k, z in sets]])
             for (w, sep, kw, lk, o, sets) in cases]
    mres = R.model(lines) if ok else [None] * len(lines)
    for ci, ((w, sep, kw, lk, o, sets), m) in enumerate(zip(cases, mres)):
        case = {"op": w, "stream": "key-block", "sep": sep, "kw": kw, "locked": lk, "orig": o, "sets": sets}
        R.case(("key-block", w, sep, kw, lk, json.dumps(o), json.dumps(sets)), nontrivial=bool(o) or bool(sets),
               sample=case if ci % 101 == 0 else None)
        R.count(f"key-block:{w}:{'locked' if lk else 'unlocked'}")
        R.count("key-block:sep-len%d" % len(sep))
        R.traces += 1
        obs = run_key_block(w, sep, kw, lk, o, sets)
        R.count("key-block:" + (obs if isinstance(obs, str) else "ok"))
        if m is None:
            continue
        mm = m if isinstance(m, str) else ["ok", model_tree(m[1])]
        same = mm == obs and (isinstance(mm, str) or list(mm[1]) == list(obs[1]))
        if not same:
            R.mismatch("key-block", case, obs, mm)


def replay_protocol(c):
    obs = run_protocol_case(c["locked"], c["last_op"], c["prog"])[0]
    print("implementation:", json.dumps(obs))
    return 0


def replay_elem(c):
    args = tuple(tuple(a) if isinstance(a, list) else a for a in c["args"])
    print("implementation:", json.dumps(run_elem_case(c["op"], args, c["kwargs"], c["bs"], c["locked"]), default=str))
    return 0


def replay(body):
    c = body["case"]
    print(json.dumps(c))
    print(json.dumps(body.get("detail"), default=str))
    if c.get("stream") == "elem":
        return replay_elem(c)
    if c.get("stream") == "protocol":
        return replay_protocol(c)
    if c.get("stream") == "key-block":
        print("implementation:", json.dumps(run_key_block(c["op"], c["sep"], c["kw"], c["locked"], c["orig"], [tuple(x) for x in c["sets"]])))
        return 0
    if c.get("stream") == "writeback-tree":
        print("implementation:", json.dumps(run_writeback_tree_case(c["locked"], c["out"], c["inv"])))
        return 0
    if c.get("stream") == "writeback":
        print("implementation:", json.dumps(run_writeback_case(c["locked"], c["out"], c["inv"])))
        return 0
    if c["op"] in ("nested-blocks", "lock_", "unlock_"):
        return 0
    sp = [s for s in spellings() if s[0] == c["op"] and canon_val(list(s[1])) == c["args"] and {k: canon_val(v) for k, v in s[2].items()} == c["kwargs"]]
    if not sp:
        print("spelling not found")
        return 0
    op, args, kwargs, bs, inv = sp[0]
    VARIANT[0] = c.get("key_order", "plain-first")
    flat_sep = (args[0] if args else kwargs.get("separator", ".")) if op == "unflatten_keys" else "."
    print("expected:", call(lambda: snap(expected(op, args, kwargs, bs, inv, c["edit"], c["locked"], flat_sep))))
    r = call(lambda: run_impl(op, args, kwargs, bs, c["edit"], c["locked"], flat_sep))
    print("implementation:", (r[0], snap(r[1][0])) if r[0] == "ok" else r)
    return 0
