"""C17 — context-managed transformations write back through the inverse transformation (DESIGN.md §4 C17)."""
import itertools
import json

import torch
from tensordict import TensorDict, LazyStackedTensorDict, lazy_stack

from .core import Sym, some, sx


def call(f):
    try:
        return ("ok", f())
    except Exception as e:  # noqa: BLE001
        return ("raise", type(e).__name__)


# ------------------------------------------------------------------ subjects
VARIANT = ["plain-first"]   # key-order variant of the subject, set per case by main()


def base(bs, kind="regular", flatkeys=False, sep="."):
    n = 1
    for s in bs:
        n *= s
    a = torch.arange(n * 2, dtype=torch.int64).reshape(*bs, 2) + 1
    b = torch.arange(n, dtype=torch.int64).reshape(*bs) * 3 + 100
    v = VARIANT[0]
    if v != "plain-first":
        # every leaf has the same shape (so a value copied onto the wrong leaf is not rejected) and distinct contents
        a = b + 100000
    if flatkeys:
        src = {"a": a, f"n{sep}b": b, f"n{sep}m{sep}c": b + 7}
        if v == "nested-first":
            src = {f"n{sep}b": b, f"n{sep}m{sep}c": b + 7, "a": a}
        elif v == "interleaved":
            src = {f"n{sep}b": b, "a": a, f"n{sep}m{sep}c": b + 7}
    else:
        src = {"a": a, "n": {"b": b, "m": {"c": b + 7}}}
        if v == "nested-first":
            src = {"n": {"m": {"c": b + 7}, "b": b}, "a": a}
        elif v == "interleaved":
            src = {"n": {"b": b}, "a": a, "m": {"c": b + 7}}
    if kind == "lazy":
        parts = [TensorDict({k: v[i] for k, v in {"a": a, "b": b}.items()}, batch_size=list(bs[1:])) for i in range(bs[0])]
        return lazy_stack(parts, 0)
    return TensorDict(src, batch_size=list(bs))


def snap(td):
    out = {"bs": list(td.batch_size), "locked": bool(td.is_locked), "leaves": {}}
    for k, v in td.items(True, True):
        out["leaves"]["/".join(k) if isinstance(k, tuple) else k] = [list(v.shape), v.reshape(-1).tolist()]
    return out


# ------------------------------------------------------------------ ops, spellings and reference inverses
# each entry: (op, args, kwargs, batch shape, reference inverse as a function of (modified, original_batch_shape))
def spellings():
    S = []
    bs = (2, 3, 4)
    for (d0, d1) in [(0, 1), (1, 2), (0, 2), (-1, 0), (-2, -1), (1, 1), (0, -1)]:
        inv = lambda y, o, d0=d0, d1=d1: y.transpose(d0, d1)
        S.append(("transpose", (d0, d1), {}, bs, inv))
        S.append(("transpose", (), {"dim0": d0, "dim1": d1}, bs, inv))
        S.append(("transpose", (d0,), {"dim1": d1}, bs, inv))
    for p in [(2, 0, 1), (1, 0, 2), (0, 1, 2), (-1, 0, 1), (1, 2, 0), (-1, -3, -2)]:
        def inv(y, o, p=p):
            pp = [q % 3 for q in p]
            ip = [pp.index(i) for i in range(3)]
            return y.permute(ip)
        S.append(("permute", p, {}, bs, inv))
        S.append(("permute", (list(p),), {}, bs, inv))
        S.append(("permute", (), {"dims": list(p)}, bs, inv))
    for shp in [(6, 4), (2, 12), (24,), (-1, 4), (2, 3, 2, 2), (4, -1)]:
        inv = lambda y, o: y.view(*o)
        S.append(("view", shp, {}, bs, inv))
        S.append(("view", (list(shp),), {}, bs, inv))
        S.append(("view", (torch.Size([s for s in shp]),), {}, bs, inv) if -1 not in shp else ("view", shp, {}, bs, inv))
    for (a, k) in [((), {}), ((0, 1), {}), ((1, 2), {}), ((1,), {}), ((), {"start_dim": 1}), ((1,), {"end_dim": 2}), ((-2, -1), {}),
                   ((), {"start_dim": 0, "end_dim": -1}), ((), {"end_dim": 1}), ((0,), {"end_dim": -2}), ((-3, 1), {})]:
        def inv(y, o, a=a, k=k):
            s = a[0] if len(a) > 0 else k.get("start_dim", 0)
            e = a[1] if len(a) > 1 else k.get("end_dim", -1)
            s, e = s % 3, e % 3
            return y.unflatten(s, o[s:e + 1])
        S.append(("flatten", a, k, bs, inv))
    for bs2, (a, k) in [((6, 4), ((0, (2, 3)), {})), ((6, 4), ((), {"dim": 0, "unflattened_size": (2, 3)})), ((6, 4), ((-1, (2, 2)), {})),
                        ((6, 4), ((1, (2, 2)), {})), ((6, 4), ((0,), {"unflattened_size": (3, 2)})), ((6, 4), ((0, (6,)), {})),
                        ((6, 4), ((-2, (1, 6)), {})), ((6, 4), ((1, [4, 1]), {})), ((6, 4), ((0, (1, 2, 3)), {}))]:
        def inv(y, o, a=a, k=k):
            d = a[0] if a else k["dim"]
            sz = a[1] if len(a) > 1 else k["unflattened_size"]
            d = d % len(o)
            return y.flatten(d, d + len(sz) - 1)
        S.append(("unflatten", a, k, bs2, inv))
    for bs3, (a, k) in [((2, 1, 3), ((1,), {})), ((2, 1, 3), ((), {"dim": 1})), ((2, 1, 3), ((-2,), {})), ((2, 1, 3), ((0,), {})),
                        ((1, 2, 1), ((-1,), {})), ((1, 2, 1), ((0,), {})), ((1, 2, 1), ((), {"dim": -3}))]:
        def inv(y, o, a=a, k=k):
            d = a[0] if a else k["dim"]
            d = d % len(o)
            return y.unsqueeze(d) if o[d] == 1 else y
        S.append(("squeeze", a, k, bs3, inv))
    for (a, k) in [((0,), {}), ((1,), {}), ((-1,), {}), ((3,), {}), ((), {"dim": 2}), ((), {"dim": -2}), ((-4,), {})]:
        def inv(y, o, a=a, k=k):
            d = a[0] if a else k["dim"]
            d = d % 4
            return y.squeeze(d)
        S.append(("unsqueeze", a, k, bs, inv))
    for (a, k) in [((), {}), (("_",), {}), ((), {"separator": "_"}), ((), {"separator": "."}), (("-",), {}), ((), {"separator": "::"})]:
        sep = a[0] if a else k.get("separator", ".")
        S.append(("flatten_keys", a, k, (2, 3), lambda y, o, sep=sep: y.unflatten_keys(sep)))
        S.append(("unflatten_keys", a, k, (2, 3), lambda y, o, sep=sep: y.flatten_keys(sep)))
    return S


EDITS = ["none", "value", "value-inplace", "newkey", "newnested"]


def apply_edit(y, edit, locked):
    if edit == "none":
        return
    k = "a" if "a" in y.keys() else next(iter(y.keys(True, True)))
    if edit == "value":
        v = y.get(k) * 10 + 1
        if locked:
            y.set_(k, v)
        else:
            y.set(k, v)
    elif edit == "value-inplace":
        y.get(k).mul_(2).add_(5)
    elif edit == "newkey":
        y.set("z", torch.ones(*y.batch_size, 3, dtype=torch.int64) * 9)
    elif edit == "newnested":
        nk = ("n", "znew")
        if any(isinstance(kk, str) and ("." in kk or "_" in kk or "-" in kk or "::" in kk) for kk in y.keys()):
            nk = "zflat"
        y.set(nk, torch.ones(*y.batch_size, dtype=torch.int64) * 4)


def expected(op, args, kwargs, bs, inv, edit, locked, flat_sep, repeat=1):
    out = base(bs, flatkeys=(op == "unflatten_keys"), sep=flat_sep)
    for _ in range(repeat):
        y = getattr(out, op)(*args, **kwargs)
        y = y.clone()   # independent of the original
        apply_edit(y, edit, False)
        back = inv(y, list(bs))
        out.update(back)
    return out


def run_impl(op, args, kwargs, bs, edit, locked, flat_sep, recorder=None, repeat=1, reuse_cm=False):
    orig = base(bs, flatkeys=(op == "unflatten_keys"), sep=flat_sep)
    ptrs_before = {k: v.untyped_storage().data_ptr() for k, v in orig.items(True, True)}
    if locked:
        orig.lock_()
    cm = getattr(orig, op)(*args, **kwargs) if reuse_cm else None
    for _ in range(repeat):
        # the same original goes through the same block again (same spelling): every block must write back
        with (cm if reuse_cm else getattr(orig, op)(*args, **kwargs)) as y:
            apply_edit(y, edit, locked)
            if recorder is not None:
                recorder.start()
        if recorder is not None:
            recorder.stop()
    ptrs_after = {k: v.untyped_storage().data_ptr() for k, v in orig.items(True, True)}
    return orig, ptrs_before, ptrs_after


class Recorder:
    """records the first inverse-transformation call issued by __exit__ (the code's re-parsing of the recorded arguments)"""
    NAMES = ["transpose", "permute", "view", "flatten", "unflatten", "squeeze", "unsqueeze", "flatten_keys", "unflatten_keys"]

    def __init__(self):
        self.calls = []
        self.saved = {}

    def start(self):
        self.calls = []
        for n in self.NAMES:
            f = getattr(TensorDict, n)
            self.saved[n] = f

            def wrap(slf, *a, __f=f, __n=n, **k):
                self.calls.append((__n, a, k))
                return __f(slf, *a, **k)
            setattr(TensorDict, n, wrap)

    def stop(self):
        for n, f in self.saved.items():
            setattr(TensorDict, n, f)
        self.saved = {}


def canon_val(v):
    if isinstance(v, torch.Size):
        return [int(x) for x in v]
    if isinstance(v, (list, tuple)):
        return [canon_val(x) for x in v]
    if hasattr(v, "tolist"):
        return v.tolist()
    return v


def val_sx(v):
    if isinstance(v, str):
        return [Sym("str"), v]
    if isinstance(v, (list, tuple, torch.Size)):
        return [Sym("ints")] + [int(x) for x in v]
    return [Sym("int"), int(v)]


def model_line(op, args, kwargs, bs):
    try:
        self_ndim = len(getattr(base(bs, flatkeys=(op == "unflatten_keys")), op)(*args, **kwargs).batch_size)
    except Exception:  # noqa: BLE001
        self_ndim = len(bs)
    return sx([Sym("reverse"), Sym(op), [val_sx(a) for a in args], [[k, val_sx(v)] for k, v in sorted(kwargs.items())], list(bs), self_ndim])


def canon_call(c):
    """(name, args, kwargs) of the recorded inverse call -> model's canonical form"""
    n, a, k = c
    a = [canon_val(x) for x in a]
    if n == "permute":
        dims = a[0] if len(a) == 1 and isinstance(a[0], list) else a
        return ["permute", [int(x) for x in dims]]
    if n == "view":
        shp = a[0] if len(a) == 1 and isinstance(a[0], list) else a
        return ["view", [int(x) for x in shp]]
    if n == "unflatten":
        return ["unflatten", int(a[0]), [int(x) for x in a[1]]]
    if n in ("flatten_keys", "unflatten_keys"):
        return [n, a[0] if a else k.get("separator", ".")]
    return [n] + [int(x) for x in a]


def main(R):
    torch.set_num_threads(1)
    R.rule = ("every operation registered as invertible x argument spellings (positional / keyword / mixed / negative dims / custom "
              "separators / list and Size arguments) x locked and unlocked originals x edits inside the block (none, rebinding value edit, "
              "in-place value edit, new key, new nested key) x nested blocks; distinct by (op, spelling, lock, edit); non-trivial = edit != none")
    R.assumptions = ["the reference inverse used by the oracle is torch's own inverse operation written per op in harness/c17.py",
                     "to_module as a context manager is checked under C13"]
    from . import translate, tr_c17
    try:
        translate.run("c17_registry")
    except translate.TranslateError as e:
        R.broken.append(f"translator c17_registry: {e}")
    R.step_prove()
    ok = R.step_driver()
    sps = spellings()
    cases = []
    for (op, args, kwargs, bs, inv) in sps:
        for locked in (False, True):
            for edit in EDITS:
                if locked and edit in ("newkey", "newnested"):
                    continue    # the property promises new keys only for unlocked originals
                cases.append((op, args, kwargs, bs, inv, locked, edit, "plain-first", 1))
                if edit in ("value", "none"):
                    # key-order variants of the original (nested entry before a plain leaf; interleaved flat names) and
                    # the same block entered twice on the same original
                    for variant in ("nested-first", "interleaved"):
                        cases.append((op, args, kwargs, bs, inv, locked, edit, variant, 1))
                    if edit == "value":
                        cases.append((op, args, kwargs, bs, inv, locked, edit, "plain-first", 2))
                        cases.append((op, args, kwargs, bs, inv, locked, edit, "nested-first", 2))
    if R.quick:
        R.rng.shuffle(cases)
        keep = cases[:2200]
    else:
        keep = cases
        R.exhaustive = True
    lines = [model_line(op, args, kwargs, bs) for (op, args, kwargs, bs, inv, locked, edit, variant, repeat) in keep]
    mres = R.model(lines) if ok else [None] * len(lines)
    rec = Recorder()
    for ci, (op, args, kwargs, bs, inv, locked, edit, variant, repeat) in enumerate(keep):
        VARIANT[0] = variant
        flat_sep = (args[0] if args else kwargs.get("separator", ".")) if op == "unflatten_keys" else "."
        case = {"op": op, "args": canon_val(list(args)), "kwargs": {k: canon_val(v) for k, v in kwargs.items()}, "bs": list(bs),
                "locked": locked, "edit": edit, "key_order": variant, "blocks": repeat}
        spelled = "kw" if kwargs and not args else ("mixed" if kwargs else "pos")
        sig = {"op": op, "spelling": spelled}
        R.case((op, repr(args), repr(sorted(kwargs.items())), locked, edit, variant, repeat), nontrivial=edit != "none", sample=case if ci % 97 == 0 else None)
        R.count(f"key-order:{variant}")
        R.count(f"blocks:{repeat}")
        R.count(f"op:{op}")
        R.count(f"spelling:{spelled}")
        R.count(f"edit:{edit}")
        exp = call(lambda: snap(expected(op, args, kwargs, bs, inv, edit, locked, flat_sep, repeat)))
        if exp[0] != "ok":
            R.count("skipped:reference-raises")
            continue
        got = call(lambda: run_impl(op, args, kwargs, bs, edit, locked, flat_sep, rec, repeat))
        rec.stop()
        if got[0] != "ok":
            R.oracle_fail("writeback:raises", case, {"exception": got[1]}, dict(sig, kind="raises"))
        else:
            orig, pb, pa = got[1]
            s = snap(orig)
            e = exp[1]
            if s["leaves"] != e["leaves"] or s["bs"] != e["bs"]:
                diff = [k for k in set(s["leaves"]) | set(e["leaves"]) if s["leaves"].get(k) != e["leaves"].get(k)]
                R.oracle_fail("writeback:content", case, {"differing_keys": sorted(diff)[:6], "have_keys": sorted(s["leaves"]),
                                                          "want_keys": sorted(e["leaves"])}, dict(sig, kind="content"))
            elif s["locked"] != locked:
                R.oracle_fail("writeback:lock-state", case, {"locked_after": s["locked"]}, dict(sig, kind="lock"))
            elif locked and any(pb[k] != pa.get(k) for k in pb):
                R.oracle_fail("writeback:not-in-place", case, {"rebound": [str(k) for k in pb if pb[k] != pa.get(k)]}, dict(sig, kind="inplace"))
        # correspondence: the inverse call the code issued vs the model's re-parsing
        if ok and mres[ci] is not None:
            m = mres[ci]
            first = rec.calls[0] if rec.calls else None
            impl_call = canon_call(first) if first is not None else ("raise" if got[0] != "ok" else "none")
            if impl_call != m and not (got[0] != "ok" and m == "raise"):
                R.mismatch("reverse-call", case, impl_call, m)
        R.traces += 1
    VARIANT[0] = "plain-first"
    check_reused_cm(R, sps)
    check_other_containers(R, sps)
    check_locks_and_nesting(R)


def check_reused_cm(R, sps):
    """one stored context manager object entered twice in a row: both blocks must write back"""
    for (op, args, kwargs, bs, inv) in sps:
        if kwargs or (R.quick and R.rng.random() < 0.5):
            continue
        for locked in (False, True):
            flat_sep = (args[0] if args else ".") if op == "unflatten_keys" else "."
            case = {"op": op, "args": canon_val(list(args)), "kwargs": {}, "bs": list(bs), "locked": locked, "edit": "value",
                    "stored_cm_entered_twice": True}
            R.case(("reused-cm", op, repr(args), locked), nontrivial=True)
            R.count("reused-cm")

            def ref():
                out = base(bs, flatkeys=(op == "unflatten_keys"), sep=flat_sep)
                y = getattr(out, op)(*args).clone()
                apply_edit(y, "value", False)
                apply_edit(y, "value", False)
                out.update(inv(y, list(bs)))
                return snap(out)
            e = call(ref)
            if e[0] != "ok":
                continue
            g = call(lambda: snap(run_impl(op, args, {}, bs, "value", locked, flat_sep, None, 2, True)[0]))
            sig = {"op": op, "kind": "reused-cm"}
            if g[0] != "ok":
                R.oracle_fail("writeback:raises", case, {"exception": g[1]}, sig)
            elif g[1]["leaves"] != e[1]["leaves"]:
                R.oracle_fail("writeback:content", case, {"differing_keys": sorted(k for k in e[1]["leaves"] if g[1]["leaves"].get(k) != e[1]["leaves"][k])[:6]}, sig)
            R.traces += 1


def _mk(kind, bs):
    n = 1
    for x in bs:
        n *= x
    a = torch.arange(n * 2, dtype=torch.int64).reshape(*bs, 2) + 1
    b = torch.arange(n, dtype=torch.int64).reshape(*bs) * 3 + 100
    if kind == "lazy":
        parts = [TensorDict({"a": a[i], "b": b[i]}, batch_size=list(bs[1:])) for i in range(bs[0])]
        return lazy_stack(parts, 0)
    if kind == "tensorclass":
        return _TC(a=a, b=b, batch_size=list(bs))
    return TensorDict({"a": a, "b": b}, batch_size=list(bs))


_TC = None


def check_other_containers(R, sps):
    """lazy-stack and tensorclass originals: same oracle (the regular tensordict with the same content is the reference)"""
    global _TC
    from tensordict import tensorclass
    if _TC is None:
        @tensorclass
        class _TCc:
            a: torch.Tensor
            b: torch.Tensor
        _TC = _TCc
    for kind in ("lazy", "tensorclass"):
        for (op, args, kwargs, bs, inv) in sps:
            if op in ("unflatten_keys", "flatten_keys") and kind == "tensorclass":
                continue
            if op == "unflatten_keys":
                continue
            for edit in ("value", "value-inplace"):
                if kind == "lazy" and edit == "value-inplace":
                    continue   # get() on a lazy stack returns a fresh stacked tensor: an in-place edit of it is not an edit of y
                if R.quick and R.rng.random() < 0.6:
                    continue
                case = {"op": op, "args": canon_val(list(args)), "kwargs": {k: canon_val(v) for k, v in kwargs.items()},
                        "bs": list(bs), "container": kind, "edit": edit}
                R.case((kind, op, repr(args), repr(sorted(kwargs.items())), edit), nontrivial=True)
                R.count("container:" + kind)

                def ref():
                    r = _mk("regular", bs)
                    y = getattr(r, op)(*args, **kwargs).clone()
                    y.get("a").mul_(2).add_(5) if edit == "value-inplace" else y.set("a", y.get("a") * 10 + 1)
                    out = _mk("regular", bs)
                    out.update(inv(y, list(bs)))
                    return {k: out.get(k).reshape(-1).tolist() for k in ("a", "b")}

                def impl():
                    o = _mk(kind, bs)
                    with getattr(o, op)(*args, **kwargs) as y:
                        if edit == "value-inplace":
                            y.get("a").mul_(2).add_(5)
                        else:
                            y.set("a", y.get("a") * 10 + 1)
                    return {k: o.get(k).reshape(-1).tolist() for k in ("a", "b")}, list(o.batch_size), type(o).__name__
                e = call(ref)
                if e[0] != "ok":
                    continue
                # is the forward operation itself supported by this container?  (the property is about the write-back)
                fw = call(lambda: getattr(_mk(kind, bs), op)(*args, **kwargs))
                if fw[0] != "ok":
                    R.count("skipped:forward-unsupported-on-" + kind)
                    continue
                # ... and the inverse operation, called directly on the transformed object (outside any block)?  If the
                # container cannot do that (e.g. lazy transpose back across the stack dim, C08's domain) there is no
                # inverse to write back through.
                if call(lambda: inv(fw[1], list(bs)))[0] != "ok":
                    R.count("skipped:inverse-unsupported-on-" + kind)
                    continue
                g = call(impl)
                sig = {"op": op, "container": kind, "spelling": "kw" if kwargs and not args else ("mixed" if kwargs else "pos")}
                if g[0] != "ok":
                    R.oracle_fail("writeback:raises", case, {"exception": g[1]}, dict(sig, kind="raises"))
                elif g[1][0] != e[1] or g[1][1] != list(bs):
                    R.oracle_fail("writeback:content", case, {"batch_size": g[1][1]}, dict(sig, kind="content"))
                R.traces += 1


def check_locks_and_nesting(R):
    """lock_/unlock_ as context managers revert the lock state; nested blocks unwind in LIFO order"""
    for start_locked in (False, True):
        for op in ("lock_", "unlock_"):
            for nested in (False, True):
                td = base((2, 3))
                if start_locked:
                    td.lock_()
                case = {"op": op, "start_locked": start_locked, "nested": nested}
                R.case(("lock", op, start_locked, nested), nontrivial=True)
                R.count("op:" + op)

                def body():
                    with getattr(td, op)() as y:
                        inside = y.is_locked
                        if nested:
                            with y.transpose(0, 1) as t:
                                if not t.is_locked:
                                    t.set("w", torch.zeros(3, 2, dtype=torch.int64))
                        sub_inside = td.get("n").is_locked
                    return inside, sub_inside
                r = call(body)
                if r[0] != "ok":
                    R.oracle_fail("lock:raises", case, {"exception": r[1]}, {"op": op, "kind": "raises"})
                    continue
                inside, sub_inside = r[1]
                want_inside = op == "lock_"
                if inside != want_inside or sub_inside != want_inside:
                    R.oracle_fail("lock:inside", case, {"inside": inside, "nested_node": sub_inside}, {"op": op, "kind": "inside"})
                if td.is_locked != start_locked or td.get("n").is_locked != start_locked:
                    R.oracle_fail("lock:not-reverted", case, {"after": td.is_locked, "nested_after": td.get("n").is_locked},
                                  {"op": op, "kind": "not-reverted"})
                if nested and op == "unlock_" and "w" not in td.keys():
                    R.oracle_fail("nested:writeback-lost", case, {"keys": sorted(td.keys())}, {"op": op, "kind": "nested"})
    # block inside block on the yielded object, both transformations
    for (o1, a1, o2, a2) in [("transpose", (0, 1), "unsqueeze", (0,)), ("permute", (2, 0, 1), "flatten", (0, 1)),
                             ("flatten", (0, 1), "unflatten", (0, (2, 3))), ("unsqueeze", (1,), "transpose", (0, 2)),
                             ("flatten_keys", (), "transpose", (0, 1)), ("transpose", (1, 2), "flatten_keys", ("_",))]:
        bs = (2, 3, 4)
        td = base(bs)
        case = {"op": "nested-blocks", "outer": [o1, list(map(canon_val, a1))], "inner": [o2, list(map(canon_val, a2))]}
        R.case(("nested", o1, o2), nontrivial=True)

        def body():
            with getattr(td, o1)(*a1) as y:
                with getattr(y, o2)(*a2) as z:
                    k = "a" if "a" in z.keys() else sorted(z.keys())[0]
                    z.set(k, z.get(k) * 0 - 3)
                    z.set("q", torch.ones(*z.batch_size, dtype=torch.int64))
            return snap(td)
        r = call(body)
        ref = base(bs)
        ok_ = r[0] == "ok" and r[1]["bs"] == list(bs) and set(r[1]["leaves"]) == set(snap(ref)["leaves"]) | {"q"} \
            and all(x == -3 for x in r[1]["leaves"]["a"][1]) and r[1]["leaves"]["q"][0] == list(bs)
        if not ok_:
            R.oracle_fail("nested:blocks", case, {"result": r[1] if r[0] != "ok" else {"keys": sorted(r[1]["leaves"]), "bs": r[1]["bs"]}},
                          {"op": "nested-blocks", "outer": o1, "inner": o2})
        R.traces += 1


def replay(body):
    c = body["case"]
    print(json.dumps(c))
    print(json.dumps(body.get("detail"), default=str))
    if c["op"] in ("nested-blocks", "lock_", "unlock_"):
        return 0
    sp = [s for s in spellings() if s[0] == c["op"] and canon_val(list(s[1])) == c["args"] and {k: canon_val(v) for k, v in s[2].items()} == c["kwargs"]]
    if not sp:
        print("spelling not found")
        return 0
    op, args, kwargs, bs, inv = sp[0]
    VARIANT[0] = c.get("key_order", "plain-first")
    flat_sep = (args[0] if args else kwargs.get("separator", ".")) if op == "unflatten_keys" else "."
    print("expected:", call(lambda: snap(expected(op, args, kwargs, bs, inv, c["edit"], c["locked"], flat_sep))))
    r = call(lambda: run_impl(op, args, kwargs, bs, c["edit"], c["locked"], flat_sep))
    print("implementation:", (r[0], snap(r[1][0])) if r[0] == "ok" else r)
    return 0
