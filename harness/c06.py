"""C06 — locking is observationally transparent: memoised reads never go stale (DESIGN.md §4 C06).

Oracles (both evaluated directly on the implementation, independent of the Coq model):
  twin   after EVERY step of a history, every read front (public API + the memoised private methods) on every node of the
         locked subject is compared with the same call on an UNLOCKED tensordict with identical content (new containers,
         the very same bound leaf objects): key order, shapes, dtypes, integer values, names/batch size/device of returned
         tensordicts, and for every returned leaf which bound entry it is / shares storage with.
  hook   TENSORDICT_VERIF=1: every @cache HIT anywhere in the process is compared (same canonical form) with the fresh
         recomputation the library hands to the registered checker.
  write fronts: whole-tree in-place arithmetic (add_/neg_/zero_/...) goes through the memoised _values_list; the write must
         land in the entries bound now.
Correspondence: histories over TensorDict trees are also run through the extracted model (Model/C06_Cache.v): per step the
outcome, per read hit/miss + stale verdict, and after every step the (method, key) sets of every node's cache.
Attribution of an oracle failure to a recorded defect uses only OBSERVED changes of the subject (harness/c06_hist.py)."""
import hashlib
import json
import multiprocessing as mp
import os
import time

from .core import VERIF

PID = "C06"


# ====================================================================================================== generators
def gen_leaf(rng, i, allow_nt):
    r = rng.random()
    if allow_nt and r < 0.22:
        return {"kind": "nt", "data": rng.choice(["x", "y", "q"])}
    return {"kind": "t", "dtype": rng.choice(["i64", "i64", "f32", "f64", "i32", "u8"]), "feat": rng.choice([[], [], [2], [1, 2]]),
            "base": rng.randrange(0, 40)}


def gen_td(rng, bs, depth, allow_lazy, allow_nt, top=False):
    n = rng.choice([1, 2, 2, 3, 3, 4]) if depth else rng.choice([1, 2])
    ents = []
    names = ["a", "b", "c", "d", "e", "k.l"]
    rng.shuffle(names)
    for i in range(n):
        r = rng.random()
        if depth > 0 and r < 0.30:
            sub_bs = list(bs) + ([2] if rng.random() < 0.25 else [])
            e = gen_td(rng, sub_bs, depth - 1, allow_lazy, allow_nt)
        elif depth > 0 and allow_lazy and len(bs) >= 1 and r < 0.45:
            mbs = list(bs[1:])
            e = {"kind": "lazy", "stack_dim": 0,
                 "members": [gen_member(rng, mbs, j, allow_nt) for j in range(bs[0])]}
            sig = e["members"][0]
            # same keys in every member (heterogeneous stacks are C08's subject)
            e["members"] = [dict(sig, ents=[[k, dict(x, base=x.get("base", 0) + j) if x["kind"] == "t" else x] for k, x in sig["ents"]])
                            for j in range(bs[0])]
        else:
            e = gen_leaf(rng, i, allow_nt)
        ents.append([names[i], e])
    d = {"kind": "td", "ents": ents}
    if top:
        d["bs"] = list(bs)
        if bs and rng.random() < 0.3:
            d["names"] = [f"n{i}" for i in range(len(bs))]
    elif True:
        d["bs"] = list(bs)
    return d


def gen_member(rng, mbs, j, allow_nt):
    ents = [["x", {"kind": "t", "dtype": "i64", "feat": rng.choice([[], [2]]), "base": j}]]
    if rng.random() < 0.5:
        ents.append(["y", {"kind": "t", "dtype": "f32", "feat": [], "base": 3 + j}])
    if allow_nt and rng.random() < 0.3:
        ents.append(["s", {"kind": "nt", "data": "p"}])
    if rng.random() < 0.3:
        ents.append(["sub", {"kind": "td", "bs": list(mbs), "ents": [["z", {"kind": "t", "dtype": "i64", "feat": [], "base": 7}]]}])
    return {"kind": "td", "bs": list(mbs), "ents": ents}


def gen_spec(rng, stream):
    bs = rng.choice([[3], [3], [2], [3, 2], [2, 2], [2, 1], [4]])
    if stream == "clean":
        allow_nt = rng.random() < 0.5
        root = gen_td(rng, bs, rng.choice([0, 1, 2, 2, 3]), allow_lazy=False, allow_nt=allow_nt, top=True)
        locks = ["lock_", "lock_", "lock_", "lock_", "memmap_", "none"] + ([] if allow_nt else ["params"])
        return {"root": root, "lock": rng.choice(locks)}
    if stream == "lazyroot":
        mbs = bs[1:]
        m0 = gen_member(rng, mbs, 0, allow_nt=rng.random() < 0.4)
        ms = [dict(m0, ents=[[k, dict(x, base=x.get("base", 0) + j) if x["kind"] == "t" else x] for k, x in m0["ents"]]) for j in range(bs[0])]
        return {"root": {"kind": "lazy", "bs": list(bs), "stack_dim": 0, "members": ms}, "lock": rng.choice(["lock_", "lock_", "members"])}
    root = gen_td(rng, bs, rng.choice([1, 2, 2, 3]), allow_lazy=rng.random() < 0.5, allow_nt=True, top=True)
    return {"root": root, "lock": rng.choice(["lock_", "lock_", "lock_", "memmap_", "memmap_"])}


CLEAN = ["set_", "set_", "set_inplace", "tensor_", "set_at_", "set_at_", "setitem_idx", "update_", "zero_", "add_", "neg_", "mul_", "apply_",
         "fill_", "struct_fail", "relock", "relock_edit", "relock_edit", "with_unlock", "sub_unlock", "read_some", "gc", "nt_same"]
DIRTY = ["nt_set_at", "nt_setitem", "setitem_row", "make_memmap", "make_memmap_from_tensor", "memmap_under_lock", "mm_sub_unlock_edit",
         "names", "rename_", "batch_size", "member_relock_edit", "mutate_result", "isleaf_reuse"]


def gen_op(rng, pool):
    k = rng.choice(pool)
    op = {"op": k, "node": rng.randrange(0, 6), "leaf": rng.randrange(0, 8), "v": rng.randrange(1, 9), "idx": rng.randrange(0, 5),
          "which": rng.randrange(0, 6)}
    if k in ("relock_edit", "with_unlock"):
        op["edit"] = rng.randrange(0, 4)
        op["enode"] = rng.randrange(0, 5)
    if k == "read_some":
        op["which_fronts"] = [rng.randrange(0, 40) for _ in range(rng.randrange(1, 6))]
    if rng.random() < 0.5:
        op["node"] = 0
    return op


def gen_program(rng, stream, nops):
    spec = gen_spec(rng, stream)
    if stream == "clean":
        pool = CLEAN    # "sub_unlock" included for memmap_-locked trees: with D7 repaired the unlock of a nested node is refused there too
        if spec["lock"] == "params":
            spec["root"].pop("names", None)
    elif stream == "lazyroot":
        pool = CLEAN + ["names", "member_relock_edit", "rename_"]
    else:
        pool = CLEAN + DIRTY + DIRTY
    ops = [gen_op(rng, pool) for _ in range(nops)]
    prog = {"spec": spec, "ops": ops, "stream": stream}
    return prog


# ====================================================================================================== witnesses of the recorded defects
def witnesses():
    T = lambda **k: dict({"kind": "t", "dtype": "i64", "feat": [], "base": 1}, **k)  # noqa: E731
    base = {"kind": "td", "bs": [3], "ents": [["a", T()], ["nt", {"kind": "nt", "data": "x"}], ["n", {"kind": "td", "bs": [3], "ents": [["c", T(dtype="f32")]]}]]}
    named = dict(base, names=["t"])
    lazy = {"kind": "lazy", "bs": [3, 2], "stack_dim": 0, "members": [{"kind": "td", "bs": [2], "ents": [["x", T(base=j)]]} for j in range(3)]}
    lazy_named = {"kind": "lazy", "bs": [3, 2], "stack_dim": 0,
                  "members": [{"kind": "td", "bs": [2], "names": ["m"], "ents": [["x", T(base=j)]]} for j in range(3)]}
    inner = {"kind": "td", "bs": [3], "ents": [["a", T()], ["lz", {"kind": "lazy", "stack_dim": 0,
                                                                    "members": [{"kind": "td", "bs": [], "ents": [["x", T(base=j)]]} for j in range(3)]}]]}
    W = [
        ("ok:D19-nontensor-promotion", {"spec": {"root": base, "lock": "lock_"}, "ops": [{"op": "nt_setitem", "node": 0, "leaf": 0, "idx": 0, "v": 7}]}),
        ("ok:S4-nontensor-set_at", {"spec": {"root": base, "lock": "lock_"}, "ops": [{"op": "nt_set_at", "node": 0, "leaf": 0, "idx": 0, "v": 7}]}),
        ("ok:D60-make_memmap", {"spec": {"root": base, "lock": "memmap_"}, "ops": [{"op": "make_memmap", "node": 0, "which": 0, "v": 2}]}),
        # D69 repaired: the nested tensordict that make_memmap*(nested key) attaches under lock is locked and registered under the
        # root: it is neither written structurally nor unlocked alone (nodes after the first op: root, n, mn1)
        ("ok:D69-nested-node-attached-under-lock", {"spec": {"root": base, "lock": "memmap_"},
                                                    "ops": [{"op": "make_memmap_from_tensor", "node": 0, "which": 1, "v": 2}, {"op": "struct_fail", "node": 2, "which": 0},
                                                            {"op": "sub_unlock", "node": 1}, {"op": "add_", "node": 0, "v": 2}],
                                                    "expect": {"1": "ok", "2": "raise:LockError", "3": "raise:LockError", "4": "ok"}}),
        ("ok:D61-memmap_under_lock", {"spec": {"root": base, "lock": "lock_"}, "ops": [{"op": "memmap_under_lock"}, {"op": "set_", "node": 0, "leaf": 2, "v": 5}]}),
        # D62 (consequence of D7) is repaired: memmap_ builds the lock graph, the nested node cannot be unlocked alone (the Coq
        # theorem C06_memmap_subtree_unlock_refused is this history); clean afterwards
        ("ok:memmap-subtree-unlock-refused", {"spec": {"root": base, "lock": "memmap_"},
                                              "ops": [{"op": "mm_sub_unlock_edit", "node": 0, "v": 4}, {"op": "sub_unlock", "node": 0}, {"op": "add_", "node": 0, "v": 2}],
                                              "expect": {"1": "raise:LockError", "2": "raise:LockError", "3": "ok"}}),
        # D68 repaired: the refused unlock_ of ONE member of a lazy stack inside a memory-mapped tree leaves _is_memmap of that member
        # as it was: the stack's is_memmap() keeps answering (nodes: root, lz, lz/#0, lz/#1, lz/#2)
        ("ok:D68-refused-unlock-keeps-memmap-flag", {"spec": {"root": inner, "lock": "memmap_"}, "ops": [{"op": "sub_unlock", "node": 1}, {"op": "add_", "node": 0, "v": 2}],
                                                     "expect": {"1": "raise:LockError", "2": "ok"}}),
        ("ok:D63-names-under-lock", {"spec": {"root": named, "lock": "lock_"}, "ops": [{"op": "names", "node": 0, "which": 1}]}),
        ("ok:D63-batch_size-under-lock", {"spec": {"root": base, "lock": "lock_"}, "ops": [{"op": "batch_size", "node": 0}]}),
        ("ok:S11-lazy-names", {"spec": {"root": lazy_named, "lock": "lock_"}, "ops": [{"op": "names", "node": 1, "which": 1}, {"op": "names", "node": 2, "which": 1},
                                                                           {"op": "names", "node": 3, "which": 1}]}),
        # sound on /repo (the lazy stack's own names setter erases its cache): regression scenarios, no defect expected
        ("ok:lazy-own-names-setter", {"spec": {"root": lazy_named, "lock": "lock_"}, "ops": [{"op": "names", "node": 0, "which": 1}, {"op": "names", "node": 0, "which": 2},
                                                                                        {"op": "names", "node": 0, "which": 0}, {"op": "names", "node": 0, "which": 1}]}),
        ("ok:relock-with-edits", {"spec": {"root": base, "lock": "lock_"}, "ops": [{"op": "relock_edit", "edit": 0, "enode": 0}, {"op": "relock_edit", "edit": 1, "enode": 1},
                                                                                 {"op": "with_unlock", "edit": 3, "enode": 0}, {"op": "relock_edit", "edit": 2, "enode": 0},
                                                                                 {"op": "sub_unlock", "node": 0}, {"op": "add_", "node": 0, "v": 2}]}),
        ("ok:D64-lazy-implicit-lock-cycle", {"spec": {"root": lazy, "lock": "members"}, "ops": [{"op": "member_relock_edit", "node": 0, "v": 3}]}),
        ("lazy-materialised", {"spec": {"root": inner, "lock": "lock_"}, "ops": [{"op": "set_", "node": 0, "leaf": 0, "v": 5}]}),
        ("result-mutation", {"spec": {"root": base, "lock": "lock_"}, "ops": [{"op": "mutate_result", "node": 0, "which": 0}, {"op": "mutate_result", "node": 0, "which": 1}]}),
        ("ok:D67-isleaf-address-reuse", {"spec": {"root": base, "lock": "lock_"}, "ops": [{"op": "isleaf_reuse", "node": 0}, {"op": "isleaf_reuse", "node": 0}]}),
    ]
    return [dict(p, stream="witness:" + name) for name, p in W]


# ====================================================================================================== workers
def _run_one(prog):
    import torch
    torch.set_num_threads(1)
    from .c06_hist import HOOK, run_program
    import signal

    def _alarm(*_a):
        raise HistoryTimeout()
    h0 = HOOK.hits
    t = time.time()
    old = signal.signal(signal.SIGALRM, _alarm)
    signal.alarm(600)
    try:
        r = run_program(prog)
    except HistoryTimeout:
        HOOK.on = False
        return {"prog": prog, "steps": [], "fails": [("machinery:timeout", 0, {"err": "history did not finish within 600 s"},
                                                      {"cause": "none", "explained": False, "label": "timeout"})],
                "nfails": 1, "reads": 0, "hits": 0, "events": [], "wall": time.time() - t}
    except Exception as e:  # noqa: BLE001
        import traceback
        return {"crash": traceback.format_exc()[-1500:], "prog": prog}
    finally:
        signal.alarm(0)
        signal.signal(signal.SIGALRM, old)
    # keep what travels back to the parent small: first difference only, one failure per (oracle, signature)
    seen, fails = set(), []
    for (l, s_, d, g) in r.fail:
        k = (l.split(":")[0], json.dumps(g, sort_keys=True))
        if k in seen:
            continue
        seen.add(k)
        fails.append((l, s_, short(d), g))
    return {"prog": prog, "steps": r.steps, "fails": fails[:40], "nfails": len(r.fail), "reads": r.nreads,
            "hits": HOOK.hits - h0, "events": sorted(r.observed_event_kinds), "wall": time.time() - t}


_FLAGS = None


class HistoryTimeout(BaseException):
    """raised by SIGALRM inside a worker; a BaseException so that no `except Exception` of the harness or the library swallows it"""


def _init_worker(flags):
    global _FLAGS
    import resource
    _FLAGS = flags
    try:
        resource.setrlimit(resource.RLIMIT_AS, (12 * 2 ** 30, 12 * 2 ** 30))   # a runaway allocation becomes a MemoryError
    except Exception:  # noqa: BLE001
        pass


def _guard(fn, i, job, hard_timeout):
    import faulthandler
    if _FLAGS is not None:
        _FLAGS[i] = 1
    faulthandler.dump_traceback_later(hard_timeout, exit=True)   # a call stuck inside the library ends the worker
    try:
        return fn(job)
    finally:
        faulthandler.cancel_dump_traceback_later()
        if _FLAGS is not None:
            _FLAGS[i] = 2


def _lost(job, why):
    return {"prog": job, "steps": [], "impl": [], "line": None, "lost": why,
            "fails": [("machinery:history-did-not-finish", 0, {"err": why}, {"cause": "none", "explained": False, "label": "did-not-finish"})],
            "nfails": 1, "reads": 0, "hits": 0, "events": [], "wall": 0.0}


def _pool_map(fn, jobs, procs, hard_timeout=900):
    """map over a fork pool that survives a worker killed by a hang / runaway allocation inside the code under test:
    the histories that were running when a worker died are re-run one by one; one that kills its worker again is reported"""
    from concurrent.futures import ProcessPoolExecutor
    from concurrent.futures.process import BrokenProcessPool
    if procs <= 1 or len(jobs) < 4:
        return [fn(j) for j in jobs]
    import gc
    ctx = mp.get_context("fork")
    results = [None] * len(jobs)
    pending = list(range(len(jobs)))
    rounds = 0
    gc.collect()
    gc.freeze()    # the parent's heap is inherited copy-on-write: keep the children's gc.collect() (an op of the histories) off it
    while pending and rounds < 6:
        rounds += 1
        flags = ctx.Array("b", len(jobs), lock=False)
        ex = ProcessPoolExecutor(max_workers=procs, mp_context=ctx, initializer=_init_worker, initargs=(flags,))
        futs = {i: ex.submit(_guard, fn, i, jobs[i], hard_timeout) for i in pending}
        broken = False
        for i in pending:
            try:
                results[i] = futs[i].result()
            except BrokenProcessPool:
                broken = True
            except MemoryError:
                results[i] = _lost(jobs[i], "MemoryError in the worker")
        ex.shutdown(wait=False, cancel_futures=True)
        if not broken:
            break
        suspects = [i for i in pending if results[i] is None and flags[i] == 1]
        if sum(1 for r in results if r is not None and r.get("lost")) >= 3:
            break    # three histories already killed their worker: the run fails anyway, do not spend more time
        for i in suspects:   # alone, so that the culprit is identified
            ex1 = ProcessPoolExecutor(max_workers=1, mp_context=ctx, initializer=_init_worker, initargs=(None,))
            try:
                results[i] = ex1.submit(_guard, fn, i, jobs[i], min(hard_timeout, 300)).result()
            except BrokenProcessPool:
                results[i] = _lost(jobs[i], "the worker died or the history did not finish within the time limit")
            except MemoryError:
                results[i] = _lost(jobs[i], "MemoryError in the worker")
            ex1.shutdown(wait=False, cancel_futures=True)
        pending = [i for i in pending if results[i] is None]
    gc.unfreeze()
    for i in pending:
        if results[i] is None:
            results[i] = _lost(jobs[i], "not executed: the worker pool kept breaking")
    return results


def short(detail):
    """a compact detail for the replay file: first differing position of the two canonical forms"""
    a, b = (detail.get("locked_subject"), detail.get("unlocked_twin")) if "locked_subject" in detail else (detail.get("cached"), detail.get("fresh"))
    out = {k: v for k, v in detail.items() if k not in ("locked_subject", "unlocked_twin", "cached", "fresh")}
    if a is not None or b is not None:
        out["first_difference"] = first_diff(a, b)
    return out


def first_diff(a, b, path=""):
    if type(a) is not type(b):
        return {"at": path, "locked_or_cached": _clip(a), "unlocked_or_fresh": _clip(b)}
    if isinstance(a, list):
        if len(a) != len(b):
            return {"at": path + "/len", "locked_or_cached": _clip(a), "unlocked_or_fresh": _clip(b)}
        for i, (x, y) in enumerate(zip(a, b)):
            r = first_diff(x, y, f"{path}/{i}")
            if r:
                return r
        return None
    return None if a == b else {"at": path, "locked_or_cached": _clip(a), "unlocked_or_fresh": _clip(b)}


def _clip(x):
    s = json.dumps(x, default=str)
    return s if len(s) < 400 else s[:400] + "..."


def absorb(R, res, label_prefix=""):
    if "crash" in res:
        raise RuntimeError("history runner crashed:\n" + res["crash"])
    prog = res["prog"]
    key = hashlib.sha1(json.dumps(prog, sort_keys=True).encode()).hexdigest()[:16]
    ok_ops = sum(1 for s in res["steps"] if s["out"] == "ok")
    R.case(key, nontrivial=ok_ops > 0 and res["reads"] > 0,
           sample={"stream": prog.get("stream"), "lock": prog["spec"]["lock"], "ops": [s["op"] + ":" + s["out"] for s in res["steps"]][:12]})
    R.traces += 1
    R.count("stream:" + prog.get("stream", "?").split(":")[0])
    R.count("lock:" + prog["spec"]["lock"])
    for s in res["steps"]:
        R.count("op:" + s["op"] + ":" + s["out"].split(":")[0])
        for e in s["events"]:
            R.count("observed-change:" + e)
    R.extra["reads_compared_with_twin"] = R.extra.get("reads_compared_with_twin", 0) + res["reads"]
    R.extra["cache_hits_checked_by_hook"] = R.extra.get("cache_hits_checked_by_hook", 0) + res["hits"]
    seen = set()
    for (label, step, detail, sig) in res["fails"]:
        k = (label.split(":")[0], json.dumps(sig, sort_keys=True))
        if k in seen:
            continue
        seen.add(k)
        case = {"spec": prog["spec"], "ops": prog["ops"][:step], "stream": prog.get("stream"), "fronts": prog.get("fronts")}
        if prog.get("expect"):
            case["expect"] = prog["expect"]
        R.oracle_fail(label, case, dict(short(detail), step=step), sig)


# ====================================================================================================== main
def main(R):
    import torch
    torch.set_num_threads(1)
    from .c06_hist import ensure_hook
    R.rule = ("histories = (tree descriptor: nested TensorDicts depth 0..3, tensor leaves of 5 dtypes, NonTensorData leaves, lazy stacks as "
              "entries or as root; locked by lock_ / memmap_ / member-wise) x (op list drawn from in-place writes through any node handle, "
              "whole-tree in-place arithmetic, indexed writes, lock/unlock cycles with structural edits, failing structural writes, "
              "partial reads, refused unlocks of nested nodes (lock_ and memmap_ trees alike); dirty stream adds non-tensor promotion, "
              "make_memmap*, memmap_ under lock, sub-tree unlock + edit of memmap trees (refused since D7's repair), "
              "names / batch_size assignment, member-wise relock, result mutation, is_leaf objects at a reused address); distinct by "
              "sha1 of the program; non-trivial = at least one op succeeded and at least one read was compared")
    R.assumptions = ["CPython decides when an address is reused; the run only provokes it (create/drop until id() repeats)",
                     "leaves hold small integers, exact in every dtype used; float entries are never compared unless integer-valued"]
    R.trusted = ["harness/c06_world.py: walker over _tensordict / tensordicts (no memoised call), canonical forms, twin reconstruction",
                 "the /repo hook (TENSORDICT_VERIF=1) hands cached and fresh results to the checker on every hit"]
    try:
        from . import tr_c06
        from .translate import TranslateError
        try:
            R.extra["translated_table"] = {k: v for k, v in tr_c06.run().items() if k != "shape"}
        except TranslateError as e:
            R.broken.append(f"translator c06_cache_sites: {e}")
    except ImportError:
        pass
    if os.path.exists(os.path.join(VERIF, "coq", "Props", "C06.v")):
        R.step_prove()
        model_ok = R.step_driver()
    else:
        model_ok = False
    if not ensure_hook():
        R.broken.append("verification hook not active: tensordict.utils._verif_register_cache_checker did not register (TENSORDICT_VERIF=1?)")
        return
    procs = min(16, os.cpu_count() or 1)
    nclean, ndirty, nlazy, nops = (90, 90, 30, 10) if R.quick else (700, 700, 250, 20)
    progs = []
    cdir = os.path.join(VERIF, "corpus", PID)
    if os.path.isdir(cdir):
        for f in sorted(os.listdir(cdir)):
            if f.endswith(".json"):
                progs.append(json.load(open(os.path.join(cdir, f))))
    progs += witnesses()
    for _ in range(nclean):
        progs.append(gen_program(R.rng, "clean", nops))
    for _ in range(ndirty):
        progs.append(gen_program(R.rng, "dirty", nops))
    for _ in range(nlazy):
        progs.append(gen_program(R.rng, "lazyroot", nops))
    t = time.time()
    results = _pool_map(_run_one, progs, procs)
    R.extra["histories_wall_s"] = round(time.time() - t, 1)
    for res in results:
        absorb(R, res)
    if model_ok:
        from . import c06_model
        t = time.time()
        c06_model.correspondence(R, procs)
        R.extra["model_correspondence_wall_s"] = round(time.time() - t, 1)
    if not R.quick:
        coqchk(R)


def coqchk(R):
    """thorough tier: the independent checker re-checks the compiled property file and reports the axioms it depends on"""
    import re
    from .core import COQ, BuildLock, sh
    with BuildLock():
        rc, out = sh("timeout 1500 coqchk -silent -o -Q . TD TD.Props.C06", cwd=COQ, timeout=1600)
    m = re.search(r"\* Axioms:\s*(.*?)\n\s*\n", out, re.S)
    axioms = m.group(1).strip() if m else "?"
    R.extra["coqchk"] = {"rc": rc, "axioms": axioms}
    if rc != 0 or axioms != "<none>":
        R.broken.append(f"coqchk: rc={rc}, axioms: {axioms[:300]}")


def replay(body):
    import torch
    torch.set_num_threads(1)
    from .c06_hist import run_program
    case = body["case"]
    prog = {"spec": case["spec"], "ops": case["ops"], "fronts": case.get("fronts"), "expect": case.get("expect"), "stream": case.get("stream")}
    print("program:", json.dumps(prog))
    if prog["stream"] == "model":
        # a model-level history (other op vocabulary): only the correspondence is replayed
        from . import c06_model
        c06_model.replay(prog)
        return 0
    r = run_program(prog)
    for s in r.steps:
        print("step", s)
    seen = set()
    for (label, step, detail, sig) in r.fail:
        k = (label, json.dumps(sig, sort_keys=True))
        if k in seen:
            continue
        seen.add(k)
        print("ORACLE-FAIL step", step, label, json.dumps(sig), json.dumps(short(detail))[:600])
    if not r.fail:
        print("no oracle failure on this tree")
    try:
        from . import c06_model
        c06_model.replay(prog)
    except Exception as e:  # noqa: BLE001
        print("model replay unavailable:", e)
    return 0
