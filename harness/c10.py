"""C10 — memory-mapped save/load is a faithful, shared, thread-safe round trip (DESIGN.md §4 C10).

Streams
  (1) save     structures (nested TensorDict / lazy stacks / tensorclass / NonTensorData / NonTensorStack / empty nodes; every
               supported dtype; 0-size, rank 0, non-contiguous / expanded / requires-grad / already-memory-mapped leaves) x
               {memmap, memmap_, memmap_like, save} x num_threads in {0,1,2,4,8} x completion orders.  The thread pool is
               replaced IN THIS PROCESS by a deterministic executor (PermExecutor) that runs the submitted tasks in a chosen
               permutation (all permutations for <= 5 tasks, identity / reverse / random beyond) and records worker exceptions
               (S2).  One run per structure additionally uses the real ThreadPoolExecutor.
               oracle (model independent): load(dir) == original; every order == sequential; result is a live view.
               model: directory listing + parsed meta.json + file cells == Model.encode; task list == Model.tasks;
                      final (mapping, directory) under the permutation == Model.run_tasks; load == Model.decode(dir).
  (1b) fault   fault injection: small structures (most with a tensorclass entry — decorator / subclass form, nested, over a lazy
               stack, Optional and non-tensor fields); at EVERY leaf position and EVERY metadata file in turn one obstacle (entry
               already memory-mapped elsewhere with copy_existing=False; <key>.memmap present with existsok=False; meta.json is a
               directory [stands for a read-only directory: the check runs as root]) x {memmap_, memmap, memmap_like, save} x
               num_threads {0,1,2,4} x completion orders x return_early x the real pool.
               oracle: single-threaded form = threaded form (both raise the same exception class, or both succeed with equal
               directory / result / loaded tensordict); never "returns normally with a file missing".
               model: per-task outcome, outcome of the sequential and of the pool call, and COLLECTED = SPAWNED: every future
               the executor handed out vs the list the entry point finally waits for / inspects / gives to the TensorDictFuture
               == Model.C10_Fault.submitted (the correspondence obligation of C10_walk_collects_every_future).
  (2) resave   a second structure saved over a directory that already holds a first one (stale files).
  (3) grow     make_memmap / make_memmap_from_tensor / make_memmap_from_storage on a saved tensordict (metadata
               read-modify-write), memmap_refresh_ / load_memmap_ of a second mapping (== Model.C10_Refresh.load_into).
  (4) live     in-place write through one mapping read through another mapping of the same directory: same process,
               forked child, spawned child (tensordict pickled by filename); child writes seen by the parent.
What is runtime (mmap coherence between processes, real preemption) is exercised here and NOT modelled."""
import concurrent.futures
import contextlib
import inspect
import itertools
import json
import os
import pickle
import shutil
import sys
import tempfile
import traceback
from pathlib import Path

from . import cext


def _install_helper():
    """the C++ helper rebuilt from the checked tree must be in place before `import tensordict` — also in spawned children,
    which import this module first; they take the path from the environment (no build lock in a child)"""
    so = os.environ.get("VERIF_C10_CEXT")
    if so and os.path.exists(so) and "tensordict" not in sys.modules and "tensordict._C" not in sys.modules:
        import importlib.util
        spec = importlib.util.spec_from_file_location("tensordict._C", so)
        mod = importlib.util.module_from_spec(spec)
        spec.loader.exec_module(mod)
        mod.__verif_rebuilt__ = True
        sys.modules["tensordict._C"] = mod
        return
    os.environ["VERIF_C10_CEXT"] = cext.install()


_install_helper()

import torch  # noqa: E402
from typing import Optional  # noqa: E402

from tensordict import (LazyStackedTensorDict, MemoryMappedTensor, NonTensorData, NonTensorStack, TensorClass, TensorDict,  # noqa: E402
                        lazy_stack, tensorclass)
import tensordict.base as _tdbase  # noqa: E402

from .core import Sym, sx  # noqa: E402

PID = "C10"
EXC = Exception


# ====================================================================================================== tensorclasses
@tensorclass
class TCA:
    x: torch.Tensor
    tag: str


@tensorclass
class TCB:
    x: torch.Tensor
    nest: TensorDict


class TCC(TensorClass):
    """subclass form; an Optional tensor field (None lives in _non_tensordict and goes to the class's own meta.json) and a
    non-tensor field with a default"""
    x: torch.Tensor
    y: Optional[torch.Tensor] = None
    tag: str = "dflt"


@tensorclass
class TCD:
    """a tensorclass nested in a tensorclass, next to an Optional field"""
    x: torch.Tensor
    inner_tc: TCA
    y: Optional[torch.Tensor] = None


TCS = {"TCA": TCA, "TCB": TCB, "TCC": TCC, "TCD": TCD}


class Opaque:
    """a payload that is not JSON-serialisable (goes through pickle)"""

    def __init__(self, n):
        self.n = n

    def __eq__(self, o):
        return isinstance(o, Opaque) and o.n == self.n

    def __hash__(self):
        return hash(("Opaque", self.n))

    def __repr__(self):
        return f"Opaque({self.n})"


# ====================================================================================================== dtypes
DTYPES = {
    "bfloat16": torch.bfloat16, "bool": torch.bool, "complex128": torch.complex128, "complex32": torch.complex32,
    "complex64": torch.complex64, "float16": torch.float16, "float32": torch.float32, "float64": torch.float64,
    "int16": torch.int16, "int32": torch.int32, "int64": torch.int64, "int8": torch.int8, "uint8": torch.uint8,
    "uint16": torch.uint16, "uint32": torch.uint32, "uint64": torch.uint64,
}
UNSUPPORTED = {"float8_e4m3fn": torch.float8_e4m3fn, "float8_e5m2": torch.float8_e5m2}
ALL_DT = dict(DTYPES, **UNSUPPORTED)
DT_NAME = {v: k for k, v in ALL_DT.items()}
ITEMSIZE = {k: torch.empty((), dtype=v).element_size() for k, v in ALL_DT.items()}
MOD = 50  # leaf values are integers in [0, MOD): exact in every dtype above (float8_e5m2 excepted: only shapes are compared there)


def numel(shape):
    n = 1
    for s in shape:
        n *= s
    return n


def leaf_vals(d):
    n = numel(d["shape"])
    if d["dtype"] == "bool":
        return [(d["seed"] + i) % 2 for i in range(n)]
    if d.get("layout") == "expanded" and d["shape"] and d["shape"][0] > 0:
        row = n // d["shape"][0]
        return [(d["seed"] + 3 * (i % row)) % MOD for i in range(n)]
    if d["dtype"].startswith("float8"):
        return [(d["seed"] + i) % 4 for i in range(n)]
    return [(d["seed"] + 3 * i) % MOD for i in range(n)]


def to_ints(t):
    """integer content of a tensor of any of the dtypes above, row-major"""
    t = t.detach()
    if t.is_complex():
        if t.dtype == torch.complex32:
            t = torch.view_as_real(t)[..., 0].to(torch.float32)
        else:
            t = t.real
    if t.dtype in (torch.uint16, torch.uint32, torch.uint64):
        t = t.view({torch.uint16: torch.int16, torch.uint32: torch.int32, torch.uint64: torch.int64}[t.dtype])
    return [int(v) for v in t.to(torch.float64).reshape(-1).tolist()]


def make_plain(d):
    vals = leaf_vals(d)
    dt = ALL_DT[d["dtype"]]
    base = torch.tensor(vals, dtype=torch.float64).reshape(d["shape"]) if vals else torch.zeros(d["shape"], dtype=torch.float64)
    if dt in (torch.uint16, torch.uint32, torch.uint64):
        sg = {torch.uint16: torch.int16, torch.uint32: torch.int32, torch.uint64: torch.int64}[dt]
        return base.to(sg).view(dt)
    if dt == torch.complex32:
        return torch.complex(base.to(torch.float16), torch.zeros_like(base, dtype=torch.float16))
    return base.to(dt)


def make_leaf(d, ctx):
    """the tensor of a leaf descriptor; [layout] selects how the same logical content is laid out / where it lives"""
    t = make_plain(d)
    lay = d.get("layout", "contig")
    sh = d["shape"]
    if lay == "transposed" and len(sh) >= 2:
        t = t.transpose(0, -1).contiguous().transpose(0, -1)
    elif lay == "strided" and len(sh) >= 1 and sh[-1] > 0:
        big = torch.zeros(*sh[:-1], sh[-1] * 2, dtype=t.dtype)
        big[..., ::2] = t
        t = big[..., ::2]
    elif lay == "expanded" and len(sh) >= 1:
        # content constant along dim 0 (the descriptor's values are generated accordingly)
        t = t[:1].expand(sh) if sh[0] > 0 else t
    elif lay == "grad" and t.dtype.is_floating_point and not d["dtype"].startswith("float8"):
        t = t.clone().requires_grad_(True)
    elif lay == "mm-nofile":
        t = MemoryMappedTensor.from_tensor(t)
    elif lay == "mm-elsewhere":
        side = ctx["side"]
        ctx["n"] = ctx.get("n", 0) + 1
        t = MemoryMappedTensor.from_tensor(t, filename=os.path.join(side, f"ext{ctx['n']}.memmap"))
    return t


# ====================================================================================================== payloads
def build_payload(p):
    k = p[0]
    if k in ("s", "i", "b"):
        return p[1]
    if k == "n":
        return None
    if k == "l":
        return [build_payload(x) for x in p[1]]
    if k == "tu":
        return tuple(build_payload(x) for x in p[1])
    if k == "set":
        return {build_payload(x) for x in p[1]}
    if k == "d":
        return {kk: build_payload(v) for kk, v in p[1]}
    if k == "obj":
        return Opaque(p[1])
    raise ValueError(p)


def obs_payload(o):
    if isinstance(o, bool):
        return ["b", o]
    if isinstance(o, int):
        return ["i", o]
    if isinstance(o, str):
        return ["s", o]
    if o is None:
        return ["n"]
    if isinstance(o, list):
        return ["l", [obs_payload(x) for x in o]]
    if isinstance(o, tuple):
        return ["tu", [obs_payload(x) for x in o]]
    if isinstance(o, (set, frozenset)):
        return ["set", sorted((obs_payload(x) for x in o), key=json.dumps)]
    if isinstance(o, dict):
        return ["d", sorted(([str(k), obs_payload(v)] for k, v in o.items()), key=lambda kv: kv[0])]
    if isinstance(o, Opaque):
        return ["obj", o.n]
    return ["other", type(o).__name__]


def canon_payload(p):
    """descriptor -> the same normal form obs_payload produces (dict entries sorted)"""
    k = p[0]
    if k in ("l", "tu"):
        return [k, [canon_payload(x) for x in p[1]]]
    if k == "set":
        return [k, sorted((canon_payload(x) for x in p[1]), key=json.dumps)]
    if k == "d":
        return [k, sorted(([kk, canon_payload(v)] for kk, v in p[1]), key=lambda kv: kv[0])]
    return list(p)


def payload_has(p, kind):
    if p[0] == kind:
        return True
    if p[0] in ("l", "tu", "set"):
        return any(payload_has(x, kind) for x in p[1])
    if p[0] == "d":
        return any(payload_has(v, kind) for _, v in p[1])
    return False


# ====================================================================================================== build / observe
def build(d, ctx):
    k = d["k"]
    if k == "leaf":
        return make_leaf(d, ctx)
    if k == "td":
        td = TensorDict({}, batch_size=d["bs"])
        for key, e in d["ents"]:
            td._set_str(key, build(e, ctx), validated=False, inplace=False, non_blocking=False)
        return td
    if k == "lazy":
        return lazy_stack([build(m, ctx) for m in d["members"]], d["sd"])
    if k == "tc":
        inner = build(d["inner"], ctx)
        nt = {f: build_payload(p) for f, p in d.get("nt", [])}
        return TCS[d["cls"]]._from_tensordict(inner, nt) if nt else TCS[d["cls"]]._from_tensordict(inner)
    if k == "ntd":
        return NonTensorData(build_payload(d["data"]), batch_size=d["bs"])
    if k == "nts":
        return NonTensorStack(*[NonTensorData(build_payload(p), batch_size=d["ibs"]) for p in d["items"]], stack_dim=d.get("sd", 0))
    raise ValueError(k)


def type_tag(x):
    if isinstance(x, NonTensorStack):
        return "nts"
    if isinstance(x, NonTensorData):
        return "ntd"
    if isinstance(x, LazyStackedTensorDict):
        return "lazy"
    if isinstance(x, TensorDict):
        return "td"
    for n, c in TCS.items():
        if isinstance(x, c):
            return "tc"
    if isinstance(x, torch.Tensor):
        return "leaf"
    return "other:" + type(x).__name__


def observe(x, values=True):
    """what the property talks about: keys, nesting, container types, batch size, dtypes, shapes, values, payloads"""
    k = type_tag(x)
    if k == "leaf":
        o = {"k": "leaf", "dtype": DT_NAME.get(x.dtype, str(x.dtype)), "shape": list(x.shape)}
        if values and not o["dtype"].startswith("float8"):
            o["vals"] = to_ints(x)
        return o
    if k == "td":
        return {"k": "td", "bs": list(x.batch_size), "ents": {key: observe(x._get_str(key, None), values) for key in sorted(x.keys())}}
    if k == "lazy":
        return {"k": "lazy", "sd": x.stack_dim, "bs": list(x.batch_size), "members": [observe(m, values) for m in x.tensordicts]}
    if k == "tc":
        return {"k": "tc", "cls": type(x).__name__, "inner": observe(x._tensordict, values),
                "nt": {f: obs_payload(v) for f, v in sorted(x._non_tensordict.items())}}
    if k == "ntd":
        return {"k": "ntd", "bs": list(x.batch_size), "data": obs_payload(x.data)}
    if k == "nts":
        return {"k": "nts", "bs": list(x.batch_size), "data": obs_payload(x.tolist())}
    return {"k": k}


def lazy_bs(d):
    m = expected(d["members"][0], True)
    b = list(m["bs"]) if "bs" in m else list(m["inner"]["bs"])
    b.insert(d["sd"], len(d["members"]))
    return b


def nested_list(items, shape):
    if not shape:
        return items[0]
    step = len(items) // shape[0] if shape[0] else 0
    return ["l", [nested_list(items[i * step:(i + 1) * step], shape[1:]) for i in range(shape[0])]]


def expected(d, values=True):
    """the observation an equal tensordict must give — computed from the descriptor only (no tensordict code)"""
    k = d["k"]
    if k == "leaf":
        o = {"k": "leaf", "dtype": d["dtype"], "shape": list(d["shape"])}
        if values and not d["dtype"].startswith("float8"):
            o["vals"] = leaf_vals(d)
        return o
    if k == "td":
        return {"k": "td", "bs": list(d["bs"]), "ents": {key: expected(e, values) for key, e in sorted(d["ents"], key=lambda kv: kv[0])}}
    if k == "lazy":
        return {"k": "lazy", "sd": d["sd"], "bs": lazy_bs(d), "members": [expected(m, values) for m in d["members"]]}
    if k == "tc":
        return {"k": "tc", "cls": d["cls"], "inner": expected(d["inner"], values),
                "nt": {f: canon_payload(p) for f, p in sorted(d.get("nt", []))}}
    if k == "ntd":
        return {"k": "ntd", "bs": list(d["bs"]), "data": canon_payload(d["data"])}
    if k == "nts":
        items = [canon_payload(p) for p in d["items"]]
        inner = ["l", items] if not d["ibs"] else ["l", [nested_list([it] * numel(d["ibs"]), d["ibs"]) for it in items]]
        return {"k": "nts", "bs": [len(d["items"])] + list(d["ibs"]), "data": inner}
    raise ValueError(k)


def obs_diff(a, b, path=""):
    """first difference between two observations, as (path, what, a, b); None when equal"""
    if a.get("k") != b.get("k"):
        return (path, "container-type", a.get("k"), b.get("k"))
    k = a["k"]
    if k == "leaf":
        for f in ("dtype", "shape", "vals"):
            if a.get(f) != b.get(f):
                return (path, f, a.get(f) if f != "vals" else a.get(f, [])[:16], b.get(f) if f != "vals" else b.get(f, [])[:16])
        return None
    if k == "td":
        if a["bs"] != b["bs"]:
            return (path, "batch-size", a["bs"], b["bs"])
        if set(a["ents"]) != set(b["ents"]):
            return (path, "keys", sorted(set(a["ents"]) - set(b["ents"])), sorted(set(b["ents"]) - set(a["ents"])))
        for key in a["ents"]:
            r = obs_diff(a["ents"][key], b["ents"][key], path + "/" + key)
            if r:
                return r
        return None
    if k == "lazy":
        if len(a["members"]) != len(b["members"]):
            return (path, "members", len(a["members"]), len(b["members"]))
        if a["sd"] != b["sd"] or a["bs"] != b["bs"]:
            return (path, "batch-size", [a["sd"], a["bs"]], [b["sd"], b["bs"]])
        for i, (x, y) in enumerate(zip(a["members"], b["members"])):
            r = obs_diff(x, y, f"{path}/{i}")
            if r:
                return r
        return None
    if k == "tc":
        if a["cls"] != b["cls"]:
            return (path, "container-type", a["cls"], b["cls"])
        if a.get("nt", {}) != b.get("nt", {}):
            return (path, "non-tensor-fields", a.get("nt", {}), b.get("nt", {}))
        return obs_diff(a["inner"], b["inner"], path + "/_tensordict")
    if k in ("ntd", "nts"):
        if a["data"] != b["data"]:
            return (path, "payload", a["data"], b["data"])
        if a["bs"] != b["bs"]:
            return (path, "batch-size", a["bs"], b["bs"])
        return None
    return None


def strip_values(o):
    if o["k"] == "leaf":
        return {k: v for k, v in o.items() if k != "vals"}
    o = dict(o)
    if "ents" in o:
        o["ents"] = {k: strip_values(v) for k, v in o["ents"].items()}
    if "members" in o:
        o["members"] = [strip_values(m) for m in o["members"]]
    if "inner" in o:
        o["inner"] = strip_values(o["inner"])
    return o


# ====================================================================================================== directory observation
TYPE_NAMES = {}


def _type_names():
    if not TYPE_NAMES:
        for c in (TensorDict, LazyStackedTensorDict, NonTensorData, NonTensorStack) + tuple(TCS.values()):
            TYPE_NAMES[str(c)] = c.__name__
    return TYPE_NAMES


def leaf_at(d, rel):
    """descriptor of the leaf stored at directory path [rel] (list of names, last = '<key>.memmap'), or None"""
    cur = d
    for i, name in enumerate(rel):
        last = i == len(rel) - 1
        k = cur["k"]
        if k == "tc":
            if name != "_tensordict":
                return None
            cur = cur["inner"]
            continue
        if k == "lazy":
            if not name.isdigit() or int(name) >= len(cur["members"]):
                return None
            cur = cur["members"][int(name)]
            continue
        if k == "td":
            key = name[:-len(".memmap")] if last and name.endswith(".memmap") else name
            for kk, e in cur["ents"]:
                if kk == key:
                    cur = e
                    break
            else:
                return None
            continue
        return None
    return cur if cur["k"] == "leaf" else None


def read_dir(root, desc=None, cells=True, also=()):
    """canonical content of a directory: {files: {name: content}, subs: {name: dir}}.
    meta.json -> parsed JSON with _type mapped to the class name; <key>.memmap -> {size, cells} (cells decoded with the
    dtype the DESCRIPTOR gives to that path, not with what meta.json says); pickles -> payload observations"""
    tn = _type_names()

    def walk(p, rel):
        out = {"files": {}, "subs": {}}
        for name in sorted(os.listdir(p)):
            fp = os.path.join(p, name)
            if os.path.isdir(fp):
                out["subs"][name] = walk(fp, rel + [name])
            elif name == "meta.json":
                try:
                    m = json.load(open(fp))
                except EXC as e:  # noqa: BLE001
                    out["files"][name] = {"unparsable": type(e).__name__}
                    continue
                if isinstance(m, dict) and "_type" in m:
                    m["_type"] = tn.get(m["_type"], m["_type"])
                out["files"][name] = {"meta": m}
            elif name.endswith(".memmap"):
                c = {"size": os.path.getsize(fp)}
                for di, dd in enumerate(([desc] if desc is not None else []) + list(also)):
                    lf = leaf_at(dd, rel + [name])
                    if cells and lf is not None and not lf["dtype"].startswith("float8"):
                        n = numel(lf["shape"])
                        # a file that was there before keeps its length when the new content is shorter: the first n cells count
                        if n and (c["size"] == n * ITEMSIZE[lf["dtype"]] or (di == 0 and also and c["size"] > n * ITEMSIZE[lf["dtype"]])):
                            t = torch.from_file(fp, shared=False, size=n, dtype=ALL_DT[lf["dtype"]])
                            c["cells"] = to_ints(t)
                            break
                out["files"][name] = c
            elif name.endswith(".pickle") or name.endswith(".pkl"):
                try:
                    o = pickle.load(open(fp, "rb"))
                    if name == "other.pickle" and isinstance(o, dict):
                        out["files"][name] = {"pickle": {k: obs_payload(v) for k, v in sorted(o.items()) if k != "_metadata"}}
                    else:
                        out["files"][name] = {"pickle": obs_payload(o)}
                except EXC as e:  # noqa: BLE001
                    out["files"][name] = {"unparsable": type(e).__name__}
            else:
                out["files"][name] = {"size": os.path.getsize(fp)}
        return out
    return walk(root, [])


def normalise_dir(d):
    """drop what is timing-dependent by construction and semantically invisible: the NonTensorData bookkeeping entry
    `_metadata` (json null / pickled dict with a Path / `_is_non_tensor`), an other.pickle left with nothing else in it"""
    out = {"files": {}, "subs": {n: normalise_dir(s) for n, s in d["subs"].items()}}
    for n, c in d["files"].items():
        if n == "meta.json" and "meta" in c and isinstance(c["meta"], dict) and c["meta"].get("_type") == "NonTensorData":
            m = {k: v for k, v in c["meta"].items() if k not in ("_metadata", "_is_non_tensor")}
            out["files"][n] = {"meta": m}
        elif n == "meta.json" and "meta" in c and isinstance(c["meta"], dict) and c["meta"].get("_type") == "NonTensorStack":
            # the device of a NonTensorStack follows the tensordict it was last put in (None / cpu): not part of the property
            out["files"][n] = {"meta": {k: v for k, v in c["meta"].items() if k != "device"}}
        elif n == "other.pickle" and "pickle" in c and isinstance(c["pickle"], dict):
            p = {k: v for k, v in c["pickle"].items() if k not in ("_metadata", "_is_non_tensor")}
            if p:
                out["files"][n] = {"pickle": p}
        else:
            out["files"][n] = c
    return out


def dir_diff(a, b, path=""):
    if set(a["files"]) != set(b["files"]):
        return (path, "files", sorted(set(a["files"]) - set(b["files"])), sorted(set(b["files"]) - set(a["files"])))
    if set(a["subs"]) != set(b["subs"]):
        return (path, "subdirs", sorted(set(a["subs"]) - set(b["subs"])), sorted(set(b["subs"]) - set(a["subs"])))
    for n in a["files"]:
        if a["files"][n] != b["files"][n]:
            return (path + "/" + n, "content", a["files"][n], b["files"][n])
    for n in a["subs"]:
        r = dir_diff(a["subs"][n], b["subs"][n], path + "/" + n)
        if r:
            return r
    return None


# ====================================================================================================== permuting executor
class PermFuture(concurrent.futures.Future):
    """a future of the permuting executor; records who looks at its outcome (the futures a public entry point INSPECTS are
    the futures it collected: `for f in futures: f.result()`)"""

    def _looked_at(self):
        ex = getattr(self, "_perm_exec", None)
        if ex is not None:
            ex.inspected.append(self._perm_idx)
            if not self.done():
                ex.run_until([self])

    def result(self, timeout=None):
        self._looked_at()
        return super().result(timeout)

    def exception(self, timeout=None):
        self._looked_at()
        return super().exception(timeout)


class PermExecutor:
    """stands in for ThreadPoolExecutor inside tensordict.base: submitted tasks are held back and run, in the order given by
    [PermExecutor.order] (a list of submission indices; unlisted ones follow in submission order), when the pool is shut
    down or when somebody waits for one of its futures.  Worker exceptions are recorded (and set on the future)."""
    order = None
    log = None  # list of dicts, one per executor instance of the current call
    wait_log = None  # the lists of futures given to concurrent.futures.wait during the current call, in call order

    def __init__(self, max_workers=None, *a, **k):
        self.tasks = []
        self.errors = []
        self.ran = []
        self.inspected = []   # submission indices whose future had .result() / .exception() called
        self.waited = set()   # submission indices handed to concurrent.futures.wait
        self.max_workers = max_workers
        if PermExecutor.log is not None:
            PermExecutor.log.append(self)

    def submit(self, fn, *args, **kwargs):
        f = PermFuture()
        f._perm_exec = self
        f._perm_idx = len(self.tasks)
        self.tasks.append([len(self.tasks), fn, args, kwargs, f, False])
        return f

    def _rank(self, idx):
        o = PermExecutor.order or []
        return (o.index(idx), idx) if idx in o else (len(o), idx)

    def run_until(self, futures=None):
        while True:
            if futures is not None and all(f.done() for f in futures if getattr(f, "_perm_exec", None) is self):
                return
            pending = [t for t in self.tasks if not t[5]]
            if not pending:
                return
            t = min(pending, key=lambda t: self._rank(t[0]))
            t[5] = True
            self.ran.append(t[0])
            try:
                r = t[1](*t[2], **t[3])
            except BaseException as e:  # noqa: BLE001
                self.errors.append((t[0], type(e).__name__))
                t[4].set_exception(e)
            else:
                t[4].set_result(r)

    def shutdown(self, wait=True, **k):
        self.run_until(None)

    def __enter__(self):
        return self

    def __exit__(self, *a):
        self.shutdown()
        return False


_real_wait = concurrent.futures.wait


def _perm_wait(fs, timeout=None, return_when=concurrent.futures.ALL_COMPLETED):
    fs = list(fs)
    if PermExecutor.wait_log is not None:
        PermExecutor.wait_log.append([f for f in fs if getattr(f, "_perm_exec", None) is not None])
    for f in fs:
        if getattr(f, "_perm_exec", None) is not None:
            f._perm_exec.waited.add(f._perm_idx)
    for ex in {getattr(f, "_perm_exec", None) for f in fs} - {None}:
        ex.run_until(fs)
    return _real_wait(fs, timeout=timeout, return_when=return_when)


@contextlib.contextmanager
def perm_pool(order):
    """tensordict's writer pool replaced by PermExecutor for the duration of one call"""
    saved = {}
    for mod in (_tdbase,):
        if hasattr(mod, "ThreadPoolExecutor"):
            saved[(mod, "ThreadPoolExecutor")] = mod.ThreadPoolExecutor
            mod.ThreadPoolExecutor = PermExecutor
    import tensordict._td as _m1
    import tensordict.tensorclass as _m2
    import tensordict.utils as _m3
    for mod in (_tdbase, _m1, _m2, _m3):
        if getattr(mod, "wait", None) is _real_wait:
            saved[(mod, "wait")] = mod.wait
            mod.wait = _perm_wait
    saved[(concurrent.futures, "wait")] = concurrent.futures.wait
    concurrent.futures.wait = _perm_wait
    PermExecutor.order = list(order) if order is not None else None
    PermExecutor.log = []
    PermExecutor.wait_log = []
    try:
        yield PermExecutor.log
    finally:
        for (mod, name), v in saved.items():
            setattr(mod, name, v)
        PermExecutor.order = None
        PermExecutor.log = None
        PermExecutor.wait_log = None


def task_label(t, root):
    """(kind, relative directory, key) of a submitted task, or None when its shape is not recognised"""
    fn, args, kwargs = t[1], t[2], t[3]
    name = getattr(fn, "__name__", "?")

    def rel(p):
        try:
            r = os.path.relpath(str(p), root)
        except EXC:  # noqa: BLE001
            return None
        return "" if r == "." else r
    try:
        if name == "_populate_memmap":
            return ["populate", rel(kwargs["prefix"]), kwargs["key"]]
        if name == "_save_metadata":
            b = inspect.signature(fn).bind(*args, **kwargs)
            return ["save-meta", rel(b.arguments["prefix"]), ""]
        if name == "save_metadata":
            p = inspect.signature(fn).parameters["prefix"].default
            return ["save-meta", rel(p), ""]
    except EXC:  # noqa: BLE001
        return None
    return None


# ====================================================================================================== one save call
def exc_class(e):
    n = type(e).__name__
    return n if n in ("RuntimeError", "TypeError", "KeyError", "ValueError", "FileNotFoundError", "FileExistsError",
                      "AttributeError", "IndexError", "NotImplementedError", "IsADirectoryError", "NotADirectoryError",
                      "PermissionError") else "other:" + n


def mapping_obs(res, root):
    """the destination mapping: path -> (dtype, shape, file relative to the directory or None, is MemoryMappedTensor)"""
    out = {}

    def walk(x, path):
        k = type_tag(x)
        if k == "leaf":
            fn = getattr(x, "_filename", None)
            out["/".join(path)] = [DT_NAME.get(x.dtype, str(x.dtype)), list(x.shape),
                                   (os.path.relpath(fn, root) if fn else None), isinstance(x, MemoryMappedTensor)]
        elif k == "td":
            for key in x.keys():
                walk(x._get_str(key, None), path + [key])
        elif k == "lazy":
            for i, m in enumerate(x.tensordicts):
                walk(m, path + [str(i)])
        elif k == "tc":
            walk(x._tensordict, path + ["_tensordict"])
    walk(res, [])
    return out


def save_call(desc, api, root, num_threads=0, order=None, real_pool=False, copy_existing=False, existsok=True, side=None,
              subject=None, return_early=False):
    """build the structure (unless given), call the API on it with the (permuting | real) pool; returns the observation.
    return_early: the call returns a TensorDictFuture; its .result() is the outcome of the call"""
    ctx = {"side": side}
    o = {"api": api, "num_threads": num_threads}
    try:
        td = subject if subject is not None else build(desc, ctx)
    except EXC as e:  # noqa: BLE001
        return {"build_error": repr(e)[:300]}, None, None
    kw = {"num_threads": num_threads, "copy_existing": copy_existing}
    if api != "save":
        kw["existsok"] = existsok
    if return_early:
        kw["return_early"] = True
    f = getattr(td, api)
    cm = contextlib.nullcontext([]) if real_pool else perm_pool(order)
    with cm as log:
        handed = None
        try:
            res = f(root, **kw)
            if return_early and hasattr(res, "futures") and hasattr(res, "result"):
                handed = list(res.futures)
                res = res.result()
            o["outcome"] = "ok"
        except EXC as e:  # noqa: BLE001
            res = None
            o["outcome"] = "raise:" + exc_class(e)
            o["exc"] = repr(e)[:300]
        o["pools"] = len(log)
        o["tasks"] = [task_label(t, root) for ex in log for t in ex.tasks]
        o["ran"] = [i for ex in log for i in ex.ran]
        o["worker_errors"] = [list(x) for ex in log for x in ex.errors]
        o["unrun"] = sum(1 for ex in log for t in ex.tasks if not t[5])
        if log:
            # the futures the entry point COLLECTED: the list it finally waits for (`concurrent.futures.wait(futures)` is its
            # last wait; the tensorclass helper waits for its own list earlier) resp. hands to the TensorDictFuture; and the
            # ones it INSPECTS (.result()): the collected ones in order, up to the first that failed
            offs, off, spawned = {}, 0, []
            for ex in log:
                offs[id(ex)] = off
                spawned += [off + t[0] for t in ex.tasks]
                off += len(ex.tasks)
            last = handed if handed is not None else (PermExecutor.wait_log[-1] if PermExecutor.wait_log else [])
            o["spawned"] = spawned
            o["collected"] = [offs[id(fu._perm_exec)] + fu._perm_idx for fu in last if id(getattr(fu, "_perm_exec", None)) in offs]
            o["inspected"] = [offs[id(ex)] + i for ex in log for i in ex.inspected]
            o["waited"] = sorted({offs[id(ex)] + i for ex in log for i in ex.waited})
    return o, td, res


# ====================================================================================================== generators
KEYS = ["a", "b", "c", "obs", "next", "k1", "x y", "a.b", "Key", "0", "meta", "type", "data", "_td"]
RESERVED = ["shape", "device", "_type"]
PAYLOADS = [["s", "hello"], ["s", ""], ["i", 7], ["i", -3], ["b", True], ["n"], ["l", [["i", 1], ["s", "u"]]], ["l", []],
            ["d", [["k", ["i", 1]], ["q", ["l", [["n"], ["b", False]]]]]], ["obj", 1], ["obj", 2], ["l", [["obj", 3], ["i", 0]]]]
# items of a NonTensorStack: no list-valued payloads in the clean stream (finding: tolist()/_from_list confuse them with stack dims)
STACK_PAYLOADS = [p for p in PAYLOADS if p[0] != "l"]


def gen_leaf(rng, bs, quirk=None, allow_mm=True):
    feat = rng.choice([[], [], [1], [2], [3], [2, 2], [1, 3]])
    shape = list(bs) + feat
    dt = rng.choice(list(DTYPES))
    lay = rng.choice(["contig"] * 6 + ["transposed", "strided", "expanded", "grad"] + (["mm-nofile"] if allow_mm and not dt.startswith("complex") else []))
    d = {"k": "leaf", "shape": shape, "dtype": dt, "seed": rng.randrange(0, 40), "layout": lay}
    if lay == "expanded" and (not shape or shape[0] < 1 or dt == "bool"):
        d["layout"] = "contig"
    return d


def gen_td(rng, bs, depth, cfg):
    n = rng.choice([0, 1, 1, 2, 2, 3, 3, 4]) if depth else rng.choice([1, 2, 2, 3, 4, 5])
    keys = rng.sample(KEYS, n)
    ents = []
    for key in keys:
        r = rng.random()
        if depth < cfg["max_depth"] and r < 0.30:
            ents.append([key, gen_node(rng, bs, depth + 1, cfg)])
        else:
            ents.append([key, gen_leaf(rng, bs, allow_mm=cfg.get("allow_mm", True))])
    return {"k": "td", "bs": list(bs), "ents": ents}


def gen_node(rng, bs, depth, cfg):
    """a sub-collection stored under a key of a tensordict with batch size [bs]"""
    r = rng.random()
    kinds = cfg["kinds"]
    if r < 0.45 or depth >= cfg["max_depth"]:
        ext = rng.choice([[], [], [], [2], [1]])
        return gen_td(rng, list(bs) + ext, depth, cfg)
    k = rng.choice(kinds)
    if k == "lazy":
        return gen_lazy(rng, bs, depth, cfg)
    if k == "tc":
        return gen_tc(rng, bs, depth, cfg)
    if k == "ntd":
        return {"k": "ntd", "bs": list(bs), "data": rng.choice(PAYLOADS)}
    if k == "nts" and len(bs) >= 1 and bs[0] > 0:
        return {"k": "nts", "ibs": list(bs[1:]), "items": [rng.choice(STACK_PAYLOADS) for _ in range(bs[0])]}
    return gen_td(rng, bs, depth, cfg)


def gen_lazy(rng, bs, depth, cfg):
    """a lazy stack whose batch size is [bs]: stack dim sd, members of batch size bs without dim sd"""
    if not bs:
        return gen_td(rng, bs, depth, cfg)
    sd = rng.randrange(len(bs))
    n = bs[sd]
    if n == 0:
        return gen_td(rng, bs, depth, cfg)
    mbs = list(bs[:sd]) + list(bs[sd + 1:])
    first = gen_td(rng, mbs, depth + 1, cfg) if rng.random() < 0.85 or depth + 1 >= cfg["max_depth"] else gen_lazy(rng, mbs, depth + 1, cfg)
    members = [first]
    for i in range(1, n):
        if rng.random() < 0.6:
            members.append(reseed(rng, first))
        else:
            m = gen_td(rng, mbs, depth + 1, cfg) if first["k"] == "td" else reseed(rng, first)
            members.append(m)
    return {"k": "lazy", "sd": sd, "members": members}


def restrict(d, n):
    """the descriptor of d[0] along the first n batch dims (leaves / NonTensorData of a plain tensordict)"""
    d = json.loads(json.dumps(d))
    if d["k"] == "leaf":
        d["shape"] = d["shape"][n:]
        if d.get("layout") == "expanded":
            d["layout"] = "contig"
    elif d["k"] in ("ntd", "td"):
        d["bs"] = d["bs"][n:]
        d["ents"] = [[k, restrict(e, n)] for k, e in d.get("ents", [])] if d["k"] == "td" else None
        if d["ents"] is None:
            del d["ents"]
    return d


def reseed(rng, d):
    d = json.loads(json.dumps(d))

    def go(x):
        if x["k"] == "leaf":
            x["seed"] = rng.randrange(0, 40)
        for _, e in x.get("ents", []):
            go(e)
        for m in x.get("members", []):
            go(m)
        if "inner" in x:
            go(x["inner"])
    go(d)
    return d


def gen_tc(rng, bs, depth, cfg, cls=None):
    """a tensorclass instance (decorator form TCA/TCB/TCD, subclass form TCC): tensor fields, non-tensor fields (NonTensorData in
    the inner tensordict), a nested TensorDict (TCB), a nested tensorclass (TCD), Optional fields left None (-> _non_tensordict)"""
    cls = cls or rng.choice(["TCA", "TCB", "TCC", "TCD"])
    x = gen_leaf(rng, bs, allow_mm=False)
    nt = []

    def tag():
        return {"k": "ntd", "bs": list(bs), "data": rng.choice(PAYLOADS[:9])}

    def optional(ents):
        if rng.random() < 0.5:
            ents.append(["y", gen_leaf(rng, bs, allow_mm=False)])
        else:
            nt.append(["y", ["n"]])
    if cls == "TCA":
        ents = [["x", x], ["tag", tag()]]
    elif cls == "TCB":
        ents = [["x", x], ["nest", gen_td(rng, bs, depth + 1, cfg)]]
    elif cls == "TCC":
        ents = [["x", x]]
        optional(ents)
        ents.append(["tag", tag()])
        if rng.random() < 0.3:
            ents.reverse()
    else:
        ents = [["x", x], ["inner_tc", gen_tc(rng, bs, depth + 1, cfg, cls="TCA")]]
        optional(ents)
    inner = {"k": "td", "bs": list(bs), "ents": ents}
    if cls in ("TCA", "TCC") and bs and bs[0] > 0 and rng.random() < 0.15:
        # a stack of tensorclass instances is a tensorclass instance over a lazy stack (what lazy_stack([tc, tc]) builds)
        member = {"k": "td", "bs": list(bs[1:]), "ents": [[k, restrict(e, 1)] for k, e in ents]}
        inner = {"k": "lazy", "sd": 0, "members": [member] + [reseed(rng, member) for _ in range(bs[0] - 1)]}
    d = {"k": "tc", "cls": cls, "inner": inner}
    if nt:
        d["nt"] = nt
    return d


BATCHES = [[], [], [1], [2], [2], [3], [2, 1], [2, 3], [1, 2], [3, 2]]


def gen_structure(rng, cfg=None):
    cfg = cfg or {"max_depth": 3, "kinds": ["lazy", "tc", "ntd", "nts", "td"]}
    bs = rng.choice(BATCHES)
    r = rng.random()
    if r < 0.75:
        return gen_td(rng, bs, 0, cfg)
    if r < 0.87 and bs:
        return gen_lazy(rng, bs, 0, cfg)
    if r < 0.95:
        return gen_tc(rng, bs, 0, cfg)
    return gen_td(rng, bs, 0, cfg)


def walk_desc(d, f, path=()):
    f(d, path)
    for key, e in d.get("ents", []):
        walk_desc(e, f, path + (key,))
    for i, m in enumerate(d.get("members", [])):
        walk_desc(m, f, path + (str(i),))
    if "inner" in d:
        walk_desc(d["inner"], f, path + ("_tensordict",))


def features(d):
    """decidable patterns of a structure: used for the input histogram, finding signatures and the model's domain"""
    ft = {"zero_size_leaf": False, "reserved_key": False, "tuple_payload": False, "set_payload": False, "unsupported_dtype": False,
          "ntd_bs_differs": False, "mm_elsewhere": False, "nts_list_payload": False, "slash_key": False, "kinds": set(), "leaves": 0, "nodes": 0, "depth": 0,
          "dtypes": set(), "layouts": set()}

    def f(x, path):
        ft["kinds"].add(x["k"])
        ft["depth"] = max(ft["depth"], len(path))
        if x["k"] == "leaf":
            ft["leaves"] += 1
            ft["dtypes"].add(x["dtype"])
            ft["layouts"].add(x.get("layout", "contig"))
            if numel(x["shape"]) == 0:
                ft["zero_size_leaf"] = True
            if x["dtype"] in UNSUPPORTED:
                ft["unsupported_dtype"] = True
            if x.get("layout") == "mm-elsewhere":
                ft["mm_elsewhere"] = True
        else:
            ft["nodes"] += 1
        if x["k"] == "td":
            for key, e in x["ents"]:
                if key in RESERVED:
                    ft["reserved_key"] = True
                if "/" in key:
                    ft["slash_key"] = True
                if e["k"] == "ntd" and e["bs"] != x["bs"]:
                    ft["ntd_bs_differs"] = True
        if x["k"] == "nts" and any(p[0] == "l" for p in x["items"]):
            ft["nts_list_payload"] = True
        for p in ([x["data"]] if x["k"] == "ntd" else x.get("items", [])):
            if payload_has(p, "tu"):
                ft["tuple_payload"] = True
            if payload_has(p, "set"):
                ft["set_payload"] = True
    walk_desc(d, f)
    return ft


def n_tasks(d, root_is_collection=True):
    """number of tasks the writer pool receives (one per leaf, one per metadata file)"""
    n = [0]

    def f(x, path):
        if x["k"] in ("leaf", "td", "lazy", "tc", "nts"):
            n[0] += 1
        if x["k"] == "ntd":
            n[0] += 1
    walk_desc(d, f)
    return n[0]


# ====================================================================================================== quirks (defect regions)
QUIRKS = ["zero-size", "reserved-key", "tuple-payload", "set-payload", "nts-list-payload", "ntd-bs", "float8"]


def td_nodes(d):
    """plain tensordict nodes that accept a new entry (the field set of a tensorclass is fixed)"""
    out, inner = [], []

    def fixed(x):
        # the tensordict of a tensorclass instance; over a lazy stack: every member
        inner.append(id(x))
        for m in x.get("members", []):
            fixed(m)
    walk_desc(d, lambda x, p: fixed(x["inner"]) if x["k"] == "tc" else None)
    walk_desc(d, lambda x, p: out.append(x) if x["k"] == "td" and id(x) not in inner else None)
    return out


def inject(rng, d, quirk):
    """put exactly one instance of a known-defect pattern into a clean structure; returns False if there is no place for it"""
    nodes = td_nodes(d)
    if not nodes:
        return False
    nd = rng.choice(nodes)
    used = {k for k, _ in nd["ents"]}
    free = [k for k in KEYS if k not in used]
    if not free:
        return False
    key = rng.choice(free)
    bs = nd["bs"]
    if quirk == "zero-size":
        nd["ents"].append([key, {"k": "leaf", "shape": list(bs) + rng.choice([[0], [0, 2], [2, 0]]), "dtype": rng.choice(list(DTYPES)),
                                 "seed": 0, "layout": "contig"}])
    elif quirk == "reserved-key":
        rk = rng.choice([k for k in RESERVED if k not in used])
        e = gen_leaf(rng, bs, allow_mm=False) if rng.random() < 0.7 else {"k": "td", "bs": list(bs), "ents": [["a", gen_leaf(rng, bs, allow_mm=False)]]}
        nd["ents"].append([rk, e])
    elif quirk == "tuple-payload":
        nd["ents"].append([key, {"k": "ntd", "bs": list(bs), "data": rng.choice([["tu", [["i", 1], ["s", "a"]]], ["l", [["tu", []]]],
                                                                                 ["d", [["k", ["tu", [["n"]]]]]]])}])
    elif quirk == "set-payload":
        nd["ents"].append([key, {"k": "ntd", "bs": list(bs), "data": rng.choice([["set", [["i", 1], ["i", 2]]], ["l", [["set", []]]]])}])
    elif quirk == "nts-list-payload":
        if not bs or bs[0] == 0:
            return False
        items = [rng.choice([["l", [["i", 1], ["s", "u"]]], ["l", []], ["l", [["i", 5]]]]) for _ in range(bs[0])]
        nd["ents"].append([key, {"k": "nts", "ibs": list(bs[1:]), "items": items}])
    elif quirk == "ntd-bs":
        nd["ents"].append([key, {"k": "ntd", "bs": list(bs) + [2], "data": ["s", "wide"]}])
    elif quirk == "float8":
        nd["ents"].append([key, {"k": "leaf", "shape": list(bs) + [2], "dtype": rng.choice(list(UNSUPPORTED)), "seed": 1, "layout": "contig"}])
    else:
        raise ValueError(quirk)
    return True


def add_elsewhere(rng, d):
    """make one or two leaves already memory-mapped in another directory"""
    leaves = []
    walk_desc(d, lambda x, p: leaves.append(x) if x["k"] == "leaf" and numel(x["shape"]) > 0 else None)
    if not leaves:
        return False
    for lf in rng.sample(leaves, min(len(leaves), rng.choice([1, 1, 2]))):
        lf["layout"] = "mm-elsewhere"
    return True


def gen_fault_structure(rng):
    """small structures for the fault-injection stream (every site of each is visited): most hold a tensorclass entry
    (decorator / subclass form, nested, over a lazy stack, with Optional and non-tensor fields) next to plain leaves,
    nested tensordicts, lazy stacks, NonTensorData / NonTensorStack"""
    cfg = {"max_depth": 2, "kinds": ["tc", "lazy", "ntd", "nts", "td"]}
    d = None
    for _ in range(40):
        r = rng.random()
        bs = rng.choice(BATCHES)
        if r < 0.2:
            d = gen_tc(rng, bs, 0, cfg)
        elif r < 0.3 and bs:
            d = gen_lazy(rng, bs, 0, cfg)
        else:
            d = gen_td(rng, bs, 0, cfg)
            if r < 0.75 and "tc" not in features(d)["kinds"]:
                free = [k for k in KEYS if k not in {kk for kk, _ in d["ents"]}]
                d["ents"].insert(rng.randrange(len(d["ents"]) + 1), [rng.choice(free), gen_tc(rng, bs, 1, cfg)])
        ft = features(d)
        if 1 <= ft["leaves"] <= 6 and n_tasks(d) <= 14:
            return d
    return d


# ====================================================================================================== the save stream
def full_obs(desc, api, nt, order, real_pool, copy_existing, keep=False, pre=None, also=(), existsok=True, return_early=False,
             prepare=None):
    """one call on a fresh directory (or on [pre], a directory that already has content); everything the checks look at.
    prepare(root): puts the obstacles of a fault-injection case into the fresh directory before the call"""
    root = pre or tempfile.mkdtemp(prefix="c10-")
    side = tempfile.mkdtemp(prefix="c10s-")
    res = None
    try:
        if prepare is not None:
            prepare(root)
        o, td, res = save_call(desc, api, root, num_threads=nt, order=order, real_pool=real_pool, copy_existing=copy_existing, side=side,
                               existsok=existsok, return_early=return_early)
        if "build_error" in o:
            return o, None, None
        try:
            o["dir"] = normalise_dir(read_dir(root, desc, cells=(api != "memmap_like"), also=also))
        except EXC as e:  # noqa: BLE001
            o["dir"] = {"unreadable": repr(e)[:200]}
        if o["outcome"] == "ok":
            try:
                o["result"] = observe(res, values=(api != "memmap_like"))
                o["mapping"] = mapping_obs(res, root)
                o["flags"] = {"is_memmap": bool(res.is_memmap()), "is_locked": bool(res.is_locked), "same_object": res is td}
            except EXC as e:  # noqa: BLE001
                o["result"] = {"unobservable": exc_class(e), "msg": repr(e)[:200]}
            try:
                ld = TensorDict.load_memmap(root)
                o["loaded"] = observe(ld, values=(api != "memmap_like"))
            except EXC as e:  # noqa: BLE001
                o["loaded"] = {"raise": exc_class(e), "msg": repr(e)[:200]}
        return o, (root if keep else None), (res if keep else None)
    finally:
        shutil.rmtree(side, ignore_errors=True)
        if not keep and pre is None:
            shutil.rmtree(root, ignore_errors=True)


CMP_FIELDS = ("outcome", "dir", "result", "mapping", "flags", "loaded")


def order_diff(ref, o):
    """first observable in which a (threaded / permuted) run differs from the sequential one"""
    if ref["outcome"] != o["outcome"]:
        return ("outcome", ref["outcome"], o["outcome"])
    if ref["outcome"] != "ok":
        return None
    for f in CMP_FIELDS[1:]:
        a, b = ref.get(f), o.get(f)
        if f == "mapping" and a is not None and b is not None:
            a, b = dict(sorted(a.items())), dict(sorted(b.items()))
        if a != b:
            if f == "dir" and "files" in a and "files" in b:
                return ("dir",) + tuple(dir_diff(a, b) or ())
            if f in ("result", "loaded") and "k" in a and "k" in b:
                return (f,) + tuple(obs_diff(a, b) or ())
            return (f, a, b)
    return None


def orders_for(rng, n, quick, exhaustive_upto=5, allow5=False):
    """completion orders for n tasks: all of them for n <= 5, else identity, reverse, rotations and random ones"""
    if n <= 1:
        return [list(range(n))], True
    if n <= exhaustive_upto and (not quick or n <= 4 or allow5):
        return [list(p) for p in itertools.permutations(range(n))], True
    out = [list(range(n)), list(range(n - 1, -1, -1)), list(range(1, n)) + [0], [n - 1] + list(range(n - 1))]
    for _ in range(3 if quick else 20):
        p = list(range(n))
        rng.shuffle(p)
        out.append(p)
    return out, False


def node_at(d, path):
    """descriptor node at an observation path ('/a/0/_tensordict/b'), or None"""
    cur = d
    for name in [p for p in path.split("/") if p]:
        k = cur["k"]
        if k == "tc" and name == "_tensordict":
            cur = cur["inner"]
        elif k == "lazy" and name.isdigit() and int(name) < len(cur["members"]):
            cur = cur["members"][int(name)]
        elif k == "td":
            for kk, e in cur["ents"]:
                if kk == name:
                    cur = e
                    break
            else:
                return None
        else:
            return None
    return cur


def tuples_to_lists(p):
    if p[0] in ("l", "tu"):
        return ["l", [tuples_to_lists(x) for x in p[1]]]
    if p[0] == "d":
        return ["d", [[k, tuples_to_lists(v)] for k, v in p[1]]]
    return p


def classify(case, label, detail):
    """the decidable input/failure pattern of an oracle failure (signature of findings; 'none' = not a known pattern)"""
    desc = case["desc"]
    ft = features(desc)
    d = detail or {}
    what, path = d.get("what"), d.get("path", "")
    if label in ("loaded-differs", "result-differs"):
        nd = node_at(desc, path)
        if what == "keys" and nd is not None and nd["k"] == "td" and not d.get("loaded", d.get("result")):
            missing = d.get("original") or []
            ents = dict((k, e) for k, e in nd["ents"])
            if missing and all(m in RESERVED for m in missing):
                return "entry-named-like-a-metadata-field"
            if label == "loaded-differs" and missing and all(ents[m]["k"] == "leaf" and numel(ents[m]["shape"]) == 0 for m in missing if m in ents):
                return "zero-size-leaf"
        if what == "payload" and ft["tuple_payload"] and nd is not None and nd["k"] == "ntd":
            if canon_payload(tuples_to_lists(nd["data"])) == d.get("loaded", d.get("result")):
                return "tuple-payload-becomes-list"
        if what == "batch-size" and nd is not None and nd["k"] == "ntd" and ft["ntd_bs_differs"]:
            return "non-tensor-batch-size-wider-than-parent"
        if nd is not None and nd["k"] == "nts" and any(p[0] == "l" for p in nd["items"]):
            return "non-tensor-stack-of-lists"
    if label == "load-raises":
        if ft["unsupported_dtype"] and d.get("raise") == "KeyError":
            return "dtype-missing-from-string-table"
        if ft["nts_list_payload"]:
            return "non-tensor-stack-of-lists"
    if label == "loaded-differs" and case.get("stream") == "resave":
        # stale content of the directory the structure was saved over
        if what == "members" and isinstance(d.get("loaded"), int) and d["loaded"] > d.get("original", 0):
            first = node_at(case["first"], path)
            if first is not None and first["k"] == "lazy" and len(first["members"]) == d["loaded"]:
                return "stale-lazy-members"
        if what == "payload":
            first = node_at(case["first"], path)
            if first is not None and first["k"] == "ntd" and payload_has(first["data"], "obj") and canon_payload(first["data"]) == d.get("loaded"):
                return "stale-pickle"
    if label == "save-raises" and ft["set_payload"] and d.get("outcome") == "raise:TypeError":
        return "set-payload"
    if d.get("return_early") and (d.get("worker_errors") or d.get("real_pool_and_sequential_raises")) and (
            (label == "threads-differ-from-sequential" and d.get("differs") == "outcome" and d.get("swallowed"))
            or label in ("returns-normally-with-a-file-missing", "worker-exception-unreported")):
        # TensorDictFuture.result() waits for the futures it was given and never looks at their outcome (D110, repaired:
        # no known-finding entry carries this pattern any more, a recurrence is a violation)
        return "worker-exception-swallowed-by-TensorDictFuture.result"
    if label == "threads-differ-from-sequential" and d.get("differs") == "outcome" and d.get("swallowed"):
        return "worker-exception-swallowed"
    return "none"


def quirk_sig(case, label, detail=None):
    """signature of an oracle failure: the public call, the check that failed, and the decidable pattern"""
    return {"call": case["api"], "check": label, "pattern": classify(case, label, detail), "threads": case.get("num_threads", 0) > 1}


def fail(R, prefix, label, case, detail):
    R.oracle_fail(prefix + label, case, detail, quirk_sig(case, label, detail))


def check_roundtrip(R, case, o, prefix=""):
    """O1/O3: the loaded tensordict and the returned tensordict equal the original (model independent)"""
    desc, api = case["desc"], case["api"]
    like = api == "memmap_like"
    exp = expected(desc, values=not like)
    if o["outcome"] != "ok":
        fail(R, prefix, "save-raises", case, {"outcome": o["outcome"], "exc": o.get("exc")})
        return
    ld = o.get("loaded")
    if "raise" in ld:
        fail(R, prefix, "load-raises", case, ld)
    else:
        df = obs_diff(exp, ld)
        if df:
            fail(R, prefix, "loaded-differs", case, {"path": df[0], "what": df[1], "original": df[2], "loaded": df[3]})
    rs = o.get("result")
    if "unobservable" in rs:
        fail(R, prefix, "result-unobservable", case, rs)
    else:
        df = obs_diff(exp, rs)
        if df:
            fail(R, prefix, "result-differs", case, {"path": df[0], "what": df[1], "original": df[2], "result": df[3]})
    if not o["flags"]["is_memmap"] and desc["k"] in ("td", "tc"):
        fail(R, prefix, "not-memmap", case, o["flags"])
    if api == "memmap_" and not o["flags"]["same_object"]:
        fail(R, prefix, "not-inplace", case, o["flags"])


def save_case(R, case, model_q):
    return guarded(R, "save:", case, _save_case, model_q)


def _save_case(R, case, model_q):
    """sequential reference + every chosen (num_threads, order); registers failures on R"""
    desc, api, ce = case["desc"], case["api"], case["copy_existing"]
    ft = features(desc)
    expect_refusal = ft["mm_elsewhere"] and not ce and api != "memmap_like"
    ref, _, _ = full_obs(desc, api, 0, None, False, ce)
    if ft["reserved_key"]:
        # contract since the D102 repair: an entry named like a field of meta.json ("shape", "device", "_type") is refused
        # with a ValueError when saving, by every front-end, with or without a pool
        if ref.get("outcome") != "raise:ValueError":
            fail(R, "save:", "reserved-name-not-refused", dict(case, num_threads=0, order=None), {"outcome": ref.get("outcome")})
        expect_refusal = True
    if "build_error" in ref:
        raise RuntimeError("machinery: cannot build " + json.dumps(desc)[:300] + " :: " + ref["build_error"])
    R.traces += 1
    c0 = dict(case, num_threads=0, order=None)
    c0.pop("runs", None)
    if expect_refusal:
        # documented contract: an entry stored on disk elsewhere is refused unless copy_existing=True (and see above)
        if ref["outcome"] == "ok":
            fail(R, "save:", "elsewhere-not-refused", c0, {"outcome": ref["outcome"]})
    else:
        check_roundtrip(R, c0, ref, "save:")
    model_q.append(("save", c0, ref))
    for nt, order, real in case["runs"]:
        o, _, _ = full_obs(desc, api, nt, order, real, ce)
        R.traces += 1
        c = dict(case, num_threads=nt, order=order, real_pool=real)
        c.pop("runs", None)
        R.count("threads:" + str(nt) + (":real" if real else ""))
        if o.get("unrun"):
            fail(R, "save:", "task-never-run", c, {"unrun": o["unrun"]})
        df = order_diff(ref, o)
        if df is not None:
            detail = {"differs": df[0], "sequential": df[1] if len(df) > 1 else None, "this_run": list(df[2:]) if len(df) > 2 else None,
                      "worker_errors": o.get("worker_errors"), "tasks": o.get("tasks"),
                      "swallowed": bool(o["outcome"] == "ok" and ref["outcome"] != "ok" and (o.get("worker_errors") or real))}
            fail(R, "save:", "threads-differ-from-sequential", c, detail)
        elif o.get("worker_errors") and o["outcome"] == "ok":
            fail(R, "save:", "worker-exception-unreported", c, {"worker_errors": o["worker_errors"]})
        if not real and nt > 1 and o["outcome"] == "ok" and o.get("pools") and not o.get("worker_errors"):
            model_q.append(("perm", c, o))


# ====================================================================================================== fault injection
def fault_sites(desc):
    """where a writer task can be made to fail: ('leaf', dir path, key, descriptor) for every tensor with elements,
    ('meta', dir path, kind) for every node that writes a meta.json — both in submission order of the tasks"""
    leaves, metas = [], []

    def walk(x, path):
        k = x["k"]
        if k == "td":
            for key, e in x["ents"]:
                if e["k"] == "leaf":
                    if numel(e["shape"]) > 0:
                        leaves.append((tuple(path), key, e))
                else:
                    walk(e, path + [key])
            metas.append((tuple(path), k))
        elif k == "lazy":
            metas.append((tuple(path), k))
            for i, m in enumerate(x["members"]):
                walk(m, path + [str(i)])
        elif k == "tc":
            metas.append((tuple(path), k))
            walk(x["inner"], path + ["_tensordict"])
        elif k in ("ntd", "nts"):
            metas.append((tuple(path), k))
    walk(desc, [])
    return leaves, metas


def apply_faults(desc, faults):
    """(descriptor with the 'elsewhere' faults applied, prepare(root) creating the obstacles, copy_existing, existsok)"""
    d = json.loads(json.dumps(desc))
    leaves, metas = fault_sites(d)
    mk_files, mk_dirs = [], []
    existsok = True
    for f in faults:
        if f["kind"] == "elsewhere":
            leaves[f["site"]][2]["layout"] = "mm-elsewhere"
        elif f["kind"] == "exists":
            path, key, e = leaves[f["site"]]
            mk_files.append((os.path.join(*path, key + ".memmap") if path else key + ".memmap", numel(e["shape"]) * ITEMSIZE[e["dtype"]]))
            existsok = False
        elif f["kind"] == "metadir":
            path, _ = metas[f["site"]]
            mk_dirs.append(os.path.join(*path, "meta.json") if path else "meta.json")
        else:
            raise ValueError(f)

    def prepare(root):
        for rel, size in mk_files:
            fp = os.path.join(root, rel)
            os.makedirs(os.path.dirname(fp), exist_ok=True)
            with open(fp, "wb") as fh:
                fh.write(b"\0" * size)
        for rel in mk_dirs:
            os.makedirs(os.path.join(root, rel), exist_ok=True)
    return d, prepare, existsok


def fault_target(desc, f):
    """(directory path, file) the fault is about — what the model is told"""
    leaves, metas = fault_sites(desc)
    if f["kind"] == "metadir":
        return list(metas[f["site"]][0]), "meta"
    path, key, _ = leaves[f["site"]]
    return list(path), key


def missing_files(d, path=""):
    """entries a meta.json of a TensorDict directory describes as tensors with elements whose file is not there"""
    out = []
    m = d["files"].get("meta.json", {}).get("meta")
    if isinstance(m, dict) and m.get("_type") == "TensorDict":
        for k, r in m.items():
            if isinstance(r, dict) and "dtype" in r and "shape" in r and numel(r["shape"]) > 0 and k + ".memmap" not in d["files"]:
                out.append(path + "/" + k + ".memmap")
    for n, sdir in d["subs"].items():
        out += missing_files(sdir, path + "/" + n)
    return out


def fault_case(R, case, model_q):
    return guarded(R, "fault:", case, _fault_case, model_q)


def _fault_case(R, case, model_q):
    """the property's 'single-threaded form = threaded form' under a provoked writer failure: both raise (same exception
    class) or both succeed with equal directory, result and loaded tensordict; never 'returns normally with a file missing'"""
    api, faults = case["api"], case["faults"]
    desc, prepare, existsok = apply_faults(case["desc"], faults)
    ce = False
    kw = {"existsok": existsok, "prepare": prepare}
    ref, _, _ = full_obs(desc, api, 0, None, False, ce, **kw)
    if "build_error" in ref:
        raise RuntimeError("machinery: cannot build " + json.dumps(desc)[:300] + " :: " + ref["build_error"])
    R.traces += 1
    R.count("fault:sequential:" + ("raises" if ref["outcome"] != "ok" else "ok"))
    if ref["outcome"] == "ok" and any(f["kind"] == "exists" for f in faults):
        # documented contract of existsok=False: "an exception will be raised if a tensor already exists in the same path"
        fail(R, "fault:", "existing-file-not-refused", dict(case, num_threads=0, order=None, existsok=existsok), {"outcome": ref["outcome"]})
    c0 = dict(case, desc=desc, base=case["desc"], num_threads=0, order=None, existsok=existsok, copy_existing=ce)
    c0.pop("runs", None)
    if ref["outcome"] == "ok":
        # the obstacle did not stop this entry point (memmap_like replaces every tensor first): then the save is a save
        check_roundtrip(R, c0, ref, "fault:")
        if "files" in ref.get("dir", {}) and not any(f["kind"] == "metadir" for f in faults):
            model_q.append(("save", c0, ref))
    model_q.append(("fault", c0, ref))
    for nt, order, real, early in case["runs"]:
        o, _, _ = full_obs(desc, api, nt, order, real, ce, return_early=early, **kw)
        R.traces += 1
        c = dict(c0, num_threads=nt, order=order, real_pool=real, return_early=early)
        R.count("fault:threads:" + str(nt) + (":real" if real else "") + (":return_early" if early else ""))
        if o.get("unrun"):
            fail(R, "fault:", "task-never-run", c, {"unrun": o["unrun"]})
        df = order_diff(ref, o)
        if df is not None:
            detail = {"differs": df[0], "sequential": df[1] if len(df) > 1 else None, "this_run": list(df[2:]) if len(df) > 2 else None,
                      "worker_errors": o.get("worker_errors"), "tasks": o.get("tasks"), "collected": o.get("collected"),
                      "swallowed": bool(o["outcome"] == "ok" and ref["outcome"] != "ok" and (o.get("worker_errors") or real)),
                      "return_early": bool(early), "real_pool_and_sequential_raises": bool(real and ref["outcome"] != "ok")}
            fail(R, "fault:", "threads-differ-from-sequential", c, detail)
        elif o.get("worker_errors") and o["outcome"] == "ok":
            fail(R, "fault:", "worker-exception-unreported", c, {"worker_errors": o["worker_errors"], "return_early": bool(early)})
        if o["outcome"] == "ok" and "files" in o.get("dir", {}):
            mf = missing_files(o["dir"])
            if mf:
                fail(R, "fault:", "returns-normally-with-a-file-missing", c,
                     {"missing": mf, "worker_errors": o.get("worker_errors"), "sequential": ref["outcome"], "return_early": bool(early),
                      "real_pool_and_sequential_raises": bool(real and ref["outcome"] != "ok")})
        if not real and nt > 1 and o.get("pools"):
            model_q.append(("fault-pool", c, o))


def plan_fault_runs(rng, desc, quick):
    """(num_threads, order, real pool, return_early): no pool (1), the permuting pool under identity / reverse / random
    completion orders with 2 and 4 threads, with and without return_early, and the real pool"""
    n = n_tasks(desc)
    ident, rev = list(range(n)), list(range(n - 1, -1, -1))
    rnd = list(range(n))
    rng.shuffle(rnd)
    runs = [(1, None, False, False), (2, ident, False, False), (4, rev, False, False), (2, rnd, False, True), (4, ident, False, True)]
    if not quick:
        rnd2 = list(range(n))
        rng.shuffle(rnd2)
        runs += [(4, rnd2, False, False), (2, rev, False, True), (2, None, True, False), (4, None, True, True)]
    elif rng.random() < 0.34:
        runs.append((2, None, True, rng.random() < 0.5))
    return runs


def gen_fault_cases(rng, desc, quick, counter):
    """every leaf position and every metadata file of the structure in turn, one obstacle each; entry points and obstacle
    kinds rotate so that each (entry point, kind) pair is met evenly; a few cases carry two obstacles of different
    exception classes (which one surfaces must not depend on the threads either)"""
    leaves, metas = fault_sites(desc)
    combos_leaf = [(a, k) for k in ("elsewhere", "exists") for a in ("memmap", "memmap_", "save", "memmap_like") if not (k == "exists" and a == "save")]
    combos_meta = [(a, "metadir") for a in ("memmap", "memmap_", "save", "memmap_like")]
    out = []
    for kind_sites, combos in ((leaves, combos_leaf), (metas, combos_meta)):
        for i in range(len(kind_sites)):
            chosen = combos if not quick else [combos[(counter[0] + j) % len(combos)] for j in range(2)]
            counter[0] += 3
            for api, kind in chosen:
                out.append({"stream": "fault", "desc": desc, "api": api, "faults": [{"kind": kind, "site": i}]})
    if leaves and metas and rng.random() < (0.5 if quick else 1.0):
        api = rng.choice(["memmap", "memmap_", "save"])
        out.append({"stream": "fault", "desc": desc, "api": api,
                    "faults": [{"kind": "elsewhere", "site": rng.randrange(len(leaves))}, {"kind": "metadir", "site": rng.randrange(len(metas))}]})
    for c in out:
        c["runs"] = plan_fault_runs(rng, desc, quick)
    return out


# ====================================================================================================== live view
def bump(d, k):
    d = json.loads(json.dumps(d))

    def go(x, p):
        if x["k"] == "leaf":
            x["seed"] = x["seed"] + k
            x["layout"] = "contig"
    walk_desc(d, go)
    return d


class StructureMismatch(Exception):
    """the object handed to the harness does not have the structure of its descriptor (an observation about the code)"""


def write_through(x, d):
    """in-place write of the content of descriptor [d] through the (memory-mapped) tensordict x; returns number of leaves written"""
    k = d["k"]
    n = 0
    if type_tag(x) != k and k in ("td", "lazy", "tc"):
        raise StructureMismatch(f"expected a {k}, found {type_tag(x)}")
    if k == "lazy" and len(x.tensordicts) != len(d["members"]):
        raise StructureMismatch(f"expected {len(d['members'])} members, found {len(x.tensordicts)}")
    if k == "td":
        for key, e in d["ents"]:
            if e["k"] == "leaf":
                if numel(e["shape"]):
                    if x._get_str(key, None) is None:
                        raise StructureMismatch(f"entry {key!r} is missing")
                    x.set_(key, make_plain(e))
                    n += 1
            else:
                n += write_through(x._get_str(key, None), e)
    elif k == "lazy":
        for m, dm in zip(x.tensordicts, d["members"]):
            n += write_through(m, dm)
    elif k == "tc":
        n += write_through(x._tensordict, d["inner"])
    return n


def _child(conn, root, blob, desc2):
    """body of the forked / spawned reader-writer: observe the directory through a fresh load and through the pickled
    mapping, then write desc2's content in place through the fresh load"""
    try:
        torch.set_num_threads(1)
        out = {}
        ld = TensorDict.load_memmap(root)
        out["loaded"] = observe(ld)
        if blob is not None:
            out["unpickled"] = observe(pickle.loads(blob))
        if desc2 is not None:
            out["written"] = write_through(ld, desc2)
        conn.send(out)
    except BaseException as e:  # noqa: BLE001
        conn.send({"child_error": repr(e)[:300], "tb": traceback.format_exc()[-600:]})
    finally:
        conn.close()


@contextlib.contextmanager
def _hidden_main():
    """spawn re-imports the parent's __main__ (harness.main calls main() at import): hide it while the child starts"""
    m = sys.modules["__main__"]
    saved = (getattr(m, "__spec__", None), getattr(m, "__file__", None))
    try:
        m.__spec__ = None
        if hasattr(m, "__file__"):
            del m.__file__
        yield
    finally:
        m.__spec__ = saved[0]
        if saved[1] is not None:
            m.__file__ = saved[1]


def in_child(method, root, blob, desc2, timeout=120):
    import multiprocessing as mp
    ctx = mp.get_context(method)
    a, b = ctx.Pipe(duplex=False)
    p = ctx.Process(target=_child, args=(b, root, blob, desc2), daemon=True)
    with (_hidden_main() if method == "spawn" else contextlib.nullcontext()):
        p.start()
    b.close()
    try:
        if a.poll(timeout):
            out = a.recv()
        else:
            out = {"child_timeout": True}
    except EOFError:
        out = {"child_error": "child died"}
    p.join(10)
    if p.is_alive():
        p.kill()
    return out


def guarded(R, prefix, case, f, *a):
    """an unexpected exception of the code under test is an observation (an oracle failure), never a crash of the check"""
    try:
        return f(R, case, *a)
    except EXC as e:  # noqa: BLE001
        tb = traceback.extract_tb(e.__traceback__)
        where = [f"{os.path.basename(fr.filename)}:{fr.lineno}:{fr.name}" for fr in tb][-4:]
        if not isinstance(e, StructureMismatch) and not any("tensordict" in fr.filename or "torch" in fr.filename for fr in tb):
            raise          # the machinery itself
        fail(R, prefix, "unexpected-exception", case, {"exc": repr(e)[:300], "where": where})
        return None


def live_case(R, case):
    return guarded(R, "live:", case, _live_case)


def _live_case(R, case):
    """a memory-mapped tensordict is a live view of its files (same process / later load / child processes)"""
    desc, api, child = case["desc"], case["api"], case.get("child")
    root = tempfile.mkdtemp(prefix="c10l-")
    side = tempfile.mkdtemp(prefix="c10s-")
    try:
        o, td, res = save_call(desc, api, root, num_threads=case.get("num_threads", 0), order=case.get("order"), side=side, copy_existing=True)
        if o.get("outcome") != "ok":
            fail(R, "live:", "save-raises", case, {"outcome": o.get("outcome"), "exc": o.get("exc")})
            return
        R.traces += 1
        before = TensorDict.load_memmap(root)          # a second mapping of the same files, made before the write
        d1 = bump(desc, 5)
        n = write_through(res, d1)                      # in-place write through the first mapping
        exp1 = expected(d1)
        for name, x in (("writer", res), ("other-mapping", before), ("later-load", TensorDict.load_memmap(root))):
            df = obs_diff(exp1, observe(x))
            if df:
                fail(R, "live:", "write-not-seen:" + name, case, {"path": df[0], "what": df[1], "written": df[2], "read": df[3]})
        # the other direction: write through the second mapping, read through the first
        d2 = bump(desc, 11)
        write_through(before, d2)
        df = obs_diff(expected(d2), observe(res))
        if df:
            fail(R, "live:", "write-not-seen:first-mapping", case, {"path": df[0], "what": df[1], "written": df[2], "read": df[3]})
        if api == "memmap_like":
            return
        if child:
            d3 = bump(desc, 17)
            try:
                blob = pickle.dumps(res)
            except EXC as e:  # noqa: BLE001
                fail(R, "live:", "pickle-raises", case, {"exc": repr(e)[:200]})
                blob = None
            out = in_child(child, root, blob, d3)
            if out.get("child_error") == "child died":
                # a child killed by the machine (memory pressure) is not a verdict: once more, from the same state
                write_through(before, d2)
                out = in_child(child, root, blob, d3)
            R.count("child:" + child)
            if "child_timeout" in out:
                R.count("child:timeout")  # a slow machine is not a verdict
                return
            if "child_error" in out:
                fail(R, "live:", "child-failed:" + child, case, out)
                return
            for name in ("loaded", "unpickled"):
                if name in out:
                    df = obs_diff(expected(d2), out[name])
                    if df:
                        fail(R, "live:", f"child-read-differs:{child}:{name}", case, {"path": df[0], "what": df[1], "written": df[2], "read": df[3]})
            # the child wrote d3 in place through its own mapping: this process must see it through both of its mappings
            for name, x in (("first-mapping", res), ("second-mapping", before)):
                df = obs_diff(expected(d3), observe(x))
                if df:
                    fail(R, "live:", f"child-write-not-seen:{child}:{name}", case, {"path": df[0], "what": df[1], "written": df[2], "read": df[3]})
    finally:
        shutil.rmtree(root, ignore_errors=True)
        shutil.rmtree(side, ignore_errors=True)


# ====================================================================================================== resave (stale files)
def mutate(rng, d):
    """a second structure to be saved over the directory of the first: derived from it so that stale files matter"""
    d = reseed(rng, d)
    kind = rng.choice(["drop", "retype", "shrink-lazy", "swap-payload", "leaf<->node", "fresh"])
    nodes = td_nodes(d)
    if kind == "drop" and nodes:
        nd = rng.choice(nodes)
        if nd["ents"]:
            nd["ents"].pop(rng.randrange(len(nd["ents"])))
    elif kind == "retype":
        leaves = []
        walk_desc(d, lambda x, p: leaves.append(x) if x["k"] == "leaf" else None)
        for lf in rng.sample(leaves, min(2, len(leaves))):
            lf["dtype"] = rng.choice(list(DTYPES))
            lf["layout"] = "contig"
            if rng.random() < 0.5:
                lf["shape"] = lf["shape"] + [rng.choice([1, 2, 3])]
    elif kind == "shrink-lazy":
        if d["k"] != "lazy" or len(d["members"]) < 2:
            d = gen_lazy(rng, rng.choice([[2], [3], [2, 2], [3, 1]]), 0, {"max_depth": 2, "kinds": ["td", "ntd", "lazy"]})
        if d["k"] == "lazy" and len(d["members"]) > 1:
            # the first save gets MORE members than the second: the caller swaps the two
            kind = "shrink-lazy!"
    elif kind == "swap-payload":
        nts = []
        walk_desc(d, lambda x, p: nts.append(x) if x["k"] == "ntd" else None)
        for x in nts:
            x["data"] = ["s", "fresh"] if payload_has(x["data"], "obj") else ["obj", 9]
    elif kind == "leaf<->node" and nodes:
        nd = rng.choice(nodes)
        if nd["ents"]:
            i = rng.randrange(len(nd["ents"]))
            key, e = nd["ents"][i]
            if e["k"] == "leaf":
                nd["ents"][i] = [key, {"k": "td", "bs": list(nd["bs"]), "ents": [["a", gen_leaf(rng, nd["bs"], allow_mm=False)]]}]
            else:
                nd["ents"][i] = [key, gen_leaf(rng, nd["bs"], allow_mm=False)]
    elif kind == "fresh":
        d = gen_structure(rng)
    return d, kind


def gen_resave(rng):
    """(first, second): second is saved over the directory of first"""
    d1 = gen_structure(rng)
    d2, kind = mutate(rng, d1)
    if kind == "shrink-lazy!":
        d1 = json.loads(json.dumps(d2))
        d2["members"] = d2["members"][:rng.randrange(1, len(d2["members"]))]
        d2 = reseed(rng, d2)
    return d1, d2, kind


def fix_lazy_bs(d):
    """after shrinking a lazy stack nested in a tensordict the parents' batch sizes no longer fit: only shrink root stacks"""
    return d


def resave_case(R, case, model_q):
    return guarded(R, "resave:", case, _resave_case, model_q)


def _resave_case(R, case, model_q):
    d1, d2, api = case["first"], case["desc"], case["api"]
    root = tempfile.mkdtemp(prefix="c10r-")
    try:
        o1, _, _ = save_call(d1, "memmap", root)
        if o1.get("outcome") != "ok":
            return
        o, _, _ = full_obs(d2, api, case.get("num_threads", 0), case.get("order"), False, False, pre=root, also=(d1,))
        if "build_error" in o:
            R.count("resave:unbuildable")
            return
        R.traces += 1
        c = dict(case)
        if o["outcome"] != "ok":
            fail(R, "resave:", "save-raises", c, {"outcome": o["outcome"], "exc": o.get("exc")})
            return
        exp = expected(d2)
        ld = o["loaded"]
        if "raise" in ld:
            fail(R, "resave:", "load-raises", c, ld)
        else:
            df = obs_diff(exp, ld)
            if df:
                fail(R, "resave:", "loaded-differs", c, {"path": df[0], "what": df[1], "original": df[2], "loaded": df[3], "stale": True})
        if case.get("num_threads", 0) <= 1:
            # with a pool, a not-in-place save rewrites other.pickle of every NonTensorData with its leaked `_metadata`
            # (timing dependent, see normalise_dir): the stale-pickle comparison with the model is sequential only
            model_q.append(("resave", c, o))
    finally:
        shutil.rmtree(root, ignore_errors=True)


# ====================================================================================================== grow (make_memmap*)
def gen_grow_ops(rng, d):
    """make_memmap* calls on a saved tensordict; key paths go through plain tensordict nodes only"""
    ops = []
    cur = json.loads(json.dumps(d))
    for _ in range(rng.choice([1, 2, 2, 3, 4])):
        # choose a node path through td nodes
        path, nd = [], cur
        while True:
            subs = [(k, e) for k, e in nd["ents"] if e["k"] == "td"]
            if subs and rng.random() < 0.5:
                k, e = rng.choice(subs)
                path.append(k)
                nd = e
            else:
                break
        used = {k for k, _ in nd["ents"]}
        new_nodes = rng.choice([0, 0, 0, 1, 2])
        bs = nd["bs"]
        exists = rng.random() < 0.12 and any(e["k"] == "leaf" for _, e in nd["ents"])
        if exists:
            key = rng.choice([k for k, e in nd["ents"] if e["k"] == "leaf"])
            new_nodes = 0
        else:
            free = [k for k in KEYS if k not in used]
            if not free:
                continue
            key = rng.choice(free)
        mid = []
        if new_nodes and not exists:
            mid = rng.sample([k for k in KEYS if k not in used], min(new_nodes, len([k for k in KEYS if k not in used])))
            key = rng.choice(KEYS)
        kind = rng.choice(["make", "make", "from_tensor", "from_tensor", "from_tensor_like", "from_storage"])
        if kind == "from_storage" and mid:
            kind = "make"
        lf = gen_leaf(rng, bs, allow_mm=False)
        lf["layout"] = rng.choice(["contig", "contig", "transposed", "strided"]) if kind.startswith("from_tensor") else "contig"
        if numel(lf["shape"]) == 0:
            lf["shape"] = list(bs) + [1]
        ops.append({"op": kind, "path": path + mid + [key], "leaf": lf, "exists": exists})
        if not exists:
            # extend the expected structure
            nd2 = nd
            for m in (mid if not exists else []):
                sub = {"k": "td", "bs": list(nd2["bs"]), "ents": []}
                nd2["ents"].append([m, sub])
                nd2 = sub
            nd2["ents"].append([key, dict(lf, layout="contig", filled=(kind in ("make", "from_tensor_like")))])
    return ops, cur


def grow_case(R, case, model_q):
    return guarded(R, "grow:", case, _grow_case, model_q)


def _grow_case(R, case, model_q):
    d0, ops, d1 = case["desc"], case["ops"], case["after"]
    root = tempfile.mkdtemp(prefix="c10g-")
    try:
        o0, td, res = save_call(d0, "memmap_", root, num_threads=case.get("num_threads", 0), order=case.get("order"))
        if o0.get("outcome") != "ok":
            fail(R, "grow:", "save-raises", case, {"outcome": o0.get("outcome"), "exc": o0.get("exc")})
            return
        try:
            other = TensorDict.load_memmap(root).memmap_()     # a second live mapping (the documented idiom)
        except EXC as e:  # noqa: BLE001
            fail(R, "grow:", "second-mapping-raises", case, {"exc": repr(e)[:300]})
            return
        outcomes = []
        for op in ops:
            key = tuple(op["path"]) if len(op["path"]) > 1 else op["path"][0]
            lf = op["leaf"]
            try:
                if op["op"] == "make":
                    t = res.make_memmap(key, lf["shape"], dtype=ALL_DT[lf["dtype"]])
                    t.copy_(make_plain(lf))
                elif op["op"] in ("from_tensor", "from_tensor_like"):
                    t = res.make_memmap_from_tensor(key, make_leaf(lf, {}), copy_data=(op["op"] == "from_tensor"))
                    if op["op"] == "from_tensor_like":
                        t.copy_(make_plain(lf))
                elif op["op"] == "from_storage":
                    fn = os.path.join(root, *op["path"][:-1], op["path"][-1] + ".memmap")
                    existed = os.path.exists(fn)
                    if op["exists"]:
                        st = res.get(key).untyped_storage()
                    else:
                        st = MemoryMappedTensor.from_tensor(make_plain(lf), filename=fn).untyped_storage()
                    res.make_memmap_from_storage(key, st, lf["shape"], dtype=ALL_DT[lf["dtype"]])
                outcomes.append("ok")
            except EXC as e:  # noqa: BLE001
                outcomes.append("raise:" + exc_class(e))
        R.traces += 1
        o = {"outcomes": outcomes}
        for i, (op, oc) in enumerate(zip(ops, outcomes)):
            want = "raise:RuntimeError" if op["exists"] else "ok"      # documented: writing an existing entry is an error
            if oc != want:
                fail(R, "grow:", "op-outcome", dict(case, op_index=i), {"op": op, "outcome": oc, "expected": want})
                return
        exp = expected(d1)
        for name, get in (("writer", lambda: res), ("later-load", lambda: TensorDict.load_memmap(root)),
                          ("refreshed-mapping", lambda: other.memmap_refresh_()),
                          ("load_memmap_", lambda: TensorDict({}, batch_size=d0["bs"]).load_memmap_(root))):
            try:
                ob = observe(get())
            except EXC as e:  # noqa: BLE001
                fail(R, "grow:", "raises:" + name, case, {"exc": repr(e)[:300]})
                o.setdefault("views", {})[name] = {"raise": exc_class(e)}
                continue
            o.setdefault("views", {})[name] = ob
            df = obs_diff(exp, ob)
            if df:
                fail(R, "grow:", "differs:" + name, case, {"path": df[0], "what": df[1], "expected": df[2], "got": df[3]})
        o["dir"] = normalise_dir(read_dir(root, d1))
        try:
            o["loaded"] = observe(TensorDict.load_memmap(root))
        except EXC as e:  # noqa: BLE001
            o["loaded"] = {"raise": exc_class(e)}
        model_q.append(("grow", case, o))
    finally:
        shutil.rmtree(root, ignore_errors=True)


# ====================================================================================================== model protocol
def payload_sx(p):
    k = p[0]
    if k == "s":
        return [Sym("s"), p[1]]
    if k == "i":
        return [Sym("i"), p[1]]
    if k == "b":
        return [Sym("b"), bool(p[1])]
    if k == "n":
        return Sym("n")
    if k == "obj":
        return [Sym("obj"), p[1]]
    if k in ("l", "tu", "set"):
        return [Sym(k), [payload_sx(x) for x in p[1]]]
    if k == "d":
        return [Sym("d"), [[kk, payload_sx(v)] for kk, v in p[1]]]
    raise ValueError(p)


def payload_from_sx(s):
    if s == "n":
        return ["n"]
    k = s[0]
    if k == "s":
        return ["s", str(s[1])]
    if k == "i":
        return ["i", s[1]]
    if k == "b":
        return ["b", s[1] == "t"]
    if k == "obj":
        return ["obj", s[1]]
    if k in ("l", "tu"):
        return [k, [payload_from_sx(x) for x in s[1]]]
    if k == "set":
        return [k, sorted((payload_from_sx(x) for x in s[1]), key=json.dumps)]
    if k == "d":
        return ["d", sorted(([str(kk), payload_from_sx(v)] for kk, v in s[1]), key=lambda kv: kv[0])]
    raise ValueError(s)


SRC = {"mm-nofile": "mmnofile", "mm-elsewhere": "elsewhere"}


def td_sx(d):
    k = d["k"]
    if k == "leaf":
        return [Sym("leaf"), Sym(d["dtype"]), list(d["shape"]), leaf_vals(d), Sym(SRC.get(d.get("layout"), "mem"))]
    if k == "td":
        return [Sym("td"), list(d["bs"]), [[key, td_sx(e)] for key, e in d["ents"]]]
    if k == "lazy":
        return [Sym("lazy"), d["sd"], [td_sx(m) for m in d["members"]]]
    if k == "tc":
        return [Sym("tc"), d["cls"], [[f, payload_sx(pl)] for f, pl in d.get("nt", [])], td_sx(d["inner"])]
    if k == "ntd":
        return [Sym("ntd"), list(d["bs"]), payload_sx(d["data"])]
    if k == "nts":
        def item(p, ibs):
            if not ibs:
                return [Sym("ntd"), [], payload_sx(p)]
            return [Sym("nts"), [item(p, ibs[1:]) for _ in range(ibs[0])]]
        return [Sym("nts"), [item(p, d["ibs"]) for p in d["items"]]]
    raise ValueError(k)


def td_obs_from_sx(s):
    """model structure -> the observation format of observe()"""
    k = s[0]
    if k == "leaf":
        o = {"k": "leaf", "dtype": s[1], "shape": list(s[2])}
        if not s[1].startswith("float8"):
            o["vals"] = list(s[3])
        return o
    if k == "td":
        return {"k": "td", "bs": list(s[1]), "ents": {str(kk): td_obs_from_sx(v) for kk, v in s[2]}}
    if k == "lazy":
        ms = [td_obs_from_sx(m) for m in s[2]]
        b = obs_bs(ms[0]) if ms else []
        b = list(b)
        b.insert(s[1], len(ms))
        return {"k": "lazy", "sd": s[1], "bs": b, "members": ms}
    if k == "tc":
        return {"k": "tc", "cls": str(s[1]), "inner": td_obs_from_sx(s[3]),
                "nt": {str(f): payload_from_sx(v) for f, v in sorted(s[2], key=lambda fv: str(fv[0]))}}
    if k == "ntd":
        return {"k": "ntd", "bs": list(s[1]), "data": payload_from_sx(s[2])}
    if k == "nts":
        items = [td_obs_from_sx(x) for x in s[1]]
        return {"k": "nts", "bs": [len(items)] + (items[0]["bs"] if items else []),
                "data": ["l", [nested_list([it["data"]] * numel(it["bs"]), it["bs"]) if it["k"] == "ntd" else it["data"] for it in items]]}
    raise ValueError(s)


def obs_bs(o):
    return o["inner"]["bs"] if o["k"] == "tc" else o.get("bs", [])


def json_from_sx(s):
    if s == "null":
        return None
    k = s[0]
    if k == "b":
        return s[1] == "t"
    if k == "i":
        return s[1]
    if k == "s":
        return str(s[1])
    if k == "a":
        return [json_from_sx(x) for x in s[1]]
    if k == "o":
        return {str(kk): json_from_sx(v) for kk, v in s[1]}
    raise ValueError(s)


def json_sx(j):
    if j is None:
        return Sym("null")
    if isinstance(j, bool):
        return [Sym("b"), j]
    if isinstance(j, int):
        return [Sym("i"), j]
    if isinstance(j, str):
        return [Sym("s"), j]
    if isinstance(j, list):
        return [Sym("a"), [json_sx(x) for x in j]]
    if isinstance(j, dict):
        return [Sym("o"), [[k, json_sx(v)] for k, v in j.items()]]
    raise TypeError(j)


FN = {"meta": "meta.json", "other": "other.pickle", "pkl": "pickle.pkl"}


def fname_str(f):
    return FN[f] if isinstance(f, str) else str(f[1]) + ".memmap"


def content_from_sx(c, cells=True):
    k = c[0]
    if k == "json":
        return {"meta": json_from_sx(c[1])}
    if k == "cells":
        o = {"size": len(c[2]) * ITEMSIZE[c[1]]}
        if cells and not c[1].startswith("float8"):
            o["cells"] = list(c[2])
        return o
    if k == "pickle":
        p = payload_from_sx(c[1])
        return {"pickle": p}
    raise ValueError(c)


def dir_from_sx(s, cells=True):
    out = {"files": {}, "subs": {}}
    for f, c in s[1]:
        name = fname_str(f)
        cc = content_from_sx(c, cells)
        if name == "other.pickle" and cc["pickle"][0] == "d":
            cc = {"pickle": {k: v for k, v in cc["pickle"][1]}}
        out["files"][name] = cc
    for k, d in s[2]:
        out["subs"][str(k)] = dir_from_sx(d, cells)
    return out


def dir_sx(d, descs):
    """a directory as read from disk -> model term (cells typed with the dtype the descriptors give to the path)"""
    def walk(x, rel):
        files = []
        for name, c in x["files"].items():
            if name == "meta.json" and "meta" in c:
                files.append([Sym("meta"), [Sym("json"), json_sx(c["meta"])]])
            elif name.endswith(".memmap"):
                lf = None
                for dd in descs:
                    lf = leaf_at(dd, rel + [name])
                    if lf is not None and "cells" in c and len(c["cells"]) == numel(lf["shape"]):
                        break
                    lf = None
                if lf is None:
                    return None
                files.append([[Sym("leaf"), name[:-len(".memmap")]], [Sym("cells"), Sym(lf["dtype"]), c["cells"]]])
            elif name == "other.pickle" and "pickle" in c:
                files.append([Sym("other"), [Sym("pickle"), [Sym("d"), [[k, payload_sx(v)] for k, v in c["pickle"].items()]]]])
            elif name == "pickle.pkl" and "pickle" in c:
                files.append([Sym("pkl"), [Sym("pickle"), payload_sx(c["pickle"])]])
            else:
                return None
        subs = []
        for name, s in x["subs"].items():
            w = walk(s, rel + [name])
            if w is None:
                return None
            subs.append([name, w])
        return [Sym("dir"), files, subs]
    try:
        return walk(d, [])
    except (TypeError, ValueError, KeyError):
        return None


def opts_sx(case):
    return [bool(case.get("copy_existing")), case["api"] == "memmap_like"]


def flat_real_dir(d, like):
    files, dirs = {}, set()

    def walk(x, p):
        dirs.add("/".join(p))
        for n, c in x["files"].items():
            files["/".join(p + [n])] = c
        for n, s in x["subs"].items():
            walk(s, p + [n])
    walk(d, [])
    return files, dirs


def res_of(r):
    """(ok x) / (raised e) -> ('ok', x) / ('raise:E', None)"""
    if isinstance(r, list) and r and r[0] == "ok":
        return "ok", r[1]
    if isinstance(r, list) and r and r[0] == "raised":
        return "raise:" + str(r[1]), None
    return "bad:" + repr(r)[:80], None


def model_lines(model_q):
    lines, index = [], []
    for kind, case, o in model_q:
        t = td_sx(case["desc"])
        if kind == "save":
            index.append((kind, case, o, len(lines)))
            lines.append(sx([Sym("encode"), opts_sx(case), t]))
            lines.append(sx([Sym("roundtrip"), opts_sx(case), t]))
            lines.append(sx([Sym("link"), opts_sx(case), case["api"] == "memmap_", t]))
            dsx = dir_sx(o["dir"], [case["desc"]]) if o.get("outcome") == "ok" and "files" in o.get("dir", {}) and case["api"] != "memmap_like" else None
            lines.append(sx([Sym("decode"), dsx]) if dsx is not None else sx([Sym("valid"), 0]))
        elif kind in ("fault", "fault-pool"):
            index.append((kind, case, o, len(lines)))
            fl = []
            for f in case["faults"]:
                if f["kind"] == "elsewhere":
                    continue            # in the structure itself (lsrc = elsewhere)
                path, name = fault_target(case["base"], f)
                fl.append([path, Sym("meta") if f["kind"] == "metadir" else [Sym("leaf"), name],
                           Sym("IsADirectoryError" if f["kind"] == "metadir" else "RuntimeError")])
            lines.append(sx([Sym("fault-call"), opts_sx(case), case["api"] == "memmap_", bool(case.get("return_early")), t, fl,
                             list(case.get("order") or [])]))
        elif kind == "perm":
            index.append((kind, case, o, len(lines)))
            lines.append(sx([Sym("tasks"), opts_sx(case), case["api"] == "memmap_", t]))
            lines.append(sx([Sym("run-tasks"), opts_sx(case), case["api"] == "memmap_", t, list(case["order"] or [])]))
        elif kind == "resave":
            index.append((kind, case, o, len(lines)))
            lines.append(sx([Sym("save-over"), opts_sx(case), td_sx(case["first"]), t]))
            dsx = dir_sx(o["dir"], [case["desc"], case["first"]]) if "files" in o.get("dir", {}) else None
            lines.append(sx([Sym("decode"), dsx]) if dsx is not None else sx([Sym("valid"), 0]))
        elif kind == "grow":
            index.append((kind, case, o, len(lines)))
            lines.append(sx([Sym("grow"), t, [grow_op_sx(op) for op in case["ops"]]]))
            lines.append(sx([Sym("grow-outcomes"), t, [grow_op_sx(op) for op in case["ops"]]]))
            lines.append(sx([Sym("refresh"), t, [grow_op_sx(op) for op in case["ops"]]]))
            dsx = dir_sx(o["dir"], [case["after"]]) if "files" in o.get("dir", {}) else None
            lines.append(sx([Sym("decode"), dsx]) if dsx is not None else sx([Sym("valid"), 0]))
    return lines, index


def grow_op_sx(op):
    lf = op["leaf"]
    return [Sym(op["op"].replace("_", "-")), list(op["path"]), Sym(lf["dtype"]), list(lf["shape"]), leaf_vals(lf)]


def loaded_obs_cmp(R, label, case, model_res, real_loaded):
    """model decode of the real directory vs what the real loader returned"""
    oc, t = res_of(model_res)
    if "raise" in real_loaded:
        if oc == "ok" or (oc.split(":")[1] != real_loaded["raise"] and not oc.endswith("unmodelled-reinterpretation")):
            R.mismatch(label + ":decode-outcome", case, real_loaded, oc)
        return
    if oc != "ok":
        if not oc.endswith("unmodelled-reinterpretation"):
            R.mismatch(label + ":decode-outcome", case, "ok", oc)
        return
    df = obs_diff(td_obs_from_sx(t), real_loaded)
    if df:
        R.mismatch(label + ":decode", case, {"path": df[0], "what": df[1], "loader": df[3]}, {"model": df[2]})


def compare_with_model(R, model_q):
    lines, index = model_lines(model_q)
    if not lines:
        return
    out = R.model(lines)
    for kind, case, o, i in index:
        like = case["api"] == "memmap_like"
        if kind == "save":
            oc, d = res_of(out[i])
            if oc != o["outcome"]:
                R.mismatch("encode:outcome", case, o["outcome"], oc)
            elif oc == "ok":
                md = normalise_dir(dir_from_sx(d, cells=not like))
                df = dir_diff(md, o["dir"])
                if df:
                    R.mismatch("encode:directory", case, {"path": df[0], "what": df[1], "disk": df[3]}, {"model": df[2]})
            rt = out[i + 1]
            if isinstance(rt, list) and len(rt) == 3:
                R.count("domain:" + ("inside" if rt[0] == "t" else "outside") + "-round-trip-theorem")
                if rt[0] == "t":
                    # inside the theorem's domain: decode (encode t) = norm t must hold of the model (a runtime instance of it)
                    if rt[1] != ["ok", rt[2]]:
                        R.mismatch("roundtrip:theorem-instance", case, "valid", rt[1])
            lk = out[i + 2]
            if lk == "differ" or (isinstance(lk, list) and lk[0] == "both-ok" and lk[1] != "t"):
                R.mismatch("link:tasks-build-encode (model-internal instance of the stated link)", case, "-", lk)
            else:
                R.count("link-instances-checked")
            if o["outcome"] == "ok" and not like and isinstance(out[i + 3], list) and out[i + 3] and out[i + 3][0] in ("ok", "raised"):
                loaded_obs_cmp(R, "load", case, out[i + 3], o["loaded"])
        elif kind in ("fault", "fault-pool"):
            r = out[i]
            if not (isinstance(r, list) and len(r) == 4):
                R.mismatch("fault:model-answer", case, "-", r)
                continue
            outcomes, flags, seq, pool = r
            if kind == "fault":
                if res_of(seq)[0] != o["outcome"]:
                    R.mismatch("fault:sequential-outcome", case, o["outcome"], res_of(seq)[0])
                continue
            R.count("collect:calls-compared")
            # (1) which writer tasks fail, and how
            real_err = {int(i): str(n) for i, n in (o.get("worker_errors") or [])}
            mod_err = {i: str(x) for i, x in enumerate(outcomes) if str(x) != "ok"}
            if len(outcomes) != len(o.get("spawned") or []) or real_err != mod_err:
                R.mismatch("fault:task-outcomes", case, {"spawned": len(o.get("spawned") or []), "failed": real_err},
                           {"spawned": len(outcomes), "failed": mod_err})
            # (2) collected = spawned: every future the executor handed out vs the futures the entry point inspects
            #     (or gives to the TensorDictFuture) — the correspondence obligation of C10_walk_collects_every_future
            mod_collected = [i for i, b in enumerate(flags) if b == "t"]
            if list(o.get("collected") or []) != mod_collected:
                R.mismatch("collect:spawned-vs-collected", case,
                           {"spawned": o.get("spawned"), "collected": o.get("collected"), "waited": o.get("waited"), "tasks": o.get("tasks")},
                           {"collected": mod_collected})
            # `for future in futures: future.result()`: in list order, up to the first that failed — the entry points and,
            # since the D110 repair, TensorDictFuture.result() alike
            mod_inspected = []
            for i in mod_collected:
                mod_inspected.append(i)
                if i in mod_err:
                    break
            if list(o.get("inspected") or []) != mod_inspected:
                R.mismatch("collect:inspected", case, {"inspected": o.get("inspected"), "collected": o.get("collected")}, {"inspected": mod_inspected})
            R.count("collect:futures-compared", len(flags))
            # (3) what the call returns
            if res_of(pool)[0] != o["outcome"]:
                R.mismatch("fault:pool-outcome", case, o["outcome"], res_of(pool)[0])
        elif kind == "perm":
            tl = out[i]
            real_tasks = o.get("tasks") or []
            if all(t is not None and t[1] is not None for t in real_tasks):
                mt = [[str(t[0]), "/".join(str(x) for x in t[1]), str(t[2])] for t in tl]
                if mt != [[t[0], t[1], t[2]] for t in real_tasks]:
                    R.mismatch("tasks:list", case, real_tasks, mt)
            else:
                R.count("tasks:unrecognised")
            if o.get("collected") is not None and list(o["collected"]) != list(range(len(tl))):
                # the model's walk collects the future of every task it submits (C10_walk_collects_every_future)
                R.mismatch("collect:spawned-vs-collected", case, {"spawned": o.get("spawned"), "collected": o.get("collected"), "tasks": real_tasks},
                           {"collected": list(range(len(tl)))})
            R.count("collect:calls-compared")
            R.count("collect:futures-compared", len(tl))
            st = out[i + 1][0]
            mdest, mfs, mdirs = st
            files, dirs = flat_real_dir(o["dir"], like)
            mfiles = {}
            for p, f, c in mfs:
                name = "/".join([str(x) for x in p] + [fname_str(f)])
                cc = content_from_sx(c, cells=not like)
                if name.endswith("other.pickle") and cc["pickle"][0] == "d":
                    cc = {"pickle": {k: v for k, v in cc["pickle"][1]}}
                mfiles[name] = cc
            # same normalisation as for the disk
            mfiles = flat_real_dir(normalise_dir(unflatten(mfiles, {"/".join(str(x) for x in p) for p in mdirs})), like)[0]
            if mfiles != files:
                diff = sorted(k for k in set(mfiles) | set(files) if mfiles.get(k) != files.get(k))[:4]
                R.mismatch("pool:files", case, {k: files.get(k) for k in diff}, {k: mfiles.get(k) for k in diff})
            md = {"/".join(str(x) for x in p) for p in mdirs}
            if md != dirs:
                R.mismatch("pool:directories", case, sorted(dirs), sorted(md))
            real_map = {k: [v[0], v[1], bool(v[3] and v[2] == k + ".memmap")] for k, v in (o.get("mapping") or {}).items()}
            mod_map = {"/".join(str(x) for x in p): [str(dt), list(sh), mf == "t"] for p, dt, sh, mf in mdest}
            if real_map != mod_map:
                diff = sorted(k for k in set(real_map) | set(mod_map) if real_map.get(k) != mod_map.get(k))[:4]
                R.mismatch("pool:mapping", case, {k: real_map.get(k) for k in diff}, {k: mod_map.get(k) for k in diff})
        elif kind == "resave":
            r = out[i]
            oc, d = res_of(r[0])
            if oc != "ok":
                R.mismatch("save-over:outcome", case, "ok", oc)
            else:
                md = normalise_dir(dir_from_sx(d))
                df = dir_diff(strip_unknown(md), strip_unknown(o["dir"]))
                if df:
                    R.mismatch("save-over:directory", case, {"path": df[0], "what": df[1], "disk": df[3]}, {"model": df[2]})
                loaded_obs_cmp(R, "save-over", case, r[1], o["loaded"])
            if isinstance(out[i + 1], list) and out[i + 1] and out[i + 1][0] in ("ok", "raised"):
                loaded_obs_cmp(R, "load-stale", case, out[i + 1], o["loaded"])
        elif kind == "grow":
            r = out[i]
            if isinstance(r, list) and r and r[0] == "decode-error":
                R.count("grow:model-not-built")
                continue
            oc, d = res_of(r)
            if oc != "ok":
                R.mismatch("grow:outcome", case, "ok", oc)
            else:
                md = normalise_dir(dir_from_sx(d))
                df = dir_diff(md, o["dir"])
                if df:
                    R.mismatch("grow:directory", case, {"path": df[0], "what": df[1], "disk": df[3]}, {"model": df[2]})
            mo = [res_of(x)[0] for x in out[i + 1]] if isinstance(out[i + 1], list) else out[i + 1]
            if mo != o["outcomes"]:
                R.mismatch("grow:outcomes", case, o["outcomes"], mo)
            rf = out[i + 2]
            if isinstance(rf, list) and len(rf) == 2:
                # memmap_refresh_ of a second mapping / load_memmap_ into an empty tensordict vs Model.C10_Refresh.load_into
                for name, mr in (("refreshed-mapping", rf[0]), ("load_memmap_", rf[1])):
                    if name in (o.get("views") or {}):
                        loaded_obs_cmp(R, "refresh:" + name, case, mr, o["views"][name])
                        R.count("refresh:" + name + ":compared")
            else:
                R.mismatch("refresh:model-answer", case, "-", rf)
            if isinstance(out[i + 3], list) and out[i + 3] and out[i + 3][0] in ("ok", "raised"):
                loaded_obs_cmp(R, "grow:load", case, out[i + 3], o["loaded"])


def strip_unknown(d):
    """over an existing directory a rewritten file keeps its old length when the new content is shorter (bytes, not modelled):
    lengths are not compared there"""
    out = {"files": {}, "subs": {n: strip_unknown(s) for n, s in d["subs"].items()}}
    for n, c in d["files"].items():
        out["files"][n] = {k: v for k, v in c.items() if k != "size"} if n.endswith(".memmap") else c
    return out


def unflatten(files, dirs):
    root = {"files": {}, "subs": {}}

    def node(p):
        cur = root
        for name in [x for x in p.split("/") if x]:
            cur = cur["subs"].setdefault(name, {"files": {}, "subs": {}})
        return cur
    for d in dirs:
        node(d)
    for k, c in files.items():
        parts = k.split("/")
        node("/".join(parts[:-1]))["files"][parts[-1]] = c
    return root


# ====================================================================================================== main
class _Recorder:
    """what a forked worker of the thorough tier sends back"""
    quick = False

    def __init__(self):
        self.rec = {"fails": [], "mm": [], "traces": 0, "hist": {}, "model_q": []}

    traces = property(lambda self: self.rec["traces"], lambda self, v: self.rec.__setitem__("traces", v))

    def oracle_fail(self, label, case, detail, sig=None):
        self.rec["fails"].append((label, case, detail, sig or {}))

    def mismatch(self, label, case, impl, model):
        self.rec["mm"].append((label, case, impl, model))

    def count(self, k, n=1):
        self.rec["hist"][k] = self.rec["hist"].get(k, 0) + n

    def case(self, *a, **k):
        pass


def _save_worker(cases):
    torch.set_num_threads(1)
    r = _Recorder()
    for c in cases:
        save_case(r, c, r.rec["model_q"])
    return r.rec


def _fault_worker(cases):
    torch.set_num_threads(1)
    r = _Recorder()
    for c in cases:
        fault_case(r, c, r.rec["model_q"])
    return r.rec


def hist_structure(R, desc, prefix=""):
    ft = features(desc)
    for k in sorted(ft["kinds"]):
        R.count(prefix + "kind:" + k)
    for k in sorted(ft["dtypes"]):
        R.count(prefix + "dtype:" + k)
    for k in sorted(ft["layouts"]):
        R.count(prefix + "layout:" + k)
    R.count(prefix + "depth:" + str(ft["depth"]))
    R.count(prefix + "leaves:" + (str(ft["leaves"]) if ft["leaves"] < 6 else "6+"))
    return ft


def plan_runs(rng, desc, quick, budget):
    """(num_threads, order, real_pool) for one structure: num_threads=1, every/some completion orders, the real pool"""
    n = n_tasks(desc)
    orders, exhaustive = orders_for(rng, n, quick, allow5=budget["n5"] > 0)
    if n == 5 and exhaustive:
        budget["n5"] -= 1
    runs = [(1, None, False)]
    for i, o in enumerate(orders):
        runs.append(((2, 4, 8)[i % 3], o, False))
    for nt in (2, 4, 8):
        runs.append((nt, None, True))
    return runs, n, exhaustive


CORPUS = os.path.join(os.path.dirname(os.path.dirname(os.path.abspath(__file__))), "corpus", PID)


def load_corpus():
    out = []
    if os.path.isdir(CORPUS):
        for f in sorted(os.listdir(CORPUS)):
            if f.endswith(".json"):
                try:
                    out.append(json.load(open(os.path.join(CORPUS, f))))
                except EXC:  # noqa: BLE001
                    pass
    return out


def check_dtype_table(R):
    """the model's _STRDTYPE2DTYPE is the code's (quantised dtypes aside: no tensor of them can be an entry here)"""
    from tensordict.utils import _STRDTYPE2DTYPE
    # the code's table holds every dtype of torch; the model's the ones the generators use: each must be in the code's,
    # under the same name, and denote the dtype the harness means by it
    model = R.model([sx([Sym("dtype-table")])])[0]
    model = sorted(str(x) for x in model) if isinstance(model, list) else model
    bad = [k for k in model if k not in _STRDTYPE2DTYPE or ALL_DT.get(k[len("torch."):]) is not _STRDTYPE2DTYPE[k]] if isinstance(model, list) else model
    if bad:
        R.mismatch("dtype-table", {"api": "load_memmap", "desc": {"k": "td", "bs": [], "ents": []}}, sorted(_STRDTYPE2DTYPE), bad)


def main(R):
    torch.set_num_threads(1)
    R.rule = ("structures: random trees (depth <= 3) of TensorDict nodes, lazy stacks (nested, heterogeneous members), four tensorclasses "
              "(decorator and subclass form, nested, over a lazy stack, Optional fields left None, non-tensor fields), "
              "NonTensorData (str/int/bool/None/list/dict/opaque-object payloads), NonTensorStack, empty nodes; leaves of all 16 dtypes of "
              "_STRDTYPE2DTYPE, rank 0..5, contiguous/transposed/strided/expanded/requires-grad/already-memory-mapped (no file, file elsewhere); "
              "~30% carry one formerly-defective pattern (0-size leaf, reserved key [now refused], tuple/set payload, list-valued stack items, "
              "wide NonTensorData, float8). Each is saved with memmap/memmap_/memmap_like/save sequentially, with num_threads=1, under every completion order "
              "of the writer tasks for <= 5 tasks (else identity/reverse/rotations/random) via the permuting executor, and with the real pool "
              "(2,4,8 threads). Fault stream: at every leaf position and every metadata file of small structures one obstacle "
              "(elsewhere+copy_existing=False / existing file+existsok=False / meta.json a directory) x 4 entry points x num_threads 0,1,2,4 x "
              "orders x return_early x real pool. distinct = (structure, api, copy_existing | obstacles); non-trivial = at least 2 nodes+leaves.")
    R.assumptions = ["mmap coherence between mappings/processes and real thread preemption are the OS's: exercised (same process, fork, spawn, "
                     "real ThreadPoolExecutor), not modelled",
                     "byte-level reinterpretation of a file read with another dtype/length is not modelled (model answers 'unmodelled')",
                     "leaf values are small integers (exact in every dtype); float8 leaves compare shapes only"]
    R.trusted = ["harness/c10.py PermExecutor (stands in for concurrent.futures.ThreadPoolExecutor inside tensordict.base in this process only)",
                 "torch.from_file / json / pickle used by the harness to read the directory back independently of tensordict"]
    import time
    t0 = time.time()
    timing = R.extra.setdefault("stream_wall_s", {})

    def lap(name):
        nonlocal t0
        timing[name] = round(time.time() - t0, 1)
        t0 = time.time()
    R.step_prove()
    lap("prove")
    ok = R.step_driver()
    lap("driver")
    rng = R.rng
    quick = R.quick
    model_q = []
    if ok:
        check_dtype_table(R)
    # ---- corpus first
    for c in load_corpus():
        kind = c.get("stream", "save")
        R.count("corpus:" + kind)
        if kind == "save":
            runs, n, _ = plan_runs(rng, c["desc"], quick, {"n5": 1})
            save_case(R, dict(c, runs=runs), model_q)
        elif kind == "resave":
            resave_case(R, c, model_q)
        elif kind == "grow":
            grow_case(R, c, model_q)
        elif kind == "live":
            live_case(R, c)
        elif kind == "fault":
            fault_case(R, dict(c, runs=plan_fault_runs(rng, c["desc"], quick)), model_q)
        R.case(("corpus", json.dumps(c, sort_keys=True)), nontrivial=True)
    # ---- (1) save stream
    n_struct = 100 if quick else 1500
    budget = {"n5": 4 if quick else 10 ** 9}
    apis = ["memmap", "memmap_", "memmap_like", "save"]
    t_save = time.time()
    planned = []
    for i in range(n_struct):
        desc = gen_structure(rng)
        quirk = None
        if rng.random() < 0.3:
            quirk = rng.choice(QUIRKS)
            if not inject(rng, desc, quirk):
                quirk = None
        ce = rng.random() < 0.5
        if quirk is None and rng.random() < 0.25:
            add_elsewhere(rng, desc)
        api = apis[i % 4] if rng.random() < 0.7 else rng.choice(apis)
        runs, n, exhaustive = plan_runs(rng, desc, quick, budget)
        planned.append(({"stream": "save", "desc": desc, "api": api, "copy_existing": ce, "quirk": quirk, "runs": runs}, n, exhaustive))

    def register(i, case, n, exhaustive):
        ft = hist_structure(R, case["desc"])
        R.count("api:" + case["api"])
        R.count("quirk:" + (case["quirk"] or ("elsewhere" if ft["mm_elsewhere"] else "none")))
        R.count("tasks:" + (str(n) if n < 8 else "8+"))
        R.count("orders:" + ("all" if exhaustive else "sampled"), len(case["runs"]) - 4)
        R.case(("save", json.dumps(case["desc"], sort_keys=True), case["api"], case["copy_existing"]),
               nontrivial=ft["leaves"] + ft["nodes"] >= 2, sample={k: v for k, v in case.items() if k != "runs"} if i % 40 == 7 else None)
    if quick:
        for i, (case, n, exhaustive) in enumerate(planned):
            if i >= 10 and time.time() - t_save > 70:
                # the quick tier has a wall-clock budget: on a loaded machine the stream is cut (the count is in the evidence)
                R.extra["save_stream_cut_at"] = i
                break
            register(i, case, n, exhaustive)
            save_case(R, case, model_q)
    else:
        import multiprocessing as mp
        chunks = [planned[j::14] for j in range(14)]
        with mp.get_context("fork").Pool(14) as pool:
            for rec in pool.imap_unordered(_save_worker, [[c for c, _, _ in ch] for ch in chunks]):
                R.oracle_failures.extend(rec["fails"])
                R.mismatches.extend(rec["mm"])
                R.traces += rec["traces"]
                for k, v in rec["hist"].items():
                    R.count(k, v)
                model_q.extend(rec["model_q"])
        for i, (case, n, exhaustive) in enumerate(planned):
            register(i, case, n, exhaustive)
    lap("save")
    # ---- (1b) fault injection: a writer task fails at each position in turn
    t_stream = time.time()
    counter = [rng.randrange(12)]
    n_fault = 0
    fault_planned = []
    for i in range(40 if quick else 120):
        if quick and i >= 6 and time.time() - t_stream > 25:
            R.extra["fault_stream_cut_at"] = i
            break
        desc = gen_fault_structure(rng)
        hist_structure(R, desc, "fault:")
        for case in gen_fault_cases(rng, desc, quick, counter):
            for f in case["faults"]:
                R.count("fault:" + f["kind"] + ":" + case["api"])
            R.count("fault:obstacles:" + str(len(case["faults"])))
            R.case(("fault", json.dumps(desc, sort_keys=True), case["api"], json.dumps(case["faults"])), nontrivial=True,
                   sample={k: v for k, v in case.items() if k != "runs"} if n_fault == 5 else None)
            n_fault += 1
            if quick:
                fault_case(R, case, model_q)
            else:
                fault_planned.append(case)
    if fault_planned:
        import multiprocessing as mp
        with mp.get_context("fork").Pool(14) as pool:
            for rec in pool.imap_unordered(_fault_worker, [fault_planned[j::56] for j in range(56)]):
                R.oracle_failures.extend(rec["fails"])
                R.mismatches.extend(rec["mm"])
                R.traces += rec["traces"]
                for k, v in rec["hist"].items():
                    R.count(k, v)
                model_q.extend(rec["model_q"])
    R.extra["fault_cases"] = n_fault
    lap("fault")
    # ---- (2) resave over a directory with content
    t_stream = time.time()
    for i in range(50 if quick else 600):
        if quick and i >= 15 and time.time() - t_stream > 20:
            R.extra["resave_stream_cut_at"] = i
            break
        d1, d2, kind = gen_resave(rng)
        nt = rng.choice([0, 0, 2, 4])
        n = n_tasks(d2)
        order = None
        if nt > 1:
            order = list(range(n))
            rng.shuffle(order)
        case = {"stream": "resave", "first": d1, "desc": d2, "api": rng.choice(["memmap", "memmap_", "save"]), "num_threads": nt,
                "order": order, "mutation": kind}
        R.count("resave:" + kind)
        R.case(("resave", json.dumps(d1, sort_keys=True), json.dumps(d2, sort_keys=True), case["api"], nt), nontrivial=True,
               sample=case if i == 3 else None)
        resave_case(R, case, model_q)
    lap("resave")
    # ---- (3) make_memmap* / refresh
    cfg = {"max_depth": 2, "kinds": ["td", "ntd", "lazy", "tc", "nts"]}
    t_stream = time.time()
    for i in range(60 if quick else 800):
        if quick and i >= 15 and time.time() - t_stream > 20:
            R.extra["grow_stream_cut_at"] = i
            break
        d = gen_td(rng, rng.choice(BATCHES), 0, cfg)
        ops, after = gen_grow_ops(rng, d)
        nt = rng.choice([0, 0, 2, 8])
        case = {"stream": "grow", "desc": d, "ops": ops, "after": after, "api": "make_memmap", "num_threads": nt, "order": None}
        for op in ops:
            R.count("grow:" + op["op"] + (":existing-key" if op["exists"] else ""))
            R.count("grow:new-intermediate-nodes:" + str(max(0, len(op["path"]) - 1)))
        R.case(("grow", json.dumps(d, sort_keys=True), json.dumps(ops, sort_keys=True)), nontrivial=True, sample=case if i == 2 else None)
        grow_case(R, case, model_q)
    lap("grow")
    # ---- (4) live view; a few child processes
    n_live = 40 if quick else 400
    children = {1: "fork", 5: "fork", 9: "fork", 13: "spawn"} if quick else {i: ("spawn" if i % 50 == 13 else "fork") for i in range(0, n_live, 5)}
    t_stream = time.time()
    for i in range(n_live):
        if quick and i >= 15 and time.time() - t_stream > 30:
            R.extra["live_stream_cut_at"] = i
            break
        desc = gen_structure(rng)
        api = apis[i % 4]
        nt = rng.choice([0, 2, 4])
        case = {"stream": "live", "desc": desc, "api": api, "child": children.get(i) if api != "memmap_like" else None, "num_threads": nt, "order": None}
        hist_structure(R, desc, "live:")
        R.case(("live", json.dumps(desc, sort_keys=True), api, case["child"]), nontrivial=features(desc)["leaves"] >= 1,
               sample=case if i == 13 else None)
        live_case(R, case)
    lap("live")
    if ok:
        compare_with_model(R, model_q)
    lap("model")
    R.extra["model_queries"] = len(model_q)
    R.extra["not_modelled"] = ["mmap coherence between processes", "real thread preemption", "byte-level reinterpretation of files",
                               "share_non_tensor=True (multiprocessing manager)", "nested (jagged) tensors"]


# ====================================================================================================== replay
class _PrintRun:
    """same interface as core.Run for the pieces used by the streams; prints instead of recording"""
    quick = True

    def __init__(self):
        self.traces = 0
        import random
        self.rng = random.Random(0)

    def oracle_fail(self, label, case, detail, sig=None):
        print("ORACLE FAILS:", label, json.dumps(sig, default=str))
        print("   ", json.dumps(detail, default=str)[:1500])

    def mismatch(self, label, case, impl, model):
        print("MODEL/IMPLEMENTATION DIFFER:", label)
        print("    implementation:", json.dumps(impl, default=str)[:1200])
        print("    model:         ", json.dumps(model, default=str)[:1200])

    def count(self, *a, **k):
        pass

    def case(self, *a, **k):
        pass

    def model(self, lines, shards=1):
        from .core import run_model
        return run_model(PID, lines, shards)


def replay(body):
    from .core import build_driver
    torch.set_num_threads(1)
    case = body["case"]
    R = _PrintRun()
    ok, _ = build_driver(PID)
    mq = []
    stream = case.get("stream") or ("resave" if "first" in case else "grow" if "ops" in case else "live" if "child" in case else "save")
    print("stream:", stream, "| api:", case.get("api"), "| num_threads:", case.get("num_threads"), "| order:", case.get("order"))
    print("structure:", json.dumps(case.get("desc"))[:3000])
    if stream == "save":
        nt, order = case.get("num_threads", 0), case.get("order")
        runs = [(nt, order, bool(case.get("real_pool")))] if nt else []
        ref, _, _ = full_obs(case["desc"], case["api"], 0, None, False, case.get("copy_existing", False))
        print("implementation, sequential:", json.dumps({k: ref.get(k) for k in ("outcome", "exc", "loaded", "flags")}, default=str)[:2500])
        print("directory:", json.dumps(ref.get("dir"), default=str)[:2500])
        for r in runs:
            o, _, _ = full_obs(case["desc"], case["api"], r[0], r[1], r[2], case.get("copy_existing", False))
            print(f"implementation, num_threads={r[0]} order={r[1]} real_pool={r[2]}:",
                  json.dumps({k: o.get(k) for k in ("outcome", "worker_errors", "tasks", "ran", "loaded")}, default=str)[:2500])
        save_case(R, dict(case, runs=runs), mq)
    elif stream == "fault":
        base = case.get("base", case["desc"])
        nt = case.get("num_threads", 0)
        runs = [(nt, case.get("order"), bool(case.get("real_pool")), bool(case.get("return_early")))] if nt else []
        print("obstacles:", json.dumps(case["faults"]), "->", [fault_target(base, f) for f in case["faults"]])
        fd, prepare, existsok = apply_faults(base, case["faults"])
        ref, _, _ = full_obs(fd, case["api"], 0, None, False, False, existsok=existsok, prepare=prepare)
        print("implementation, sequential:", json.dumps({k: ref.get(k) for k in ("outcome", "exc", "loaded")}, default=str)[:1500])
        for r in runs:
            o, _, _ = full_obs(fd, case["api"], r[0], r[1], r[2], False, existsok=existsok, prepare=prepare, return_early=r[3])
            print(f"implementation, num_threads={r[0]} order={r[1]} real_pool={r[2]} return_early={r[3]}:",
                  json.dumps({k: o.get(k) for k in ("outcome", "exc", "worker_errors", "tasks", "spawned", "collected", "inspected", "loaded")},
                             default=str)[:3000])
            if o.get("outcome") == "ok" and "files" in o.get("dir", {}):
                print("    files described by a meta.json but missing:", missing_files(o["dir"]))
        fault_case(R, dict(case, desc=base, runs=runs), mq)
    elif stream == "resave":
        resave_case(R, case, mq)
    elif stream == "grow":
        grow_case(R, case, mq)
    elif stream == "live":
        live_case(R, case)
    if ok and mq:
        lines, _ = model_lines(mq)
        for l, r in zip(lines, R.model(lines)):
            print("model <", l[:300])
            print("model >", json.dumps(r)[:1500])
        compare_with_model(R, mq)
    print("expected (what an equal tensordict observes as):", json.dumps(expected(case["desc"]), default=str)[:2000])
    print(json.dumps(body.get("detail"), default=str)[:1500])
    return 0
