"""C05 — a locked tensordict's structure and storage bindings cannot change (DESIGN.md §4 C05).

Three streams:
  (1) histories   random op sequences (lock_/unlock_/with blocks/pickle/gc of parents/memmap_/share_memory_/mutators through
                  any handle) over DAG-shaped heaps of TensorDict and LazyStackedTensorDict nodes; after EVERY call the real
                  objects (entries, identity, _is_locked, is_locked, __lock_parents_weakrefs, _is_shared, _is_memmap) are
                  compared with the extracted Coq model (Model/C05_Lock.v), and four model-independent oracles are evaluated.
  (2) reflection  every public callable of every container class, called with synthesised arguments on locked trees of every
                  kind, through every kind of handle: structure snapshot must be unchanged (harness/c05_reflect.py).
  (3) writes      in-place value writes on locked trees must succeed and be visible.
The translated table (harness/tr_c05.py -> coq/Gen/C05_Tables.v) ties the guard_table theorem to the current source."""
import gc
import json
import os
import pickle
import random
import shutil
import subprocess
import tempfile
import weakref

from . import cext
from .core import BUILD, Sym, parse_sx, sx

PID = "C05"


def _imports():
    cext.install()
    from . import c05_reflect as RF
    t = RF.T()
    t["torch"].set_num_threads(1)
    return RF, t


# ====================================================================================================== model session
class Session:
    """persistent extracted-model process (same binary as R.model uses); one history prefix per query"""

    def __init__(self):
        drv = os.path.join(BUILD, f"driver_{PID}")
        self.p = subprocess.Popen(["/bin/sh", "-c", f"ulimit -s unlimited 2>/dev/null; exec {drv}"], stdin=subprocess.PIPE,
                                  stdout=subprocess.PIPE, text=True, bufsize=1)

    def query(self, line):
        self.p.stdin.write(line + "\n")
        self.p.stdin.flush()
        out = self.p.stdout.readline()
        if not out:
            raise RuntimeError("model driver died")
        return parse_sx(out)

    def trace(self, ops):
        """the last two (outcome, state) results of the history `ops` (the model re-runs the prefix; earlier states are not printed)"""
        r = self.query("(last " + " ".join(ops) + ")")
        if not isinstance(r, list) or len(r) != 2 or r[0] != len(ops):
            return ("fuel" if isinstance(r, list) and r and r[0] == "out-of-fuel" else "bad", r)
        return ("ok", r[1])

    def close(self):
        try:
            self.p.stdin.close()
            self.p.wait(timeout=5)
        except Exception:  # noqa: BLE001
            self.p.kill()


def decode_state(sxp):
    nodes, nxt, writes = sxp
    out = {}
    for (i, kind, flg, ents, pars, shm, mm, isl, pof, live) in nodes:
        out[i] = {"kind": kind, "flag": flg, "ents": [(k, r[0], r[1]) for k, r in ents], "pars": pars, "shm": shm == "t",
                  "mm": mm == "t", "is_locked": {"t": True, "f": False}.get(isl, isl), "parents": pof, "live": live == "t"}
    return out, nxt, writes


# ====================================================================================================== the real world
KEYS = ["a", "b", "c", "d"]


class World:
    """real tensordict objects + the bijection real object <-> model identity"""

    def __init__(self, t):
        self.t = t
        self.handles = {}     # mid -> object (strong: the harness's own variables)
        self.wr = {}          # mid -> weakref (canonical weakref object of the node)
        self.byref = {}       # id(weakref object) -> mid
        self.byobj = {}       # id(node object) -> mid   (valid while alive)
        self.leaf = {}        # id(tensor) -> mid
        self.leaf_keep = []   # tensors kept alive so that id() stays unique
        self.dead = set()
        self.ops = []
        self.tmp = []
        self.counter = 0.0

    # -- observation of one real node
    def kind(self, o):
        return "lazy" if isinstance(o, self.t["Lazy"]) else "td"

    def entries(self, o):
        if self.kind(o) == "lazy":
            return [("", m) for m in o.tensordicts]
        return list(o._tensordict.items())

    def is_node(self, v):
        return isinstance(v, (self.t["TD"], self.t["Lazy"]))

    def register(self, o, mid):
        r = weakref.ref(o)
        self.wr[mid] = r
        self.byref[id(r)] = mid
        self.byobj[id(o)] = mid

    def mid_of(self, o):
        m = self.byobj.get(id(o))
        if m is not None and self.wr[m]() is o:
            return m
        return None

    def alive_nodes(self):
        out = {}
        for m, r in self.wr.items():
            o = r()
            if o is not None:
                out[m] = o
        return out

    def reachable(self, o, acc=None):
        acc = {} if acc is None else acc
        if id(o) in acc:
            return acc
        acc[id(o)] = o
        for _k, v in self.entries(o):
            if self.is_node(v):
                self.reachable(v, acc)
        return acc

    def leaves_plain(self, o):
        to = self.t["torch"]
        for x in self.reachable(o).values():
            for _k, v in self.entries(x):
                if not self.is_node(v) and type(v) is not to.Tensor:
                    return False
        return True

    def fresh_tensor(self):
        self.counter += 1.0
        return self.t["torch"].full((2,), self.counter)

    def observe(self, o):
        raw = o._is_locked
        d = {"kind": self.kind(o), "flag": "true" if raw is True else ("false" if raw is False else "none"),
             "is_locked": bool(o.is_locked)}
        if d["kind"] == "td":
            stored = o.__dict__.get("__lock_parents_weakrefs") or []
            d["pars"] = [self.byref.get(id(r), "?") for r in stored]
            d["shm"], d["mm"] = bool(o._is_shared), bool(o._is_memmap)
        d["parents"] = [self.byref.get(id(r), "?") for r in o._lock_parents_weakrefs]
        return d


def exc_enum(e):
    if isinstance(e, KeyError):
        return "key"
    if isinstance(e, RuntimeError):
        return "runtime"
    return "other:" + type(e).__name__


class Desync(Exception):
    pass


def sync(W, M):
    """extend the bijection along the entries (first pass), then compare every live known node with the model state.
    Returns list of differences (empty = model and implementation agree)."""
    diffs = []
    work = list(W.alive_nodes().items())
    seen = {}
    while work:
        mid, o = work.pop()
        if mid in seen:
            continue
        seen[mid] = o
        mn = M.get(mid)
        if mn is None:
            diffs.append(f"node {mid}: not in the model heap")
            continue
        re = W.entries(o)
        me = mn["ents"]
        if [k for k, _ in re] != [k for k, _, _ in me]:
            diffs.append(f"node {mid}: keys: impl {[k for k, _ in re]} model {[k for k, _, _ in me]}")
            continue
        for (k, v), (_k, mk, mv) in zip(re, me):
            if W.is_node(v):
                if mk != "node":
                    diffs.append(f"node {mid}[{k}]: impl node, model leaf")
                    continue
                known = W.mid_of(v)
                if known is None:
                    if mv in W.wr:
                        diffs.append(f"node {mid}[{k}]: impl holds a new object, model holds known node {mv}")
                        continue
                    W.register(v, mv)
                    work.append((mv, v))
                elif known != mv:
                    diffs.append(f"node {mid}[{k}]: impl -> node {known}, model -> node {mv}")
                else:
                    work.append((mv, v))
            else:
                if mk != "leaf":
                    diffs.append(f"node {mid}[{k}]: impl leaf, model node")
                    continue
                known = W.leaf.get(id(v))
                if known is None:
                    if mv in W.leaf.values():
                        diffs.append(f"node {mid}[{k}]: impl holds a new leaf object, model holds known leaf {mv}")
                        continue
                    W.leaf[id(v)] = mv
                    W.leaf_keep.append(v)
                elif known != mv:
                    diffs.append(f"node {mid}[{k}]: impl -> leaf {known}, model -> leaf {mv}")
    for mid, o in seen.items():
        mn = M.get(mid)
        if mn is None:
            continue
        ob = W.observe(o)
        for f in ("kind", "flag", "is_locked", "parents") + (("pars", "shm", "mm") if ob["kind"] == "td" else ()):
            if ob[f] != mn[f]:
                diffs.append(f"node {mid}: {f}: impl {ob[f]} model {mn[f]}")
        if not mn["live"]:
            diffs.append(f"node {mid}: alive in the implementation, dead in the model")
    for mid, r in W.wr.items():
        if r() is None and mid in M and M[mid]["live"]:
            diffs.append(f"node {mid}: collected in the implementation, live in the model")
    return diffs


# ====================================================================================================== one history
def entries_sig(W, o):
    return [(k, ("n", id(v)) if W.is_node(v) else ("l", id(v))) for k, v in W.entries(o)]


def snapshot_locked(W):
    """model-independent: for every live known node: is_locked, raw flag, entry signature, direct children"""
    snap = {}
    for mid, o in W.alive_nodes().items():
        try:
            dp = any(r() is None for r in o._lock_parents_weakrefs)
        except Exception:  # noqa: BLE001
            dp = False
        snap[mid] = {"is_locked": bool(o.is_locked), "raw": o._is_locked, "ents": entries_sig(W, o), "mm": bool(getattr(o, "_is_memmap", False)),
                     "dead_parents": dp,
                     "kind": W.kind(o), "children": [id(v) for _k, v in W.entries(o) if W.is_node(v)], "oid": id(o)}
    return snap


def hollow(W, o):
    return W.kind(o) == "lazy" and all(hollow(W, m) for m in o.tensordicts)


def gen_history(rng, nops):
    """the generator only fixes the random choices; ops are concretised against the live state while running"""
    return [rng.random() for _ in range(nops * 6)]


class HistoryRunner:
    def __init__(self, t, sess, seed, quick, forced=None):
        self.t, self.sess, self.rng = t, sess, random.Random(seed)
        self.W = World(t)
        self.trace = []          # JSON-able op descriptions (replay)
        self.mismatch = None
        self.oracle = []         # (label, detail, signature)
        self.stats = {}
        self.forced = forced     # replay: list of op descriptions to execute instead of random choice
        self.state = {}
        self.nxt = 0
        self.unsupported = None
        self.flags = {"locked_mutation": 0, "member_unlock": 0, "gc_unlock": 0, "shared": 0, "collected_as_expected": 0}
        self.pinned = []         # objects the harness's own frames still reference (the object of a running with-statement)
        self.model_off = False   # after the first model/implementation mismatch the history goes on with the oracles alone (SEARCH)
        self.fake = 100000

    def count(self, k, n=1):
        self.stats[k] = self.stats.get(k, 0) + n

    # -- model step + comparison
    def model_step(self, opsx, real_outcome, new_obj=None):
        """model comparison; after the first mismatch the history continues with the oracles only (a concrete failing input is
        what the decision procedure is looking for), new objects getting identities of the harness's own"""
        if not self.model_off:
            ok = self._model_step(opsx, real_outcome, new_obj)
            if ok or self.mismatch is None:
                return ok
            self.model_off = True
        W = self.W
        gc.collect()
        died = sorted(m for m, r in W.wr.items() if r() is None and m not in W.dead)
        W.dead.update(died)
        if opsx is None:
            self.gc_oracle(died)
        if new_obj is not None and W.mid_of(new_obj) is None:
            self.fake += 1
            W.register(new_obj, self.fake)
        return True

    def gc_oracle(self, died):
        # O6 gc_parent: lock parents are held weakly -- whatever the harness cannot reach any more has been collected
        W = self.W
        reach = {}
        for o in list(W.handles.values()) + self.pinned:
            W.reachable(o, reach)
        kept = sorted(m for m, r in W.wr.items() if r() is not None and id(r()) not in reach)
        if kept:
            self.oracle.append(("gc_parent:unreachable-object-kept-alive", {"nodes": kept},
                                {"call": "gc.collect", "effect": "kept-alive", "stream": "history", "pattern": None}))
        self.flags["collected_as_expected"] += len(died)

    def _model_step(self, opsx, real_outcome, new_obj=None):
        """appends the call (and, when objects were collected as a consequence, a gc op) to the model history and compares"""
        W = self.W
        if opsx is not None:
            W.ops.append(opsx)
        gc.collect()
        died = sorted(m for m, r in W.wr.items() if r() is None and m not in W.dead)
        if died:
            W.dead.update(died)
            W.ops.append(sx([Sym("gc"), died]))
            self.count("gc:died", len(died))
        if opsx is None:
            self.gc_oracle(died)
        if opsx is None and not died:
            return True
        st, res = self.sess.trace(W.ops)
        if st != "ok":
            self.mismatch = ("model " + st, opsx, real_outcome, repr(res)[-400:])
            return False
        if opsx is not None:
            mout, mstate0 = res[-2] if died else res[-1]
            if new_obj is not None and mout == "ok":
                W.register(new_obj, decode_state(mstate0)[1] - 1)
        else:
            mout = real_outcome
        if died and res[-1][0] != "ok":
            self.mismatch = ("gc", W.ops[-1], "objects died", res[-1][0])
            return False
        mstate = res[-1][1]
        M, nxt, _writes = decode_state(mstate)
        self.state, self.nxt = M, nxt
        if mout != real_outcome:
            self.mismatch = ("outcome", opsx, real_outcome, mout)
            return False
        d = sync(W, M)
        if d:
            self.mismatch = ("state", opsx, d[:6], "see model state")
            return False
        return True

    # -- oracles (never look at the model)
    def oracle_after(self, desc, before, outcome, target_obj=None):
        W = self.W
        after = snapshot_locked(W)
        kind = desc["op"]
        # O1 locked_frozen: entries of a node that was locked before the call are unchanged by the call
        for mid, b in before.items():
            a = after.get(mid)
            if a is None or not b["is_locked"]:
                continue
            if b["ents"] != a["ents"]:
                if kind == "memmap" and [k for k, _ in b["ents"]] == [k for k, _ in a["ents"]] and \
                        all(x == y or x[1][0] == "l" for x, y in zip(b["ents"], a["ents"])):
                    continue   # documented storage conversion: leaves rebound, keys and nodes intact
                if kind == "makememmap" and desc.get("n") == mid and len(a["ents"]) == len(b["ents"]) + 1 and a["ents"][:-1] == b["ents"]:
                    continue   # documented: make_memmap adds the key it was given
                self.oracle.append(("locked_frozen:structure",
                                    {"node": mid, "before": [k for k, _ in b["ents"]], "after": [k for k, _ in a["ents"]], "outcome": outcome},
                                    {"call": kind, "effect": "keys" if [k for k, _ in b["ents"]] != [k for k, _ in a["ents"]] else "rebound",
                                     "stream": "history", "pattern": "exclude-inplace-on-locked" if kind == "exclude" and outcome == "ok" else None}))
                self.flags["locked_mutation"] += 1
        # a call that raises leaves the lock state of every locked node as it was; no call other than unlock_ unlocks a node
        for mid, b in before.items():
            a = after.get(mid)
            if a is None or not b["is_locked"] or a["is_locked"]:
                continue
            if outcome != "ok":
                self.oracle.append(("member_cannot_unlock:flags-not-restored", {"node": mid, "call": kind, "outcome": outcome},
                                    {"call": kind, "effect": "unlocked-on-raise", "stream": "history",
                                     "pattern": "unlock-error-path-raises-non-runtime" if kind == "unlock" and outcome.startswith("other:") else None}))
            elif kind != "unlock":
                self.oracle.append(("locked_frozen:unlocked-by-call", {"node": mid, "call": kind},
                                    {"call": kind, "effect": "unlocked", "stream": "history"}))
            elif target_obj is not None and b["raw"] is True and b["oid"] not in W.reachable(target_obj):
                self.oracle.append(("member_cannot_unlock:unlocked-outside-root", {"node": mid, "root": desc.get("n")},
                                    {"call": "unlock_", "effect": "unlocked-outside", "stream": "history"}))
        if kind == "unlock" and target_obj is not None:
            tid = id(target_obj)
            locked_parents = [m for m, b in before.items() if b["raw"] is True and tid in b["children"] and b["oid"] != tid]
            if locked_parents:
                # O2 member_cannot_unlock
                self.flags["member_unlock"] += 1
                changed = [m for m, b in before.items() if m in after and b["is_locked"] and not after[m]["is_locked"]]
                if outcome == "ok" or changed:
                    via_mm = all(before[m]["mm"] for m in locked_parents)
                    self.oracle.append(("member_cannot_unlock:unlocked" if outcome == "ok" else "member_cannot_unlock:flags-not-restored",
                                        {"node": desc.get("n"), "locked_parents": locked_parents, "flags_changed": changed, "outcome": outcome},
                                        {"call": "unlock_", "effect": "unlocked", "stream": "history",
                                         "parent_locked_by": "memmap_" if via_mm else "lock_",
                                         "hollow_lazy": bool(hollow(W, target_obj)),
                                         "pattern": ("member-unlock:parent-locked-by-memmap_" if via_mm and outcome == "ok" else
                                                     "member-unlock:hollow-lazy-stack" if hollow(W, target_obj) and outcome == "ok" else
                                                     "unlock-error-path-raises-non-runtime" if outcome.startswith("other:") else None)}))
            # O5 shared_node / gc_parent: a node of the subtree with a live lock_-locked parent OUTSIDE the subtree forbids the unlock
            sub = W.reachable(target_obj)
            outside = [(m, b) for m, b in before.items() if b["raw"] is True and b["oid"] not in sub and not b["mm"]
                       and any(cid in sub and not hollow(W, sub[cid]) for cid in b["children"])]
            if outside and not locked_parents:
                self.flags["shared"] += 1
                if outcome == "ok":
                    self.oracle.append(("shared_node:unlocked", {"root": desc.get("n"), "outside_parents": [m for m, _ in outside]},
                                        {"call": "unlock_", "effect": "unlocked-shared", "stream": "history", "pattern": None}))
            if outcome == "ok":
                sub_mids = {W.mid_of(x) for x in sub.values()}
                if any(b["dead_parents"] and b["is_locked"] for m, b in before.items() if m in sub_mids):
                    self.flags["gc_unlock"] += 1        # unlocked although a (collected) locked parent is still in the list
            if outcome == "ok":
                # O3 unlock_root_frees
                for x in W.reachable(target_obj).values():
                    if x.is_locked:
                        self.oracle.append(("unlock_root_frees:still-locked", {"root": desc.get("n"), "node": W.mid_of(x)},
                                            {"call": "unlock_", "effect": "still-locked", "stream": "history"}))
                        break
        return after

    # -- concrete ops
    def pick(self, xs):
        return xs[int(self.rng.random() * len(xs))] if xs else None

    def step(self, forced=None):
        """chooses one applicable op, executes it on the real objects and on the model, runs the oracles.  False = stop."""
        W, t, rng = self.W, self.t, self.rng
        TD, to = t["TD"], t["torch"]
        if not self.model_step(None, "ok"):      # objects that died since the last call (e.g. a dropped context manager) are reported first
            return False
        hs = sorted(W.handles)
        tds = [m for m in hs if W.kind(W.handles[m]) == "td"]
        lzs = [m for m in hs if W.kind(W.handles[m]) == "lazy"]
        if forced is not None:
            desc = dict(forced)
        else:
            desc = self.choose(hs, tds, lzs)
        if desc is None:
            return True
        self.trace.append(desc)
        self.count("op:" + desc["op"])
        op = desc["op"]
        before = snapshot_locked(W)
        outcome, new_obj, target = "ok", None, None
        n = desc.get("n")
        try:
            opsx = None
            if op == "newtd":
                new_obj = TD({}, batch_size=[2], device="cpu")
                opsx = "(newtd)"
            elif op == "newlazy":
                opsx = sx([Sym("newlazy"), desc["ms"]])
                new_obj = t["lazy_stack"]([W.handles[m] for m in desc["ms"]], 1) if desc["ms"] else t["Lazy"](stack_dim=0)
            elif op == "lock":
                target = W.handles[n]
                opsx = sx([Sym("lock"), n])
                target.lock_()
            elif op == "unlock":
                target = W.handles[n]
                opsx = sx([Sym("unlock"), n])
                target.unlock_()
            elif op == "set":
                opsx = sx([Sym("set"), n, desc["k"], Sym("leaf") if desc["v"] == "leaf" else (Sym("newtd") if desc["v"] == "newtd" else [Sym("node"), desc["v"]])])
                v = W.fresh_tensor() if desc["v"] == "leaf" else (TD({}, batch_size=[2], device="cpu") if desc["v"] == "newtd" else W.handles[desc["v"]])
                h, key = self.route(desc, n)
                if desc.get("setitem"):
                    h[key] = v
                else:
                    h.set(key, v)
                if desc["v"] not in ("leaf", "newtd") and W.handles[n]._tensordict.get(desc["k"]) is not v:
                    self.unsupported = "value was copied on set"
            elif op == "setbest":
                opsx = sx([Sym("setbest"), n, desc["k"]])
                h, key = self.route(desc, n)
                val = W.fresh_tensor()
                h.set(key, val, inplace=True)
                self.check_written(desc, W.handles[n], desc["k"], val)
            elif op == "setinplace":
                opsx = sx([Sym("setinplace"), n, desc["k"]])
                h, key = self.route(desc, n)
                val = W.fresh_tensor()
                h.set_(key, val)
                self.check_written(desc, W.handles[n], desc["k"], val)
            elif op == "del":
                opsx = sx([Sym("del"), desc["hn"], n, desc["k"]])
                h, key = self.route(desc, n)
                if desc.get("delitem"):
                    del h[key]
                else:
                    h.del_(key)
            elif op == "pop":
                opsx = sx([Sym("pop"), desc["hn"], n, desc["k"]])
                h, key = self.route(desc, n)
                h.pop(key)
            elif op == "rename":
                opsx = sx([Sym("rename"), n, desc["k"], desc["k2"], bool(desc["safe"])])
                W.handles[n].rename_key_(desc["k"], desc["k2"], safe=bool(desc["safe"]))
            elif op == "clear":
                opsx = sx([Sym("clear"), n])
                W.handles[n].clear()
            elif op == "popitem":
                opsx = sx([Sym("popitem"), n])
                W.handles[n].popitem()
            elif op == "select":
                opsx = sx([Sym("select"), n, list(desc["ks"])])
                W.handles[n].select(*desc["ks"], inplace=True)
            elif op == "exclude":
                opsx = sx([Sym("exclude"), n, list(desc["ks"])])
                W.handles[n].exclude(*desc["ks"], inplace=True)
            elif op == "lcall":
                L, sub = W.handles[n], desc["sub"]
                members = self.leaf_members(L)
                self.count("lcall:" + sub)
                self.count("lcall:stack-" + ("locked" if L.is_locked else ("some-member-locked" if any(x.is_locked for x in members) else "unlocked")))
                if any(W.kind(m) == "lazy" for m in L.tensordicts):
                    self.count("lcall:nested-stack")
                if sub in ("set", "setitem", "update"):
                    W.counter += 1.0
                    val = to.full(tuple(L.batch_size), W.counter)
                    opsx = sx([Sym("lcall"), n, [Sym("update" if sub == "update" else "set"), desc["k"]]])
                    if sub == "set":
                        L.set(desc["k"], val)
                    elif sub == "setitem":
                        L[desc["k"]] = val
                    else:
                        L.update({desc["k"]: val})
                elif sub in ("del", "delitem"):
                    opsx = sx([Sym("lcall"), n, [Sym("del"), desc["k"]]])
                    if sub == "del":
                        L.del_(desc["k"])
                    else:
                        del L[desc["k"]]
                elif sub == "rename":
                    opsx = sx([Sym("lcall"), n, [Sym("rename"), desc["k"], desc["k2"], bool(desc["safe"])]])
                    L.rename_key_(desc["k"], desc["k2"], safe=bool(desc["safe"]))
                elif sub == "select":
                    opsx = sx([Sym("lcall"), n, [Sym("select"), list(desc["ks"])]])
                    L.select(*desc["ks"], inplace=True)
                elif sub == "exclude":
                    opsx = sx([Sym("lcall"), n, [Sym("exclude"), list(desc["ks"])]])
                    L.exclude(*desc["ks"], inplace=True)
                else:
                    raise Desync("unknown routed call " + sub)
            elif op == "append":
                opsx = sx([Sym("append"), n, desc["m"]])
                W.handles[n].append(W.handles[desc["m"]])
            elif op == "insert":
                opsx = sx([Sym("insert"), n, desc["i"], desc["m"]])
                W.handles[n].insert(desc["i"], W.handles[desc["m"]])
            elif op == "memmap":
                opsx = sx([Sym("memmap"), n])
                W.handles[n].memmap_()
            elif op == "share":
                opsx = sx([Sym("share"), n])
                W.handles[n].share_memory_()
            elif op == "pickle":
                opsx = sx([Sym("pickle"), n])
                try:
                    new_obj = pickle.loads(pickle.dumps(W.handles[n]))
                except TypeError:
                    # `_last_op_queue` of a node that is (or was, after an escaping exception) inside a with-block holds weakrefs:
                    # such an object cannot be pickled at all; nothing happened, the call is dropped from the history
                    self.count("pickle:unpicklable-inside-with-block")
                    self.trace.pop()
                    return True
            elif op == "makememmap":
                opsx = sx([Sym("makememmap"), n, desc["k"]])
                W.handles[n].make_memmap(desc["k"], (2,))
            elif op == "get":
                # obtain a handle on a child through the public API (no model step)
                o = W.handles[n]
                c = o.get(desc["k"]) if W.kind(o) == "td" else o.tensordicts[desc["i"]]
                cm = W.mid_of(c)
                if cm is None and self.model_off and W.is_node(c):
                    self.fake += 1
                    cm = self.fake
                    W.register(c, cm)
                if cm is not None:
                    W.handles[cm] = c
                return True
            elif op == "drop":
                del W.handles[n]
                opsx = None
            else:
                raise Desync("unknown op " + op)
        except Desync:
            raise
        except Exception as e:  # noqa: BLE001 -- the exception class is the observable
            outcome = exc_enum(e)
            new_obj = None
        desc["outcome"] = outcome
        self.count("outcome:" + outcome)
        if self.unsupported:
            return False
        if op != "drop":
            after = self.oracle_after(desc, before, outcome, target)       # the oracle never looks at the model: evaluated first
            if op == "lcall":
                changed = [m for m, b in before.items() if m in after and b["ents"] != after[m]["ents"]]
                self.count("lcall:outcome:" + outcome)
                if outcome != "ok" and changed:
                    self.count("lcall:raised-after-partial-effect")
                if before[n]["is_locked"]:
                    self.count("lcall:on-locked-stack:" + outcome)
                    if changed:
                        # a locked stack (stored flag or derived from its members): nothing changes anywhere, not even an unlocked node
                        self.oracle.append(("locked_frozen:routed-call-on-locked-stack", {"stack": n, "sub": desc["sub"], "outcome": outcome, "changed": changed},
                                            {"call": "lazy." + desc["sub"], "effect": "changed", "stream": "history",
                                             "pattern": None}))
        if op in ("lock", "unlock") and outcome.startswith("other:"):
            # the lock error path formats repr(self), which raises TypeError/AttributeError for some heterogeneous lazy stacks:
            # for the model this is the lock error (since the fix of D60 the state is restored whatever was raised)
            self.count("unlock-error-message-raised-" + outcome[6:])
            outcome = "runtime"
        if not self.model_step(opsx, outcome, new_obj):
            return False
        if new_obj is not None:
            m = W.mid_of(new_obj)
            if m is not None:
                W.handles[m] = new_obj
        return True

    def check_written(self, desc, node, k, val):
        """O4: an in-place write on an existing leaf is visible (and was possible)"""
        cur = node._tensordict.get(k)
        if cur is not None and not self.W.is_node(cur) and not bool((cur == val).all()):
            self.oracle.append(("inplace_write:not-visible", {"node": desc.get("n"), "key": k},
                                {"call": desc["op"], "effect": "write-lost", "stream": "history"}))

    def route(self, desc, n):
        """the call is issued on the node itself or through an ancestor handle with a nested key"""
        W = self.W
        via = desc.get("via")
        if not via:
            return W.handles[n], desc["k"]
        return W.handles[via[0]], tuple(via[1]) + (desc["k"],)

    def paths_to(self, n, limit=3):
        """(handle mid, key path) pairs that reach TD node n through TD nodes only"""
        W = self.W
        out = []
        tgt = W.handles[n]

        def walk(o, path, root):
            if len(path) > limit:
                return
            for k, v in W.entries(o):
                if W.kind(o) != "td" or not W.is_node(v) or W.kind(v) != "td":
                    continue
                if v is tgt:
                    out.append((root, path + [k]))
                walk(v, path + [k], root)
        for m, o in W.handles.items():
            if W.kind(o) == "td" and o is not tgt:
                walk(o, [], m)
        return out

    def routable(self, o, depth=0):
        """a lazy stack with members all the way down (TensorDict members, or lazy stacks that are routable themselves)"""
        W = self.W
        if W.kind(o) == "td":
            return type(o) is self.t["TD"]
        if not (depth < 6 and len(o.tensordicts) > 0 and all(self.routable(m, depth + 1) for m in o.tensordicts)):
            return False
        # the batch size a stack recorded is the one of its construction: a member stack that has grown since (insert / append)
        # leaves it stale, and no value of a valid shape exists any more (a shape matter, outside this property)
        mb = [tuple(m.batch_size) for m in o.tensordicts]
        d = o.stack_dim
        return all(b == mb[0] for b in mb) and tuple(o.batch_size) == mb[0][:d] + (len(mb),) + mb[0][d:]

    def leaf_members(self, o):
        W = self.W
        if W.kind(o) == "td":
            return [o]
        return [x for m in o.tensordicts for x in self.leaf_members(m)]

    def choose(self, hs, tds, lzs):
        W, rng = self.W, self.rng
        r = rng.random()
        if not tds or (r < 0.08 and len(hs) < 9):
            return {"op": "newtd"}
        table = [("lock", 14), ("unlock", 14), ("set", 14), ("setnode", 9), ("setbest", 3), ("setinplace", 3), ("del", 5), ("pop", 2),
                 ("rename", 3), ("clear", 1), ("popitem", 1), ("select", 2), ("exclude", 3), ("newlazy", 3), ("append", 3), ("insert", 1),
                 ("memmap", 2), ("share", 2), ("pickle", 3), ("makememmap", 1), ("get", 8), ("drop", 6), ("lcall", 9)]
        tot = sum(w for _, w in table)
        x = rng.random() * tot
        for name, w in table:
            x -= w
            if x < 0:
                break
        if name in ("lock", "unlock"):
            return {"op": name, "n": self.pick(hs)}
        if name == "lcall":
            # a structural call on a lazy-stack handle, routed to the members (Model/C05_LazyCall.v)
            cands = [m for m in lzs if self.routable(W.handles[m])]
            if not cands:
                return None
            l = self.pick(cands)
            keys = sorted({k for x in self.leaf_members(W.handles[l]) for k, _ in W.entries(x)})
            sub = self.pick(["set", "setitem", "update", "del", "delitem", "rename", "select", "exclude"])
            d = {"op": "lcall", "n": l, "sub": sub}
            if sub in ("set", "setitem", "update"):
                d["k"] = self.pick(KEYS)
            elif sub in ("del", "delitem"):
                d["k"] = self.pick(keys) if keys and rng.random() < 0.8 else self.pick(KEYS)
            elif sub == "rename":
                d["k"] = self.pick(keys) if keys and rng.random() < 0.85 else self.pick(KEYS)
                d["k2"], d["safe"] = self.pick(KEYS), rng.random() < 0.3
            else:
                ks = [k for k in KEYS if rng.random() < 0.4]
                if sub == "select" and rng.random() < 0.7:
                    ks = [k for k in ks if k in keys]
                d["ks"] = ks
            return d
        n = self.pick(tds)
        o = W.handles[n]
        keys = [k for k, _ in W.entries(o)]
        leafkeys = [k for k, v in W.entries(o) if not W.is_node(v)]

        def maybe_via(d):
            if rng.random() < 0.35:
                ps = self.paths_to(n)
                if ps:
                    hm, path = self.pick(ps)
                    d["via"] = [hm, path]
                    d["hn"] = hm
            return d
        if name == "set":
            return maybe_via({"op": "set", "n": n, "k": self.pick(KEYS), "v": "leaf", "setitem": rng.random() < 0.4})
        if name == "setnode":
            cands = [m for m in hs if m != n and id(o) not in W.reachable(W.handles[m]) and tuple(W.handles[m].batch_size[:1]) == (2,)]
            if cands and rng.random() < 0.7:
                return {"op": "set", "n": n, "k": self.pick(KEYS), "v": self.pick(cands)}
            return {"op": "set", "n": n, "k": self.pick(KEYS), "v": "newtd"}
        if name == "setbest":
            ks = [k for k in KEYS if k not in keys or k in leafkeys]
            return maybe_via({"op": "setbest", "n": n, "k": self.pick(leafkeys) if leafkeys and rng.random() < 0.7 else self.pick(ks)}) if ks else None
        if name == "setinplace":
            ks = [k for k in KEYS if k not in keys or k in leafkeys]
            return maybe_via({"op": "setinplace", "n": n, "k": self.pick(leafkeys) if leafkeys and rng.random() < 0.8 else self.pick(ks)}) if ks else None
        if name in ("del", "pop"):
            k = self.pick(keys) if keys and rng.random() < 0.8 else self.pick(KEYS)
            d = maybe_via({"op": name, "n": n, "hn": n, "k": k})
            if name == "del":
                d["delitem"] = rng.random() < 0.3
            return d
        if name == "rename":
            return {"op": "rename", "n": n, "k": self.pick(keys) if keys and rng.random() < 0.85 else self.pick(KEYS), "k2": self.pick(KEYS),
                    "safe": rng.random() < 0.3}
        if name in ("clear", "popitem"):
            return {"op": name, "n": n}
        if name in ("select", "exclude"):
            ks = [k for k in KEYS if rng.random() < 0.4]
            if name == "select" and rng.random() < 0.7:
                ks = [k for k in ks if k in keys]
            return {"op": name, "n": n, "ks": ks}
        if name == "newlazy":
            if len(hs) >= 9:
                return None
            # members: TensorDict handles (batch [2]) or lazy handles of equal batch size
            if lzs and rng.random() < 0.25:
                bs = {}
                for m in lzs:
                    bs.setdefault(tuple(W.handles[m].batch_size), []).append(m)
                grp = self.pick(sorted(bs.values()))
                ms = [m for m in grp if rng.random() < 0.7][:2]
            else:
                ms = [m for m in tds if rng.random() < 0.5][:3]
                if rng.random() < 0.15 and ms:
                    ms = ms + [ms[0]]
            return {"op": "newlazy", "ms": ms}
        if name in ("append", "insert"):
            if not lzs:
                return None
            l = self.pick(lzs)
            L = W.handles[l]
            if L.tensordicts:
                want = tuple(L.tensordicts[0].batch_size)
                cands = [m for m in hs if m != l and tuple(W.handles[m].batch_size) == want and id(L) not in W.reachable(W.handles[m])]
            else:
                cands = [m for m in tds]
            if not cands:
                return None
            d = {"op": name, "n": l, "m": self.pick(cands)}
            if name == "insert":
                d["i"] = int(rng.random() * (len(L.tensordicts) + 1))
            return d
        if name in ("memmap", "share"):
            m = self.pick(hs)
            o2 = W.handles[m]
            if not W.leaves_plain(o2):
                return None
            if name == "memmap" and any(getattr(x, "_is_memmap", False) for x in W.reachable(o2).values()):
                return None
            return {"op": name, "n": m}
        if name == "pickle":
            if len(W.wr) > 40:
                return None
            return {"op": "pickle", "n": self.pick(hs)}
        if name == "makememmap":
            return {"op": "makememmap", "n": n, "k": self.pick(KEYS)}
        if name == "get":
            m = self.pick(hs)
            o2 = W.handles[m]
            es = [(i, k, v) for i, (k, v) in enumerate(W.entries(o2)) if W.is_node(v)]
            if not es:
                return None
            i, k, _v = self.pick(es)
            return {"op": "get", "n": m, "k": k, "i": i}
        if name == "drop":
            if len(hs) < 2:
                return None
            return {"op": "drop", "n": self.pick(hs)}
        return None

    def preamble(self):
        """a starting structure (built with the same public calls, so the model follows): chains, a node under two parents,
        lazy stacks of nested members -- then the random part takes over"""
        r = self.rng.random()
        T = lambda: {"op": "newtd"}                                             # noqa: E731
        S = lambda n, k, v, **kw: dict({"op": "set", "n": n, "k": k, "v": v}, **kw)   # noqa: E731
        if r < 0.2:
            return []
        if r < 0.3:       # gc of a locked parent: root 0 -> 1 -> 2, root locked then dropped; its members can be unlocked afterwards
            return [T(), T(), T(), S(0, "a", 1), S(1, "b", 2), S(2, "c", "leaf"), {"op": "lock", "n": 0}, {"op": "unlock", "n": 1},
                    {"op": "drop", "n": 0}, {"op": "unlock", "n": 2}, {"op": "unlock", "n": 1}]
        # (identities are allocated in call order, nodes and leaves from one counter: nodes first, leaves last)
        if r < 0.45:      # chain 0 -> 1 -> 2 with leaves
            return [T(), T(), T(), S(0, "b", 1), S(1, "c", 2), S(0, "a", "leaf"), S(1, "a", "leaf"), S(2, "d", "leaf")]
        if r < 0.65:      # node 2 under two roots 0 and 1, with a nested child 3
            return [T(), T(), T(), T(), S(0, "a", 2), S(1, "b", 2), S(2, "c", 3), S(3, "d", "leaf"), S(0, "d", "leaf")]
        if r < 0.85:      # lazy stack 4 = [1, 2] (member 1 nested) under root 0
            return [T(), T(), T(), T(), {"op": "newlazy", "ms": [1, 2]}, S(1, "b", 3), S(0, "c", 4), S(1, "a", "leaf"), S(2, "a", "leaf")]
        # lazy stack 6 of lazy stacks [3, 3]; member 0 of 3 is also held by the plain root 5
        return [T(), T(), T(), {"op": "newlazy", "ms": [0, 1]}, {"op": "newlazy", "ms": [2]}, T(), {"op": "newlazy", "ms": [3, 3]},
                S(5, "a", 0)]

    def run_with_block(self, body_len):
        """`with h.unlock_(): body` / `with h.lock_(): body` executed as a real with-statement; the model sees the op sequence"""
        W, rng = self.W, self.rng
        if not self.model_step(None, "ok"):
            return False
        hs = sorted(W.handles)
        n = self.pick(hs)
        if n is None:
            return True
        which = "unlock" if rng.random() < 0.6 else "lock"
        escape = rng.random() < 0.2
        h = W.handles[n]
        self.count("op:with-" + which)
        pre = bool(h.is_locked)
        before = snapshot_locked(W)
        try:
            cm = h.unlock_() if which == "unlock" else h.lock_()
            out = "ok"
        except Exception as e:  # noqa: BLE001
            out = exc_enum(e)
            cm = None
        d = {"op": which, "n": n, "outcome": out, "with": "enter", "escape": escape}
        self.trace.append(d)
        self.oracle_after(d, before, out, h)
        if out.startswith("other:"):
            out = "runtime"
        if not self.model_step(sx([Sym(which), n]), out):
            return False
        if cm is None:
            return True
        post = bool(h.is_locked)
        ok, exit_exc = True, None
        before_exit = None
        self.pinned.append(h)
        try:
            with cm:
                for _ in range(body_len):
                    if not self.step():
                        ok = False
                        break
                before_exit = snapshot_locked(W)
                if escape and ok:
                    raise ValueError("escape")
        except ValueError:
            pass
        except Exception as e:  # noqa: BLE001 -- raised by the inverse call inside __exit__ (body calls are caught one by one)
            exit_exc = exc_enum(e)
        cm = None
        self.pinned.pop()
        if not ok:
            return False
        if post != pre:
            # __exit__ reverts lock_()/unlock_() also when the body raised (fix D53-D54-D60)
            inv = "lock" if which == "unlock" else "unlock"
            out = exit_exc or "ok"
            d = {"op": inv, "n": n, "outcome": out, "with": "exit"}
            self.trace.append(d)
            if before_exit is not None:
                self.oracle_after(d, before_exit, out, h)
            if out.startswith("other:"):
                out = "runtime"
            if not self.model_step(sx([Sym(inv), n]), out):
                return False
        return True


def run_history(t, sess, seed, nops, quick, forced=None):
    H = HistoryRunner(t, sess, seed, quick)
    try:
        if forced is not None:
            for d in forced:   # with-blocks are replayed as the plain call sequence they amount to
                if not H.step(forced={k: v for k, v in d.items() if k not in ("outcome", "with", "escape", "died")}):
                    break
        else:
            for d in H.preamble():
                if not H.step(forced=d):
                    break
            i = 0
            while i < nops and not H.mismatch and not H.unsupported:
                if H.rng.random() < 0.06 and H.W.handles:
                    ok = H.run_with_block(1 + int(H.rng.random() * 3))
                    i += 3
                else:
                    ok = H.step()
                    i += 1
                if not ok:
                    break
    except Desync as e:
        H.mismatch = ("desync", str(e), None, None)
    finally:
        for d in H.W.tmp:
            shutil.rmtree(d, ignore_errors=True)
    return H


# ====================================================================================================== workers
def _worker_hist(args):
    seeds, nops, quick = args
    RF, t = _imports()
    os.chdir(tempfile.mkdtemp(prefix="c05-cwd-"))
    sess = Session()
    out = []
    for sd in seeds:
        try:
            H = run_history(t, sess, sd, nops, quick)
            out.append({"seed": sd, "trace": H.trace, "mismatch": H.mismatch, "oracle": H.oracle, "stats": H.stats, "flags": H.flags,
                        "unsupported": H.unsupported, "model_ops": list(H.W.ops)})
        except Exception:  # noqa: BLE001 -- a bug of the harness is reported as a broken check, never as a crash of the pool
            import traceback
            out.append({"seed": sd, "harness_error": traceback.format_exc()[-1200:]})
            try:
                sess.close()
            except Exception:  # noqa: BLE001
                pass
            sess = Session()
        H = None
        gc.collect()
    sess.close()
    return out


def _worker_reflect(args):
    tasks, seed = args
    RF, t = _imports()
    cwd = tempfile.mkdtemp(prefix="c05-cwd-")
    os.chdir(cwd)
    out = []
    for (fx, hn, m, v) in tasks:
        o = RF.run_call(fx, hn, m, v, seed)
        o["judged"] = RF.judge(o)
        o.pop("meta", None)
        out.append(o)
    os.chdir("/")
    shutil.rmtree(cwd, ignore_errors=True)
    return out


POOL_TIMEOUT = [900]


def _pool(fn, jobs, procs):
    """fork pool; a worker that dies is reported (BrokenProcessPool) instead of hanging the check"""
    import multiprocessing as mp
    from concurrent.futures import ProcessPoolExecutor
    ctx = mp.get_context("fork")
    ex = ProcessPoolExecutor(max_workers=min(procs, max(1, len(jobs))), mp_context=ctx)
    try:
        return list(ex.map(fn, jobs, timeout=POOL_TIMEOUT[0]))
    finally:
        ex.shutdown(wait=False, cancel_futures=True)


# ====================================================================================================== streams
def _worker_discover(fixtures):
    """(in a child process: building the fixtures starts torch's shared-memory machinery, which must not be forked from)"""
    RF, t = _imports()
    os.chdir(tempfile.mkdtemp(prefix="c05-cwd-"))
    out, errors = [], []
    for fx in fixtures:
        try:
            roots, handles, tmp, meta = RF.FIXTURES[fx]()
        except Exception as e:  # noqa: BLE001
            errors.append(f"reflection fixture {fx} cannot be built: {type(e).__name__}: {e}")
            continue
        for d in tmp:
            shutil.rmtree(d, ignore_errors=True)
        for hn, h in handles.items():
            meths, skipped = RF.public_methods(type(h))
            out.append((fx, hn, type(h).__name__, meths, skipped))
    return out, errors


QUICK_SKIP_HANDLES = {("nested_ctor", "n.m"), ("nested_memmap", "n.m"), ("nested_pickle", "n.m"), ("nested_shared", "n"),
                      ("lazy_hetero", "n"), ("lazy_members_first", "n"), ("td_tc", "tc.n"), ("lazy_lazy", "i0.m1")}


def stream_reflection(R, RF, nvar, fixtures):
    tasks = []
    meth_count = {}
    skipped_tot = {}
    (disc, errors), = _pool(_worker_discover, [fixtures], 1)
    R.broken.extend(errors)
    for (fx, hn, tname, meths, skipped) in disc:
        if R.quick and (fx, hn) in QUICK_SKIP_HANDLES:
            continue      # the deepest handle of the fixtures that only differ from `nested` by the way they became locked (thorough runs them)
        meth_count[tname] = len(meths)
        for k, v in skipped.items():
            skipped_tot[tname + ":" + k] = v
        for m in meths:
            for v in range(nvar):
                tasks.append((fx, hn, m, v))
    R.rng.shuffle(tasks)
    nj = 64
    jobs = [(tasks[i::nj], R.seed) for i in range(nj)]
    res = _pool(_worker_reflect, jobs, 16)
    called_methods, all_methods, never_bound = set(), set(), {}
    unsynth_first = {}
    for chunk in res:
        for o in chunk:
            key = (o["fixture"], o["handle"], o["method"])
            all_methods.add(key)
            st = o["status"]
            if st == "unsynth":
                if o["variant"] == 0:
                    unsynth_first[o["method"]] = o["detail"]
                    R.count("reflect:unsynthesised-call")
                continue
            if st != "called":
                R.broken.append(f"reflection harness error on {key}: {o.get('detail')}")
                continue
            R.count("reflect:outcome:" + o["outcome"])
            R.count("reflect:fixture:" + o["fixture"])
            past_binding = o["outcome"] != "TypeError"
            if past_binding:
                called_methods.add(key)
            R.case(("reflect",) + key + (o["variant"],), nontrivial=past_binding and o.get("locked_before", False),
                   sample={"fixture": o["fixture"], "handle": o["handle"], "call": o["method"], "args": o.get("args"), "kwargs": o.get("kwargs"),
                           "outcome": o["outcome"]} if (o["method"] in ("update", "exclude", "rename_key_") and o["variant"] == 0 and o["handle"] == "root") else None)
            R.traces += 1
            for (label, detail, sig) in o["judged"]:
                R.oracle_fail(label, {"stream": "reflection", "fixture": o["fixture"], "handle": o["handle"], "method": o["method"],
                                      "variant": o["variant"], "seed": R.seed},
                              {"diff": detail[:8], "args": o.get("args"), "kwargs": o.get("kwargs"), "outcome": o["outcome"], "exc": o.get("exc")},
                              dict(sig, stream="reflection"))
    never = sorted({m for (_f, _h, m) in all_methods} - {m for (_f, _h, m) in called_methods})
    R.extra["reflection"] = {
        "public_methods_per_class": meth_count,
        "not_called_by_design": dict(sorted(skipped_tot.items())),
        "excluded_names": RF.EXCLUDED,
        "methods_never_past_argument_binding": never,
        "methods_without_candidate_for_a_required_parameter": unsynth_first,
        "distinct_method_x_fixture_x_handle_called": len(called_methods),
        "distinct_method_x_fixture_x_handle_total": len(all_methods),
        "variants_per_method": nvar,
    }


def stream_writes(R, RF, t):
    """in-place value writes stay possible on a locked tree (and do not touch the structure)"""
    to = t["torch"]
    for fx in ["nested", "nested_memmap", "nested_shared", "nested_pickle", "lazy", "td_lazy", "tc", "td_tc", "shared_node", "nested_ctor"]:
        for wname in ["set_", "set-inplace", "update_", "update-inplace", "setitem-index", "fill_", "zero_", "apply_", "set_at_", "iadd", "copy_"]:
            tmpd = []
            try:
                roots, handles, tmp, meta = RF.FIXTURES[fx]()
                tmpd += tmp
                for hn, h in handles.items():
                    before = RF.Snap(roots)
                    try:
                        ks = [k for k in h.keys() if isinstance(h.get(k), to.Tensor)]
                    except Exception:  # noqa: BLE001
                        ks = []
                    if not ks:
                        continue
                    k = ks[0]
                    shp = tuple(h.get(k).shape)
                    val = to.full(shp, 9.0)
                    def do_write(h, wname=wname, k=k, val=val, shp=shp):
                        v = val
                        if wname == "set_":
                            h.set_(k, val)
                        elif wname == "set-inplace":
                            h.set(k, val, inplace=True)
                        elif wname == "update_":
                            h.update_({k: val})
                        elif wname == "update-inplace":
                            h.update({k: val}, inplace=True)
                        elif wname == "setitem-index":
                            h[0] = h[0].clone()
                            v = None
                        elif wname == "fill_":
                            h.fill_(k, 9.0)
                        elif wname == "zero_":
                            h.zero_()
                            v = to.zeros(shp)
                        elif wname == "apply_":
                            h.apply_(lambda x: x.mul_(0).add_(9.0) if isinstance(x, to.Tensor) else x)
                        elif wname == "set_at_":
                            h.set_at_(k, val[0], 0)
                            v = None
                        elif wname == "iadd":
                            h += 1.0
                            v = None
                        elif wname == "copy_":
                            h.copy_(h.clone())
                            v = None
                        return v
                    try:
                        val = do_write(h)
                        outcome = "ok"
                    except Exception as e:  # noqa: BLE001
                        outcome = type(e).__name__ + ": " + str(e)[:120]
                        # control: the same write on an unlocked copy -- a write that is not possible there either is not a matter of locking
                        try:
                            ctl = h.clone()
                            if ctl.is_locked:
                                ctl.unlock_()
                            do_write(ctl)
                        except Exception:  # noqa: BLE001
                            R.count("write:not-applicable-even-unlocked")
                            continue
                    after = RF.Snap(roots)
                    R.case(("write", fx, hn, wname), nontrivial=True)
                    R.count("write:" + ("ok" if outcome == "ok" else "raised"))
                    R.traces += 1
                    sd = RF.diff_struct(before.structure(), after.structure())
                    case = {"stream": "writes", "fixture": fx, "handle": hn, "write": wname}
                    if outcome != "ok":
                        has_nt = any(r[0] in ("nontensor", "nontensor-field") for r in before.rows.values())
                        pat = ("tensorclass-set-inplace-rejected-under-lock" if (wname == "set-inplace" and RF.kind_of(h) == "tc" and outcome.startswith("RuntimeError"))
                               else "inplace-write-over-nontensor-leaf-rejected-under-lock" if (has_nt and wname in ("apply_", "copy_", "update_", "update-inplace", "iadd", "zero_")) else None)
                        R.oracle_fail("inplace_write:rejected", case, {"outcome": outcome},
                                      {"call": wname, "effect": "write-rejected", "fixture": fx, "stream": "writes", "pattern": pat})
                    elif sd:
                        R.oracle_fail("locked_frozen:structure", case, {"diff": sd[:6]}, {"call": wname, "effect": "keys", "stream": "writes"})
                    elif val is not None and not bool((h.get(k) == val).all()):
                        R.oracle_fail("inplace_write:not-visible", case, {"key": str(k)}, {"call": wname, "effect": "write-lost", "stream": "writes"})
            except Exception as e:  # noqa: BLE001
                R.broken.append(f"writes stream: fixture {fx}: {type(e).__name__}: {e}")
            finally:
                for d in tmpd:
                    shutil.rmtree(d, ignore_errors=True)


def stream_histories(R, nhist, nops):
    seeds = [f"{R.seed}/h{i}" for i in range(nhist)]
    nj = 32
    jobs = [(seeds[i::nj], nops, R.quick) for i in range(nj)]
    res = _pool(_worker_hist, jobs, 16)
    flags_tot = {}
    for chunk in res:
        for h in chunk:
            if "harness_error" in h:
                R.broken.append(f"history harness error (seed {h['seed']}): {h['harness_error']}")
                continue
            for k, v in h["stats"].items():
                R.count("hist:" + k, v)
            for k, v in h["flags"].items():
                flags_tot[k] = flags_tot.get(k, 0) + v
            ops = [d["op"] for d in h["trace"]]
            nontrivial = ("lock" in ops or "memmap" in ops or "share" in ops) and len(ops) >= 5
            R.case(("hist", json.dumps(h["trace"], sort_keys=True, default=str)), nontrivial=nontrivial,
                   sample={"history": [{k: v for k, v in d.items() if k in ("op", "n", "k", "v", "outcome", "via")} for d in h["trace"][:12]]})
            R.traces += len(h["model_ops"])
            if h["unsupported"]:
                R.count("hist:stopped:" + h["unsupported"])
            if h["mismatch"]:
                kind, opsx, impl, model = h["mismatch"]
                R.mismatch("history:" + kind, {"stream": "history", "hseed": h["seed"], "trace": h["trace"], "model_ops": h["model_ops"]},
                           {"at": opsx, "impl": impl}, model)
                R.extra.setdefault("first_mismatches", []).append({"hseed": h["seed"], "kind": kind, "at": opsx, "impl": impl, "model": model,
                                                                   "trace_tail": h["trace"][-8:]}) if len(R.extra.get("first_mismatches", [])) < 3 else None
            for (label, detail, sig) in h["oracle"]:
                R.oracle_fail(label, {"stream": "history", "hseed": h["seed"], "trace": h["trace"], "model_ops": h["model_ops"]}, detail, sig)
    R.extra["history_scenarios"] = flags_tot


# ====================================================================================================== main / replay
def main(R):
    R.rule = ("histories: distinct op traces (concretised calls + outcomes), non-trivial when the trace has >= 5 calls and locks something; "
              "reflection: distinct (fixture, handle, method, argument variant), non-trivial when the call got past argument binding on a "
              "tree whose every node was locked; writes: distinct (fixture, handle, write kind)")
    R.assumptions = [
        "structure snapshot = key paths + id() of every node and tensor leaf (+ storage data_ptr) read from the containers' own storage "
        "(_tensordict, tensordicts, _param_td, _source); identity of NON-tensor leaves is not part of it (NonTensorData->NonTensorStack "
        "promotion on an indexed write is a value write of non-tensor data)",
        "documented exceptions: unlock_ issued on a root; memmap_/share_memory_/make_memmap* (bindings may change, entries may not disappear); "
        "load_/load_memmap_/memmap_refresh_ (content replaced from disk; the lock state they leave is still judged); batch_size/names are metadata",
        "garbage collection of parents is observed (weakrefs that died after the harness dropped its handle and ran gc.collect()) and fed to "
        "the model as OGc; the model does not predict which objects die",
        "h5 (PersistentTensorDict) and distributed/process-pool calls are outside the run (listed under reflection.excluded_names)",
    ]
    R.extra["stated_not_proved"] = {
        "model scope": "tensorclass / TensorDictParams / _SubTensorDict / NonTensorData are covered by the reflection and writes streams (oracle) "
                       "only, not by the model.  Calls routed through a lazy stack to its members are inside the model for set / stack[key]=v / "
                       "update({k: tensor}) / del_ / del stack[key] / rename_key_ / select(inplace) / exclude(inplace) with tensor values "
                       "(Model/C05_LazyCall.v, history ops `lcall`); pop / popitem / index assignment of a tensordict / update with a lazy-stack "
                       "source on a lazy stack stay with the oracle streams; the full statements of locked_frozen and "
                       "member_cannot_unlock are proved (the refutations of D7, D8, D55, D56 went away with the fix commits)"}
    R.trusted = ["harness/c05_reflect.py argument synthesis (coverage measured: reflection.* in this file)",
                 "pickle, mmap, shared memory, CPython weakref/gc behaviour"]
    try:
        from . import tr_c05
        from .translate import TranslateError
        try:
            R.extra["translated_tables"] = tr_c05.run()
        except TranslateError as e:
            R.broken.append(f"translator c05_tables: {e}")
    except ImportError as e:
        R.broken.append(f"translator c05_tables missing: {e}")
    R.step_prove()
    ok = R.step_driver()
    RF, t = _imports()
    old_cwd = os.getcwd()
    scratch = tempfile.mkdtemp(prefix="c05-main-")
    os.chdir(scratch)
    try:
        fixtures = RF.QUICK_FIXTURES if R.quick else list(RF.FIXTURES)
        # the pools fork: nothing that starts threads (shared memory, memmap executors) runs in this process before them
        import time
        t0 = time.time()
        POOL_TIMEOUT[0] = 900 if R.quick else 1500
        try:
            stream_reflection(R, RF, 6 if R.quick else 20, fixtures)
        except TimeoutError:
            R.broken.append("reflection stream: worker pool timed out (machine overloaded?)")
        t1 = time.time()
        if ok:
            try:
                stream_histories(R, 1200 if R.quick else 8000, 32 if R.quick else 45)
            except TimeoutError:
                R.broken.append("history stream: worker pool timed out (machine overloaded?)")
        t2 = time.time()
        stream_writes(R, RF, t)
        R.extra["stream_wall_s"] = {"reflection": round(t1 - t0, 1), "histories": round(t2 - t1, 1), "writes": round(time.time() - t2, 1)}
        if not R.quick:
            coqchk(R)
    finally:
        os.chdir(old_cwd)
        shutil.rmtree(scratch, ignore_errors=True)


def coqchk(R):
    """thorough tier: the independent checker re-checks the compiled property file and reports the axioms it depends on"""
    from .core import BuildLock, COQ, sh
    with BuildLock():
        rc, out = sh("timeout 1200 coqchk -silent -o -Q . TD TD.Props.C05", cwd=COQ, timeout=1300)
    import re
    m = re.search(r"\* Axioms:\s*(.*?)\n\s*\n", out, re.S)
    axioms = m.group(1).strip() if m else "?"
    R.extra["coqchk"] = {"rc": rc, "axioms": axioms}
    if rc != 0 or axioms != "<none>":
        R.broken.append(f"coqchk: rc={rc}, axioms: {axioms[:300]}")


def replay(body):
    RF, t = _imports()
    case = body.get("case", {})
    print(json.dumps(body.get("detail"), indent=1, default=str)[:3000])
    if case.get("stream") == "reflection":
        o = RF.run_call(case["fixture"], case["handle"], case["method"], case["variant"], case.get("seed", 0))
        o.pop("meta", None)
        print("implementation:", json.dumps({k: v for k, v in o.items() if not k.startswith("_")}, indent=1, default=str)[:3000])
        o2 = RF.run_call(case["fixture"], case["handle"], case["method"], case["variant"], case.get("seed", 0))
        print("oracle:", RF.judge(o2))
        print("model: (the reflection stream is judged by the oracle only)")
    elif case.get("stream") == "history":
        sess = Session()
        H = run_history(t, sess, case["hseed"], 0, True, forced=[d for d in case["trace"]])
        print("implementation trace:", json.dumps(H.trace, default=str)[:3000])
        print("model/implementation mismatch:", H.mismatch)
        print("oracle:", H.oracle)
        sess.close()
    elif case.get("stream") == "writes":
        print("re-run: fixture", case["fixture"], "handle", case["handle"], "write", case["write"])
    return 0
