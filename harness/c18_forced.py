"""C18 -- forced-branch program differential (no dynamo involved).

The same straight-line programs as harness/progs.py, extended with C18-local operations that reach more of the
is_compiling() sites (names, locks + cached methods, to(...), flatten/unflatten, consolidate, in-place arithmetic with a
tensordict operand, a TensorDictSequential with selected out-keys, a tensorclass round-trip), executed eagerly twice: with
is_compiling() forced to False and forced to True in EVERY tensordict module that imported it.  Compared: what the property
states -- batch size, sorted key set, per-leaf shape/dtype/values, dimension names, exception class.  Identity, lock graph,
caches, memo tables are not observed.  The wrapper also counts, per (file, function), how often each site was asked for the
flag, so that the evidence says which of the sites the run exercised."""
import collections
import importlib
import os
import sys

from . import progs

_MODS = None
HITS = collections.Counter()


def mods():
    global _MODS
    if _MODS is None:
        for m in ("tensordict.nn", "tensordict.tensorclass", "tensordict._contextlib", "tensordict._torch_func",
                  "tensordict._lazy", "tensordict.persistent"):
            try:
                importlib.import_module(m)
            except Exception:  # noqa: BLE001 -- optional module (h5py ...)
                pass
        _MODS = [m for n, m in sorted(sys.modules.items())
                 if n.startswith("tensordict") and callable(getattr(m, "is_compiling", None))]
    return _MODS


class Forced:
    """is_compiling() := val in every tensordict module; counts callers"""

    def __init__(self, val, count=True):
        self.val, self.count = bool(val), count

    def __enter__(self):
        ms = mods()
        self.old = [m.is_compiling for m in ms]
        val, count = self.val, self.count

        def is_compiling():
            if count:
                f = sys._getframe(1)
                HITS[(_rel(f.f_code.co_filename), f.f_code.co_qualname.replace("<locals>.", ""), val)] += 1
            return val
        for m in ms:
            m.is_compiling = is_compiling
        return self

    def __exit__(self, *a):
        for m, o in zip(mods(), self.old):
            m.is_compiling = o


def _rel(path):
    i = path.rfind("tensordict" + os.sep)
    return path[i + len("tensordict" + os.sep):] if i >= 0 else os.path.basename(path)


# ------------------------------------------------------------------ C18-local operations
NAMESETS = ["u", "v", "w", "s", "t"]
XOPS = {}


def xop(name):
    def deco(f):
        XOPS[name] = f
        return f
    return deco


def _torch():
    import torch
    return torch


@xop("refine_names")
def _refine(x, names): return x.refine_names(*names)
@xop("names_set")
def _names_set(x, names):
    y = x.copy()
    y.names = None if names is None else list(names)
    return y
@xop("construct_named")
def _construct_named(x, names):
    from tensordict import TensorDict
    return TensorDict(dict(x.items()), batch_size=x.batch_size, names=None if names is None else list(names))
@xop("to_dtype_kw")
def _to_kw(x): return x.to(dtype=_torch().float64)
@xop("to_dtype_pos")
def _to_pos(x): return x.to(_torch().float64)
@xop("to_device")
def _to_dev(x): return x.to("cpu")
@xop("to_device_dtype")
def _to_dev_dt(x): return x.to("cpu", _torch().float64)
@xop("flat_unflat")
def _flat_unflat(x): return x.flatten_keys(".").unflatten_keys(".")
@xop("consolidate")
def _consolidate(x): return x.consolidate()
@xop("add_td_inplace")
def _add_td_inplace(x):
    from tensordict import TensorDict
    y = x.clone()
    other = TensorDict({k: x.get(k) * 2 for k in reversed(list(x.keys(True, True)))}, batch_size=x.batch_size)
    y.add_(other)
    return y
@xop("mul_td")
def _mul_td(x): return x * x
@xop("locked_cached")
def _locked_cached(x):
    y = x.clone()
    y.lock_()
    y.flatten_keys(".")
    f = y.flatten_keys(".")          # second call: answered from the cache in eager mode
    _ = y.sorted_keys
    ks = y.sorted_keys
    out = f.unflatten_keys(".").clone()
    out.set("nkeys", _torch().full(tuple(y.batch_size), float(len(ks))))
    y.unlock_()
    return out
@xop("lock_ctx")
def _lock_ctx(x):
    y = x.clone()
    with y.lock_():
        z = y + 1
    y.set("after_unlock", y.get(sorted(y.keys(True, True), key=str)[0]).clone())
    return z.update(y.select("after_unlock"))
@xop("seq_select")
def _seq_select(x, src, sel):
    from tensordict.nn import TensorDictModule, TensorDictSequential
    seq = TensorDictSequential(
        TensorDictModule(lambda t: t + 1, in_keys=[src], out_keys=["s1"]),
        TensorDictModule(lambda t: t * 2, in_keys=["s1"], out_keys=["s2"]),
        selected_out_keys=list(sel))
    return seq(x.copy())
@xop("tc_roundtrip")
def _tc_roundtrip(x, src):
    TC = _tc_class()
    tc = TC(val=x.get(src), batch_size=x.batch_size)
    tc2 = tc.apply(lambda t: t + 3)
    tc2.val = tc2.val * 2
    td = tc2.to_tensordict()
    y = x.copy()
    y.set("tc_val", td.get("val"))
    back = TC.from_tensordict(td)
    y.set("tc_back", back.val + 1)
    return y


@xop("to_module_call")
def _to_module_call(x, src):
    """functional call: parameters swapped in with to_module for the duration of a with-block, then restored"""
    torch = _torch()
    from tensordict import TensorDict
    mod = _module_class()()
    with torch.no_grad():
        mod.sub.bias.fill_(1.0)
    params = TensorDict.from_module(mod)
    p2 = params.apply(lambda p: p.detach() * 0 + 3)
    with p2.to_module(mod):
        y = mod(x.get(src).float())
    z = mod(x.get(src).float())
    out = x.copy()
    out.set("tm_in", y.detach())
    out.set("tm_after", z.detach())
    return out
@xop("tdparams_apply")
def _tdparams_apply(x, src):
    from tensordict import TensorDict
    from tensordict.nn import TensorDictParams
    p = TensorDictParams(TensorDict({"w": x.get(src).float(), "n": {"v": x.get(src).float() + 1}}, batch_size=x.batch_size), no_convert=True)
    p2 = p.apply(lambda t: t * 2)
    p.lock_()
    out = x.copy()
    out.set("tp", p2.get(("n", "v")).detach().clone())
    out.set("tp2", p.get("w").detach() + 0)
    return out


_MOD = None


def _module_class():
    global _MOD
    if _MOD is None:
        torch = _torch()

        class C18Mod(torch.nn.Module):
            def __init__(self):
                super().__init__()
                self.w = torch.nn.Parameter(torch.tensor(2.0))
                self.sub = torch.nn.Linear(1, 1)

            def forward(self, t):
                return t * self.w + self.sub.bias.detach()
        _MOD = C18Mod
    return _MOD


_TC = None


def _tc_class():
    global _TC
    if _TC is None:
        import torch
        from tensordict import tensorclass

        class C18TC:
            val: torch.Tensor
        C18TC.__module__ = __name__
        _TC = tensorclass(C18TC)
    return _TC


def run_program(td, prog):
    x = td
    for name, args in prog:
        f = progs.OPS.get(name) or XOPS[name]
        x = f(x, *args)
    return x


def observe(x):
    o = progs.observe(x)
    o["names"] = [n for n in x.names]
    return o


def base_td(shape, names):
    td = progs.base_td(shape)
    if names is not None:
        td.names = list(names)
    return td


def rand_names(rng, r, allow_bad=False):
    ch = rng.random()
    if ch < 0.15:
        return None
    names = rng.sample(NAMESETS, r) if r <= len(NAMESETS) else None
    if names is None:
        return None
    if ch < 0.45:
        names = [n if rng.random() < 0.6 else None for n in names]
    if allow_bad and ch > 0.9 and r >= 1:
        names = rng.choice([names + ["zz"], names[:-1], [names[0]] * r])
    return tuple(names)


def candidate(rng, x):
    if rng.random() < 0.55:
        return progs.candidates(rng, x)
    r = len(x.batch_size)
    leaf = sorted(x.keys(True, True), key=str)
    strleaf = [k for k in leaf if isinstance(k, str)]
    kind = rng.choice(["names", "names", "to", "keys", "consolidate", "arith_td", "lock", "lock", "seq", "tc", "module"])
    if kind == "names":
        return rng.choice([("refine_names", (rand_names(rng, r) or tuple([None] * r),)),
                           ("names_set", (rand_names(rng, r, True),)), ("construct_named", (rand_names(rng, r, True),))])
    if kind == "to":
        return (rng.choice(["to_dtype_kw", "to_dtype_pos", "to_device", "to_device_dtype"]), ())
    if kind == "keys":
        return ("flat_unflat", ())
    if kind == "consolidate":
        return ("consolidate", ())
    if kind == "arith_td":
        return (rng.choice(["add_td_inplace", "mul_td"]), ())
    if kind == "lock":
        return (rng.choice(["locked_cached", "lock_ctx"]), ())
    if kind == "seq" and strleaf:
        src = rng.choice(strleaf)
        sel = rng.sample(["s1", "s2"] + strleaf[:2], rng.randrange(1, 3))
        return ("seq_select", (src, tuple(sel)))
    if kind == "module" and leaf:
        return (rng.choice(["to_module_call", "tdparams_apply"]), (rng.choice(leaf),))
    if kind == "tc" and leaf:
        return ("tc_roundtrip", (rng.choice(leaf),))
    return ("clone", ())


def gen_program(rng, td, length):
    prog, x, tries = [], td, 0
    while len(prog) < length and tries < 40:
        tries += 1
        name, args = candidate(rng, x)
        try:
            y = (progs.OPS.get(name) or XOPS[name])(x, *args)
            if not hasattr(y, "batch_size") or y.numel() > 4000:
                continue
            observe(y)
        except Exception:  # noqa: BLE001 -- a candidate that eager execution rejects is not part of the program
            continue
        prog.append((name, args))
        x = y
    return prog


def call(f):
    try:
        return ("ok", f())
    except Exception as e:  # noqa: BLE001 -- the exception class is the observable
        return ("raise", type(e).__name__)


def run_both(shape, names, prog):
    with Forced(False):
        eager = call(lambda: observe(run_program(base_td(shape, names), prog)))
    with Forced(True):
        comp = call(lambda: observe(run_program(base_td(shape, names), prog)))
    return eager, comp


def divergence_kind(eager, comp):
    """what differs (for the signature of a finding): 'names-only' when everything the two runs observed is equal except
    the dimension names, and every name of the compile-branch run is either None or the eager one (names were lost)"""
    if eager[0] == "ok" and comp[0] == "ok":
        e, c = dict(eager[1]), dict(comp[1])
        en, cn = e.pop("names"), c.pop("names")
        if e == c and en != cn and len(en) == len(cn) and all(b is None or a == b for a, b in zip(en, cn)):
            return "names-only"          # the compile-branch run LOST names (never reports a name the eager run does not)
        return "values" if e != c else "names"
    if eager[0] == "ok":
        return "compile-branch-raises:" + str(comp[1])
    return "eager-raises"
