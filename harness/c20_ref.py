"""C20 — the independent reference (what the property promises, over abstract nested dicts) and the decidable
predicates used as signatures / documented-error expectations.  Nothing here looks at tensordict's code or at the model.

reference(case) -> ("raise", {exception class names}) | ("gray", why) | ("ret", None | expected tree)
expected tree: ["N", None, {key: expected}] | ["L", values] | ["T", payload]      (key -> entry, order not demanded)
"""
import torch

from .c20_impl import abs_code, combine, leaf_tensor, numel, tree_is_empty, walk, P

DEFAULT = ("default",)
MISSING = []               # keys found missing without default= during the current reference run
TENS = [leaf_tensor]       # the tensor of a leaf id under a batch shape (replaced for the stacked view of a lazy stack)


class Gray(Exception):
    """the property does not say what happens here (nothing is demanded)"""


def is_leaf(o, entry):
    k = entry[0]
    return {"L": o["leaf_tensor"], "T": o["leaf_nont"], "N": o["leaf_node"]}[k]


def keyarg(o, prefix, k):
    if not o["named"]:
        return None
    if o["nested_keys"]:
        p = prefix + (k,)
        return p if len(p) > 1 else k
    return k


def arg_code(a, bs):
    if a is DEFAULT:
        return 7
    if a[0] == "L":
        return TENS[0](a[1], bs)
    return abs_code(a)


FNVAR = ["fresh"]          # the variant of the test function of the current reference run


def fn_ref(o, key, item, args, bs, nones):
    """the test function on abstract entries: expected values (list of ints) or None — computed on the abstract entries,
    i.e. on clones: what fn does to the object it is handed does not matter here, only the value it stands for"""
    if item[0] in ("L", "T"):
        if item[1] // 8 in nones["pids"]:
            return None
    elif abs_code(item) in nones["codes"]:
        return None
    if item[0] == "L" and FNVAR[0] == "ident":
        return TENS[0](item[1], bs).reshape(-1).tolist()          # fn returns its argument untouched
    if item[0] == "L" and FNVAR[0] == "mutate_none":
        raise Gray("fn updates its argument in place and returns None")
    codes = [arg_code(item, bs)] + [arg_code(a, bs) for a in args]
    h = combine(key, codes)
    if isinstance(h, torch.Tensor):
        return h.reshape(-1).tolist()
    return [h] * numel(bs)


def lookup(ot, k):
    if ot is None:           # the empty stand-in for an operand that has no such nested node (default= given)
        return None
    if ot[0] != "N":
        raise Gray("an operand holds a tensor where self holds a nested tensordict")
    for kk, c in ot[3]:
        if kk == k:
            return c
    return None


def ref_level(o, S, others, prefix, root, nones):
    bs = S[2][0]
    res = {}
    for k, item in S[3]:
        args = []
        for ot in others:
            e = lookup(ot, k)
            if e is None:
                if not o["default"]:
                    # a documented KeyError; the traversal goes on so that a gray condition met later (in another
                    # iteration order the code may meet it first) is not missed
                    MISSING.append(k)
                e = DEFAULT
            args.append(e)
        if (root and o["con"]) or is_leaf(o, item):
            v = fn_ref(o, keyarg(o, prefix, k), item, args, bs, nones)
            r = None if v is None else ["L", v]
        elif item[0] == "T":
            r = ["T", item[2]]           # non-tensor data left untouched by the function is kept
        elif item[0] == "L":
            raise Gray("is_leaf declares tensors not to be leaves")
        else:
            r = ref_level(o, item, [None if a is DEFAULT else a for a in args], prefix + (k,), False, nones)
        if r is not None:
            res[k] = r
    if not res:
        if o["fe"] is True:
            return None
        if o["fe"] is None and not tree_is_empty(S):
            return None
    return ["N", None, res]


def abstract_expected(t, bs=None):
    """an abstract tree as an expected tree (its present content)"""
    if t[0] == "L":
        return ["L", TENS[0](t[1], bs).reshape(-1).tolist()]
    if t[0] == "T":
        return ["T", t[2]]
    return ["N", None, {k: abstract_expected(c, t[2][0]) for k, c in t[3]}]


def merge(base, res):
    """base (expected tree of the object that is written) with the entries of res written into it"""
    if base is None or base[0] != "N" or res[0] != "N":
        return res
    out = dict(base[2])
    for k, v in res[2].items():
        out[k] = merge(out.get(k), v) if v[0] == "N" else v
    return ["N", None, out]


def has_nested_collection(t):
    return any(c[0] in ("N", "T") for _, c in t[3])


def reference(case):
    """what the property demands for this call, or Gray when it is silent"""
    o = case["opts"]
    S, others, out = case["self"], case["others"], case["out"]
    nones = {"pids": set(case["none_pids"]), "codes": set(case["none_codes"])}
    try:
        # documented errors, in any order: the call must fail with one of them
        errs = set()
        if o["inplace"]:
            out = None                                         # inplace takes precedence: out= is not written
        if out is not None:
            if out[2][3]:
                errs.add("RuntimeError")                       # a locked out= cannot be written
            if o["bs"] is not None and list(o["bs"]) != list(out[2][0]):
                errs.add("RuntimeError")                       # batch_size and out.batch_size must be equal
            if o["dev"] != "absent" and o["dev"] != out[2][1] and not o["checked"]:
                errs.add("RuntimeError")                       # device and out.device must be equal
        del MISSING[:]
        FNVAR[0] = case.get("fnvar", "fresh")
        r = ref_level(o, S, others, (), True, nones)
        if MISSING:
            errs.add("KeyError")
            r = None
        if errs:
            return ("raise", errs)
        if o["inplace"]:
            exp = None if r is None else merge(abstract_expected(S), r)
        elif out is not None:
            exp = None if r is None else merge(abstract_expected(out), r)
        else:
            exp = r
        return ("ret", exp)
    except Gray as g:
        return ("gray", str(g))


# ------------------------------------------------------------------ gray areas and known-defect patterns (decidable on the case)
NAMES_NO_BS = "names= without batch_size="
NONT_OUT = "non-tensor entries with out="
NAMES_CONFLICT = "dim names of self / out= / names= disagree"
META_DEV = "values are lost on the meta device"
CHECKED_DEV = "_fast_apply(checked=True) with out= on another device (internal: the device of out is rewritten)"
HARD_GRAY = {CHECKED_DEV,"in-place write of a tensor over a nested tensordict", "in-place write of a tensor over a non-tensor entry",
             "is_leaf declares tensors not to be leaves",
             "out= holds another kind of entry than self under the same key"}


def gray_reasons(case):
    """combinations about which the property (and the documentation) are silent: the oracle demands nothing there
    beyond 'other operands are not modified'"""
    o = case["opts"]
    S, out = case["self"], case["out"]
    g = []
    if o["inplace"] and (o["con"] or o["leaf_node"]) and any(c[0] == "N" for _, c in S[3]):
        g.append("in-place write of a tensor over a nested tensordict")
    if o["inplace"] and (o["leaf_nont"] and any(e[0] == "T" for _, e in walk(S)) or o["con"] and any(c[0] == "T" for _, c in S[3])):
        g.append("in-place write of a tensor over a non-tensor entry")
    if not o["leaf_tensor"]:
        g.append("is_leaf declares tensors not to be leaves")
    if o["names"] != "absent" and o["bs"] is None:
        g.append(NAMES_NO_BS)
        if o["names"] is not None and S[2][2] is not None and list(o["names"]) != list(S[2][2]) and not o["inplace"]:
            g.append(NAMES_CONFLICT)
    if out is not None and out_kind_conflict(S, out):
        g.append("out= holds another kind of entry than self under the same key")
    if out is not None and (out[2][2] is not None or S[2][2] is not None) and out[2][2] != S[2][2]:
        g.append(NAMES_CONFLICT)
    if o["dev"] == "meta":
        g.append("values are lost on the meta device")
    if out is not None and not o["inplace"] and o["checked"] and o["dev"] != "absent" and o["dev"] != out[2][1]:
        g.append(CHECKED_DEV)
    return g


def out_kind_conflict(S, out):
    if S[0] != "N" or out[0] != "N":
        return S[0] != out[0]
    d = dict((k, c) for k, c in out[3])
    for k, c in S[3]:
        if k in d and c[0] != d[k][0]:
            return True
        if k in d and c[0] == "N" and out_kind_conflict(c, d[k]):
            return True
    return False


def skeleton_hit(case):
    """default= given and some operand lacks a nested node n of self at a level where self.empty(recurse=True) — the
    stand-in the code builds from the PARENT of n — holds an entry that is then found under a key of n"""
    o = case["opts"]
    if not o["default"] or not case["others"]:
        return False

    def skel(t):
        return ["N", 0, t[2], [[k, (skel(c) if c[0] == "N" else c)] for k, c in t[3] if c[0] != "L"]]

    def level(S, others, root):
        for k, item in S[3]:
            if (root and o["con"]) or is_leaf(o, item):
                continue
            if item[0] != "N":
                continue
            nxt = []
            for ot in others:
                e = None if ot is None or ot[0] != "N" else dict((kk, c) for kk, c in ot[3]).get(k)
                if e is None:
                    sk = skel(S)
                    # found under a key of the nested node?
                    sk_keys = set(kk for kk, _ in sk[3])
                    if any(kk in sk_keys for kk, _ in item[3]):
                        return True
                    e = sk
                nxt.append(e)
            if level(item, nxt, False):
                return True
        return False
    return level(case["self"], list(case["others"]), True)


def below_root_missing(case):
    """default= given and an entry below the root is missing from some operand (S15 pattern)"""
    o = case["opts"]
    if not o["default"] or not case["others"]:
        return False

    def level(S, others, depth):
        for k, item in S[3]:
            subs = []
            for ot in others:
                e = None if ot is None or ot[0] != "N" else dict((kk, c) for kk, c in ot[3]).get(k)
                if e is None and depth > 0:
                    return True
                subs.append(e)
            if item[0] == "N" and not ((depth == 0 and o["con"]) or is_leaf(o, item)):
                if level(item, subs, depth + 1):
                    return True
        return False
    return level(case["self"], list(case["others"]), 0)


def nested_dispatch_nodes(case):
    """nested collections of self (nodes / non-tensor entries) that apply dispatches into (not called as leaves)"""
    o = case["opts"]
    n = 0
    for path, e in walk(case["self"]):
        if not path or e[0] == "L":
            continue
        if len(path) == 1 and o["con"]:
            continue
        if not is_leaf(o, e):
            n += 1
    if o["con"]:
        return 0
    return n


def all_none_subtree(case):
    """filter_empty=None and some non-empty (sub)tree of self for which every call returns None and that holds no
    nested collection that is kept (C12-b pattern, coarse: any node without result)"""
    o = case["opts"]
    if o["fe"] is not None:
        return False
    nones = {"pids": set(case["none_pids"]), "codes": set(case["none_codes"])}

    def produced(S, root):
        """does the single-threaded rule produce something for S"""
        any_ = False
        hit = False
        for k, item in S[3]:
            if (root and o["con"]) or is_leaf(o, item):
                if item[0] in ("L", "T"):
                    isn = item[1] // 8 in nones["pids"]
                else:
                    isn = abs_code(item) in nones["codes"]
                any_ = any_ or not isn
            elif item[0] == "T":
                any_ = True
            elif item[0] == "N":
                p, h = produced(item, False)
                hit = hit or h
                any_ = any_ or p
        if not any_ and not tree_is_empty(S):
            hit = True
        return (any_ or tree_is_empty(S)), hit
    try:
        return produced(case["self"], True)[1]
    except Exception:  # noqa: BLE001
        return False
