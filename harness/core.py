"""Shared machinery of the checks: S-expressions, the extracted-model driver, the Coq build / proof step,
the violation decision procedure (DESIGN.md §2.4), known findings, evidence files."""
import fcntl
import hashlib
import json
import os
import random
import re
import subprocess
import sys
import time

VERIF = os.path.dirname(os.path.dirname(os.path.abspath(__file__)))
COQ = os.path.join(VERIF, "coq")
BUILD = os.path.join(VERIF, "build")
REPO = os.environ.get("VERIF_REPO", "/repo")

ALLOWED_AXIOMS = {
    # axioms declared by Coq's standard library; each use is reported in the evidence
    "functional_extensionality_dep", "FunctionalExtensionality.functional_extensionality_dep",
    "classic", "Classical_Prop.classic", "proof_irrelevance", "ProofIrrelevance.proof_irrelevance",
    "JMeq_eq", "JMeq.JMeq_eq", "Eqdep.Eq_rect_eq.eq_rect_eq", "eq_rect_eq",
    "propositional_extensionality", "PropExtensionality.propositional_extensionality",
}


# ---------------------------------------------------------------- S-expressions
class Sym(str):
    """an atom printed bare (symbols of the protocol); plain str values are printed quoted (data strings)"""
    __slots__ = ()


def sx(o):
    if isinstance(o, Sym):
        return str(o)
    if o is None:
        return "none"
    if o is True:
        return "t"
    if o is False:
        return "f"
    if isinstance(o, int):
        return str(o)
    if isinstance(o, str):
        assert '"' not in o and "\n" not in o
        return '"' + o + '"'
    if isinstance(o, (list, tuple)):
        return "(" + " ".join(sx(x) for x in o) + ")"
    raise TypeError(f"cannot encode {o!r}")


def some(x):
    return None if x is None else [Sym("some"), x]


_tok = re.compile(r'\(|\)|"[^"]*"|[^\s()]+')


def parse_sx(text):
    toks = _tok.findall(text)
    pos = 0

    def item():
        nonlocal pos
        t = toks[pos]
        pos += 1
        if t == "(":
            l = []
            while toks[pos] != ")":
                l.append(item())
            pos += 1
            return l
        if t[0] == '"':
            return t[1:-1]
        try:
            return int(t)
        except ValueError:
            return t

    r = item()
    if pos != len(toks):
        raise ValueError("trailing tokens in " + text)
    return r


# ---------------------------------------------------------------- build + model driver
def sh(cmd, timeout=1800, cwd=None, env=None):
    p = subprocess.run(cmd, shell=True, cwd=cwd, env=env, stdout=subprocess.PIPE, stderr=subprocess.STDOUT,
                       timeout=timeout, text=True, errors="replace")
    return p.returncode, p.stdout


class BuildLock:
    def __enter__(self):
        os.makedirs(BUILD, exist_ok=True)
        self.f = open(os.path.join(BUILD, ".lock"), "w")
        fcntl.flock(self.f, fcntl.LOCK_EX)
        return self

    def __exit__(self, *a):
        fcntl.flock(self.f, fcntl.LOCK_UN)
        self.f.close()


def build_driver(pid):
    """(re)build the extracted model of property [pid] and its OCaml driver if a source changed.
    Depends on Model/ and Extract/D_<pid>.v only, so the model still runs when a proof is broken."""
    with BuildLock():
        rc, out = sh(f"{VERIF}/tools/gen_coqproject.sh && timeout 1500 make -j16 Extract/X_{pid}.vo", cwd=COQ)
        if rc != 0:
            return False, out
        d = os.path.join(BUILD, "ml", pid)
        drv = os.path.join(BUILD, f"driver_{pid}")
        ml = os.path.join(d, "model.ml")
        src = os.path.join(VERIF, "ocaml", "driver.ml")
        if (not os.path.exists(drv)) or os.path.getmtime(drv) < max(os.path.getmtime(ml), os.path.getmtime(src)):
            rc, out2 = sh(f"cp {src} driver.ml && ocamlfind ocamlopt -O2 -w -a model.mli model.ml driver.ml -o {drv}",
                          cwd=d, timeout=900)
            if rc != 0:
                return False, out2
        return True, out


def run_model(pid, lines, shards=8):
    """feed protocol lines to the extracted model of [pid]; returns parsed results (same order)"""
    drv = os.path.join(BUILD, f"driver_{pid}")
    if not lines:
        return []
    n = len(lines)
    shards = max(1, min(shards, n // 200 + 1))
    chunks = [lines[i * n // shards:(i + 1) * n // shards] for i in range(shards)]
    procs = []
    for ch in chunks:
        p = subprocess.Popen(["/bin/sh", "-c", f"ulimit -s unlimited 2>/dev/null; exec {drv}"], stdin=subprocess.PIPE,
                             stdout=subprocess.PIPE, text=True)
        procs.append((p, ch))
    import threading
    outs = [None] * len(procs)

    def feed(i, p, ch):
        outs[i] = p.communicate("\n".join(ch) + "\n")[0]

    ths = [threading.Thread(target=feed, args=(i, p, ch)) for i, (p, ch) in enumerate(procs)]
    [t.start() for t in ths]
    [t.join() for t in ths]
    res = []
    for (p, ch), o in zip(procs, outs):
        ls = o.split("\n")
        if ls and ls[-1] == "":
            ls.pop()
        if len(ls) != len(ch):
            raise RuntimeError(f"model driver returned {len(ls)} lines for {len(ch)} cases (rc={p.returncode})")
        res.extend(parse_sx(l) for l in ls)
    return res


FORBIDDEN = re.compile(r"\b(Admitted|admit|Axiom|Axioms|Parameter|Parameters|Conjecture|Conjectures|Admit Obligations|"
                       r"bypass_check|Unset Guard Checking|Unset Positivity Checking|Unset Universe Checking|"
                       r"native_compute|type-in-type|impredicative-set)\b")
_comment = re.compile(r"\(\*.*?\*\)", re.S)


def closure(pid):
    """the .v files Props/<pid>.v depends on (transitively, inside this development), by scanning Require lines"""
    seen, todo = set(), [os.path.join("Props", f"{pid}.v")]
    while todo:
        rel = todo.pop()
        if rel in seen:
            continue
        p = os.path.join(COQ, rel)
        if not os.path.exists(p):
            continue
        seen.add(rel)
        txt = _comment.sub("", open(p).read())
        for m in re.finditer(r"(?s)\bRequire\s+(?:Import\s+|Export\s+)?(.*?)\.(?=\s|$)", txt):
            for name in m.group(1).split():
                if name.startswith("TD."):
                    name = name[3:]
                parts = name.split(".")
                if len(parts) == 2 and parts[0] in ("Lib", "Spec", "Model", "Proofs", "Gen", "Props", "Extract"):
                    todo.append(os.path.join(parts[0], parts[1] + ".v"))
    return sorted(seen)


def hygiene(pid=None):
    """no axioms / admits / checker switches in the development the property depends on (comments stripped);
    with pid=None the whole coq/ tree is scanned"""
    bad = []
    if pid is None:
        files = [os.path.relpath(os.path.join(r, f), COQ) for r, _, fs in os.walk(COQ) for f in fs if f.endswith(".v")]
    else:
        files = closure(pid)
    for rel in files:
        p = os.path.join(COQ, rel)
        txt = _comment.sub("", open(p).read())
        for m in FORBIDDEN.finditer(txt):
            bad.append(f"{rel}: {m.group(0)}")
        depth = 0
        for line in txt.split("\n"):
            s = line.strip()
            if re.match(r"Section\b", s):
                depth += 1
            elif re.match(r"End\b", s) and depth > 0:
                depth -= 1
            elif depth == 0 and re.match(r"(Variable|Variables|Hypothesis|Hypotheses|Context)\b", s):
                bad.append(f"{rel}: {s.split()[0]} outside a section")
    return bad


def enclosing_statement(vfile, line):
    try:
        ls = open(vfile).read().split("\n")
    except OSError:
        return "?"
    for i in range(min(line, len(ls)) - 1, -1, -1):
        m = re.match(r"\s*(Theorem|Lemma|Corollary|Example|Definition|Fixpoint|Fact|Remark)\s+([A-Za-z0-9_']+)", ls[i])
        if m:
            return m.group(2)
    return "?"


def prove(pid):
    """Build the closure of Props/<pid>.v and re-check the property theorems.
    Returns dict(obligations=[names], discharged=[names], failed=[(name, why)], axioms={name:[...]}, log=str)."""
    res = {"obligations": [], "discharged": [], "failed": [], "axioms": {}, "log": ""}
    props = os.path.join(COQ, "Props", f"{pid}.v")
    txt = _comment.sub("", open(props).read())
    names = re.findall(r"^\s*Theorem\s+([A-Za-z0-9_']+)", txt, re.M)
    res["obligations"] = names
    printed = re.findall(r"Print Assumptions\s+([A-Za-z0-9_']+)", txt)
    bad = hygiene(pid)
    if bad:
        res["failed"] = [(n, "hygiene: " + "; ".join(bad[:5])) for n in names]
        return res
    if set(printed) != set(names):
        res["failed"] = [(n, "no Print Assumptions for it") for n in names if n not in printed]
        return res
    with BuildLock():
        # remove the target so that it is always recompiled and its Print Assumptions output is captured
        try:
            os.remove(props + "o")
        except OSError:
            pass
        rc, out = sh(f"{VERIF}/tools/gen_coqproject.sh && timeout 1700 make -j16 Props/{pid}.vo", cwd=COQ)
    res["log"] = out[-6000:]
    if rc != 0:
        m = re.search(r'File "\./([^"]+)", line (\d+)', out)
        where = "?"
        if m:
            where = f"{m.group(1)}:{enclosing_statement(os.path.join(COQ, m.group(1)), int(m.group(2)))}"
        err = out[m.start():][:1500] if m else out[-1500:]
        # every theorem of the property is no longer shown (the file did not compile)
        res["failed"] = [(n, f"does not compile: {where}: {err}") for n in names]
        res["broken_at"] = where
        return res
    # parse Print Assumptions output, in order
    blocks = re.split(r"(?m)^(?=Closed under the global context|Axioms:)", out)
    blocks = [b for b in blocks if b.startswith("Closed under") or b.startswith("Axioms:")]
    if len(blocks) != len(printed):
        res["failed"] = [(n, f"could not parse Print Assumptions output ({len(blocks)} blocks for {len(printed)})")
                         for n in names]
        return res
    for n, b in zip(printed, blocks):
        if b.startswith("Closed under"):
            res["axioms"][n] = []
            res["discharged"].append(n)
        else:
            ax = re.findall(r"(?m)^([A-Za-z0-9_.']+)\s*:", b)
            res["axioms"][n] = ax
            notok = [a for a in ax if a not in ALLOWED_AXIOMS and a.split(".")[-1] not in ALLOWED_AXIOMS]
            if notok:
                res["failed"].append((n, "depends on non-allowed axioms: " + ", ".join(notok)))
            else:
                res["discharged"].append(n)
    return res


# ---------------------------------------------------------------- known findings
def load_findings():
    """known_findings.json (committed; never written at run time): kind=known entries suppress exactly their signature,
    kind=fixed entries suppress nothing."""
    import glob
    out = []
    for p in [os.path.join(VERIF, "known_findings.json")] + sorted(glob.glob(os.path.join(VERIF, "findings.d", "*.json"))):
        if os.path.exists(p):
            out.extend(json.load(open(p))["findings"])
    return out


# ---------------------------------------------------------------- a run
class Run:
    def __init__(self, pid, tier, seed, level="proof"):
        self.pid, self.tier, self.seed, self.level = pid, tier, seed, level
        self.t0 = time.time()
        self.rng = random.Random(f"{seed}/{pid}")
        self.evaluations = 0
        self.distinct = set()
        self.samples = []
        self.hist = {}
        self.proof = None
        self.mismatches = []      # (label, case, impl_obs, model_obs)
        self.oracle_failures = []  # (label, case, detail, signature dict)
        self.broken = []          # free-text broken obligations (translator, build ...)
        self.traces = 0
        self.assumptions = []
        self.trusted = []
        self.rule = ""
        self.extra = {}
        self.exhaustive = False
        self.quick = tier == "quick"

    # -- bookkeeping
    def count(self, kind, n=1):
        self.hist[kind] = self.hist.get(kind, 0) + n

    def case(self, key, nontrivial=True, sample=None):
        """register one explored case; [key] identifies it for distinctness"""
        self.evaluations += 1
        if nontrivial:
            self.distinct.add(key if isinstance(key, (str, int)) else repr(key))
        if sample is not None and len(self.samples) < 6:
            self.samples.append(sample)

    def step_prove(self):
        t = time.time()
        self.proof = prove(self.pid)
        self.extra["prove_wall_s"] = round(time.time() - t, 1)
        if not self.quick:
            self.step_coqchk()
        return self.proof

    def step_coqchk(self):
        """thorough tier: re-check the property's compiled theorems (and everything they depend on) with the independent
        checker and record its axiom summary"""
        if self.proof is None or self.proof["failed"]:
            return
        t = time.time()
        with BuildLock():
            rc, out = sh(f"timeout 1500 coqchk -silent -o -Q . TD TD.Props.{self.pid}", cwd=COQ, timeout=1600)
        m = re.search(r"\* Axioms:(.*?)\n\s*\n\* Constants/Inductives relying on type-in-type:(.*?)\n\s*\n", out, re.S)
        axioms = " ".join(m.group(1).split()) if m else "could not parse"
        self.extra["coqchk"] = {"exit": rc, "axioms": axioms, "wall_s": round(time.time() - t, 1)}
        if rc != 0:
            self.broken.append("coqchk rejects the compiled development: " + out[-600:])
        elif m and axioms != "<none>":
            names = [a for a in re.findall(r"[A-Za-z_][A-Za-z0-9_.']*", axioms)]
            notok = [a for a in names if a not in ALLOWED_AXIOMS and a.split(".")[-1] not in ALLOWED_AXIOMS]
            if notok:
                self.broken.append("coqchk reports non-allowed axioms: " + ", ".join(notok))

    def step_driver(self):
        ok, out = build_driver(self.pid)
        if not ok:
            m = re.search(r'File "\./([^"]+)", line (\d+)', out)
            self.broken.append("model/extraction does not build: " + (out[m.start():][:800] if m else out[-800:]))
        return ok

    def model(self, lines, shards=8):
        return run_model(self.pid, lines, shards)

    def mismatch(self, label, case, impl, model):
        self.mismatches.append((label, case, impl, model))

    def oracle_fail(self, label, case, detail, sig=None):
        self.oracle_failures.append((label, case, detail, sig or {}))

    # -- decision
    def finish(self):
        if os.environ.get("VERIF_DEBUG"):
            json.dump({"oracle": [(l, c, d, s_) for (l, c, d, s_) in self.oracle_failures[:3000]],
                       "mismatch": self.mismatches[:3000]}, open(os.path.join(BUILD, f"debug_{self.pid}.json"), "w"), default=str)
        findings = [f for f in load_findings() if f.get("property") == self.pid and f.get("kind") == "known"]
        known_hit, new_fail = {}, []
        for (label, case, detail, sig) in self.oracle_failures:
            hit = None
            for f in findings:
                if f.get("signature") and all(sig.get(k) == v for k, v in f["signature"].items()):
                    hit = f
                    break
            if hit:
                known_hit.setdefault(hit["id"], (hit, 0))
                known_hit[hit["id"]] = (hit, known_hit[hit["id"]][1] + 1)
            else:
                new_fail.append((label, case, detail, sig))
        for fid, (f, n) in sorted(known_hit.items()):
            print(f"KNOWN-FINDING: property={self.pid} {f['what']} [{fid}; {n} case(s) this run]")
        violations = 0
        os.makedirs(os.path.join(VERIF, "replays"), exist_ok=True)
        if new_fail:
            seen = set()
            for (label, case, detail, sig) in new_fail:
                k = (label, json.dumps(sig, sort_keys=True, default=str))
                if k in seen:
                    continue
                seen.add(k)
                if len(seen) > 5:
                    break
                body = {"property": self.pid, "kind": "failing-input", "check": label, "case": case, "detail": detail,
                        "signature": sig, "seed": self.seed, "tier": self.tier,
                        "replay_cmd": f"./check {self.pid} --replay <this file>"}
                h = hashlib.sha1(json.dumps(body, sort_keys=True, default=str).encode()).hexdigest()[:10]
                path = f"replays/{self.pid}-{h}.json"
                json.dump(body, open(os.path.join(VERIF, path), "w"), indent=1, default=str)
                print(f"VIOLATION property={self.pid} replay={path}")
                violations += 1
        else:
            unshown = []
            if self.proof is not None:
                for (n, why) in self.proof["failed"]:
                    unshown.append({"theorem": n, "why": why[:1200]})
            for b in self.broken:
                unshown.append({"obligation": b})
            for (label, case, impl, model) in self.mismatches[:5]:
                unshown.append({"correspondence": label, "case": case, "implementation": impl, "model": model})
            if unshown:
                body = {"property": self.pid, "kind": "no-failing-input-found", "no_longer_checks": unshown,
                        "mismatch_count": len(self.mismatches), "seed": self.seed, "tier": self.tier}
                h = hashlib.sha1(json.dumps(body, sort_keys=True, default=str).encode()).hexdigest()[:10]
                path = f"replays/{self.pid}-{h}.json"
                json.dump(body, open(os.path.join(VERIF, path), "w"), indent=1, default=str)
                print(f"VIOLATION property={self.pid} replay={path} no-failing-input-found")
                violations += 1
        self.write_evidence(violations, sorted(known_hit))
        return 1 if violations else 0

    def write_evidence(self, violations, known_ids):
        pr = self.proof or {"obligations": [], "discharged": [], "failed": [], "axioms": {}}
        axioms = sorted({a for l in pr["axioms"].values() for a in l})
        cov = {
            "obligations": len(pr["obligations"]),
            "discharged": len(pr["discharged"]),
            "obligation_names": pr["obligations"],
            "failed_obligations": [n for n, _ in pr["failed"]],
            "axioms_reported_by_Print_Assumptions": axioms if axioms else ["none: every theorem closed under the global context"],
            "checker_cmd": f"make -C coq Props/{self.pid}.vo (coqc 8.16.1, full .vo build; Print Assumptions under every theorem parsed by harness/core.py)",
            "trusted_base": [
                "Coq 8.16.1 kernel (vm_compute used for finite table theorems and refutation witnesses; no native_compute)",
                "extraction: ExtrOcamlBasic + ExtrOcamlString only; Z/nat/positive stay inductive; ocaml/driver.ml (text <-> sexp)",
                "hand-written Gallina model tied to /repo by this run's correspondence (counts below)",
            ] + self.trusted,
            "evaluations": self.evaluations,
            "distinct_nontrivial": len(self.distinct),
            "rule": self.rule,
            "samples": self.samples if self.samples else ["(no case generated)"],
            "traces_validated_against_impl": self.traces,
            "input_distribution": dict(sorted(self.hist.items())),
            "model_impl_mismatches": len(self.mismatches),
            "oracle_failures": len(self.oracle_failures),
            "known_findings_seen": known_ids,
            "exhaustive": self.exhaustive,
        }
        cov.update(self.extra)
        ev = {"property_id": self.pid, "tier": self.tier, "seed": self.seed, "level": self.level, "coverage": cov,
              "assumptions": self.assumptions, "wall_s": round(time.time() - self.t0, 2), "violations": violations}
        os.makedirs(os.path.join(VERIF, "evidence"), exist_ok=True)
        json.dump(ev, open(os.path.join(VERIF, "evidence", f"{self.pid}.json"), "w"), indent=1, default=str)
