"""Rebuild tensordict's C++ helper from /repo/tensordict/csrc (current working tree) and load it in place of the
installed tensordict._C, so that the native path that is checked is the one the source says now."""
import glob
import hashlib
import importlib.util
import os
import subprocess
import sys
import sysconfig

from .core import BUILD, REPO, BuildLock


def build():
    srcs = sorted(glob.glob(os.path.join(REPO, "tensordict", "csrc", "*")))
    h = hashlib.sha1()
    for s in srcs:
        h.update(open(s, "rb").read())
    d = os.path.join(BUILD, "cext", h.hexdigest()[:16])
    so = os.path.join(d, "_C.so")
    with BuildLock():
        if not os.path.exists(so):
            import torch
            tinc = os.path.join(os.path.dirname(torch.__file__), "include")
            os.makedirs(d, exist_ok=True)
            # drop builds of other source versions
            for old in glob.glob(os.path.join(BUILD, "cext", "*")):
                if old != d:
                    subprocess.run(["rm", "-rf", old])
            cpps = [s for s in srcs if s.endswith(".cpp")]
            cmd = ["g++", "-O1", "-shared", "-fPIC", "-std=c++17", f"-I{tinc}", f"-I{tinc}/torch/csrc/api/include",
                   f"-I{sysconfig.get_paths()['include']}", "-DTORCH_EXTENSION_NAME=_C", *cpps, "-o", so + ".tmp"]
            p = subprocess.run(cmd, stdout=subprocess.PIPE, stderr=subprocess.STDOUT, text=True, timeout=900)
            if p.returncode != 0:
                raise RuntimeError("C++ helper does not build:\n" + p.stdout[-3000:])
            os.rename(so + ".tmp", so)
    return so


def install():
    """must be called before `import tensordict`"""
    if "tensordict._C" in sys.modules and getattr(sys.modules["tensordict._C"], "__verif_rebuilt__", False):
        return sys.modules["tensordict._C"].__file__
    assert "tensordict" not in sys.modules
    so = build()
    spec = importlib.util.spec_from_file_location("tensordict._C", so)
    mod = importlib.util.module_from_spec(spec)
    spec.loader.exec_module(mod)
    mod.__verif_rebuilt__ = True
    sys.modules["tensordict._C"] = mod
    return so
