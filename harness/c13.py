"""C13 — swapping parameters into a module is exact, isolated and always undone (DESIGN.md §4 C13).

Three streams, all generated from R.rng:
  A. programs: a random module DAG (shared submodules, tied tensors, None entries, custom __setattr__, BatchNorm,
     Linear, ModuleList/ModuleDict/Sequential, TensorDictModule wrappers, TensorDictParams children, lazy params) and
     1..3 nested `with params.to_module(target, ...)` blocks, with an exception injected at every point of the body.
     Oracle (on the implementation only): identities (and values) in named_parameters(remove_duplicate=False) /
     named_buffers before a block vs after its exit; module output inside the block vs torch.func.functional_call.
     Correspondence: raw slot snapshots (_parameters/_buffers/__dict__) after every enter/exit vs the extracted model.
  B. from_module: captured keys/identities vs named_parameters/named_buffers (and vs the model's walk).
  C. TensorDictParams registration after random update sequences (and vs the model).
"""
import copy
import gc
import hashlib
import json
import os
import weakref

from . import cext
from .core import Sym, sx, run_model as _run_model

PID = "C13"


def run_model(lines):
    return _run_model(PID, lines)


_T = {}


def _imports():
    if _T:
        return _T
    cext.install()
    import torch
    import torch.nn as nn
    import tensordict
    from tensordict import TensorDict
    from tensordict.nn import TensorDictModule, TensorDictParams
    from tensordict._td import Buffer

    torch.set_num_threads(1)
    # the objects created by the imports never die: keep them out of the collections requested at the injection points
    gc.collect()
    gc.freeze()

    def run_child(c, acc):
        if isinstance(c, nn.ModuleList):
            for cc in c:
                if cc is not None:
                    acc = run_child(cc, acc)
            return acc
        if isinstance(c, nn.ModuleDict):
            for cc in c.values():
                if cc is not None:
                    acc = run_child(cc, acc)
            return acc
        if isinstance(c, TensorDictModule):
            return c(TensorDict({"x": acc}, batch_size=[]))["y"]
        if isinstance(c, TensorDictParams):
            for v in c.values(True, True):
                acc = acc * 2 + v
            return acc
        return c(acc)

    class GenMod(nn.Module):
        """forward folds its own tensors (read through getattr, whatever dict they live in) then its children"""

        def __init__(self):
            super().__init__()
            self._order = []

        def forward(self, x):
            acc = x
            for name in self._order:
                t = getattr(self, name, None)
                if isinstance(t, torch.Tensor):
                    acc = acc * 2 + t
            for _, c in self._modules.items():
                if c is not None:
                    acc = run_child(c, acc)
            return acc

    class CustomMod(GenMod):
        """a module type with its own __setattr__ (to_module then goes through torch's swap_tensor)"""

        def __setattr__(self, k, v):
            return super().__setattr__(k, v)

    class Inject(Exception):
        pass

    class InjectBase(BaseException):
        pass

    _T.update(torch=torch, nn=nn, tensordict=tensordict, TensorDict=TensorDict, TensorDictModule=TensorDictModule,
              TensorDictParams=TensorDictParams, Buffer=Buffer, GenMod=GenMod, CustomMod=CustomMod, Inject=Inject,
              InjectBase=InjectBase, run_child=run_child)
    return _T


# ====================================================================== case generation (pure, from rng)
SHAPES = {"v": (2,), "m": (2, 2), "s": ()}
NAMES = ["w", "b", "g", "r", "u"]


def _new_tensor(tens, kind, val, shape="v"):
    tens.append({"k": kind, "v": val, "sh": shape})
    return len(tens) - 1


def gen_tree(rng, rich=True):
    """a module DAG: mods[0] is the root; children always have larger ids (acyclic); sharing/tying by construction"""
    nmods = rng.choice([1, 2, 2, 3, 3, 4, 4, 5, 6, 7])
    tens, mods = [], []
    tie_pool = {"v": [], "m": [], "s": []}

    def tensor_for(kind, shape, lo=0):
        pool = tie_pool[shape]
        if pool and rng.random() < 0.18:
            cands = [t for t in pool if tens[t]["k"] == kind]
            if cands:
                return rng.choice(cands)
        t = _new_tensor(tens, kind, rng.randrange(lo, 4), shape)
        pool.append(t)
        return t

    for mid in range(nmods):
        r = rng.random()
        leafish = mid == nmods - 1
        if r < 0.5 or (mid == 0 and nmods > 1):
            ty = "gen"
        elif r < 0.62:
            ty = "cus"
        elif r < 0.74:
            ty = "lin"
        elif r < 0.82:
            ty = "bn"
        elif r < 0.88 and not leafish:
            ty = rng.choice(["seq", "mlist", "mdict"])
        elif r < 0.92 and not leafish and rich:
            ty = "tdm"
        elif r < 0.96 and rich and mid > 0:
            ty = "tdp"
        elif rich and mid > 0:
            ty = "lazy"
        else:
            ty = "gen"
        m = {"ty": ty, "params": [], "bufs": [], "subs": []}
        if ty in ("gen", "cus"):
            names = NAMES[:]
            rng.shuffle(names)
            for _ in range(rng.choice([0, 1, 1, 2, 2, 3])):
                n = names.pop()
                m["params"].append([n, None if rng.random() < 0.12 else tensor_for("P", "v")])
            for _ in range(rng.choice([0, 0, 1, 1, 2])):
                if not names:
                    break
                n = names.pop()
                if rng.random() < 0.12:
                    m["bufs"].append([n, None, True])
                else:
                    m["bufs"].append([n, tensor_for(rng.choice(["T", "T", "T", "B"]), "v"), rng.random() < 0.75])
        elif ty == "lin":
            m["params"] = [["weight", tensor_for("P", "m")], ["bias", None if rng.random() < 0.3 else tensor_for("P", "v")]]
        elif ty == "bn":
            m["params"] = [["weight", tensor_for("P", "v")], ["bias", tensor_for("P", "v")]]
            m["bufs"] = [["running_mean", tensor_for("T", "v"), True], ["running_var", _new_tensor(tens, "T", rng.choice([1, 4]), "v"), True],
                         ["num_batches_tracked", _new_tensor(tens, "T", rng.randrange(0, 4), "s"), True]]
        elif ty == "tdp":
            # a TensorDictParams child: leaves described as nested entries [name, tid | [[...]]]
            m["leaves"] = [["a", _new_tensor(tens, "P", rng.randrange(0, 4), "v")]]
            if rng.random() < 0.6:
                m["leaves"].append(["n", [["c", _new_tensor(tens, "P", rng.randrange(0, 4), "v")]]])
        mods.append(m)
    # wire children (only container-like types take children); children have larger ids
    for mid, m in enumerate(mods):
        if m["ty"] in ("lin", "bn", "tdp", "lazy"):
            continue
        later = list(range(mid + 1, nmods))
        if m["ty"] == "tdm":
            cands = [c for c in later if mods[c]["ty"] in ("gen", "cus", "lin", "bn", "seq")]
            if not cands:
                m["ty"] = "gen"
            else:
                m["subs"] = [["module", rng.choice(cands)]]
                continue
        if m["ty"] == "seq":
            later = [c for c in later if mods[c]["ty"] in ("gen", "cus", "lin", "bn", "seq")]
        k = min(len(later), rng.choice([0, 1, 1, 2, 2, 3])) if later else 0
        if mid == 0 and later:
            k = max(k, 1)
        chosen = [rng.choice(later) for _ in range(k)]  # with repetition -> the same child under two names
        if m["ty"] in ("seq", "mlist"):
            m["subs"] = [[str(i), c] for i, c in enumerate(chosen)]
        else:
            keys = ["c0", "c1", "c2", "c3"]
            m["subs"] = [[keys[i], c] for i, c in enumerate(chosen)]
            if m["ty"] in ("gen", "cus") and rng.random() < 0.1:
                m["subs"].append(["cn", None])
        if m["ty"] in ("seq", "mlist", "mdict") and not m["subs"]:
            m["ty"] = "gen"
    return {"mods": mods, "tens": tens}


def reachable(spec, root=0):
    seen, order = set(), []

    def go(mid):
        if mid in seen:
            return
        seen.add(mid)
        order.append(mid)
        for _, c in spec["mods"][mid]["subs"]:
            if c is not None:
                go(c)
    go(root)
    return order


def model_ok_tree(spec):
    return all(spec["mods"][m]["ty"] not in ("tdp", "lazy") for m in reachable(spec))


def gen_pspec(rng, spec, target, mode, consistent=True, malformed=0.0):
    """parameter tensordict for `target`: nested [[name, tid | [[...]]], ...] (order is the td's insertion order).
    New tensors are appended to spec['tens']."""
    tens, mods = spec["tens"], spec["mods"]
    memo = {}

    def kind_for(slot_kind, old):
        if mode == "data":
            return "T"
        if mode == "keep":
            return tens[old]["k"]
        if mode == "param":
            return "P" if slot_kind == "param" else "T"
        if mode == "allparam":  # what TensorDictParams(td) does to float leaves (buffers included)
            return "P" if tens[old]["sh"] != "s" else "B"
        return rng.choice(["P", "T", "T", "B"])

    def leaf(slot_kind, old, name):
        if mode == "self":
            return old
        sh = tens[old]["sh"]
        val = rng.choice([1, 4]) if name == "running_var" else rng.randrange(0, 4)
        kd = kind_for(slot_kind, old)
        if sh == "s" and kd == "P":
            kd = "B"  # integer tensors cannot be nn.Parameters that require grad (torch's rule, not tensordict's)
        return _new_tensor(tens, kd, val, sh)

    def walk(mid):
        if consistent and mid in memo:
            return copy.deepcopy(memo[mid])
        m = mods[mid]
        ents = []
        if m["ty"] == "tdp":
            def lv(l):
                return [[n, (leaf("param", x, n) if isinstance(x, int) else lv(x))] for n, x in l]
            ents = lv(m["leaves"])
        else:
            for n, t in m["params"]:
                if t is not None:
                    ents.append([n, leaf("param", t, n)])
            for n, t, _ in m["bufs"]:
                if t is not None:
                    ents.append([n, leaf("buf", t, n)])
            for n, c in m["subs"]:
                if c is not None:
                    sub = walk(c)
                    if sub:
                        ents.append([n, sub])
        memo[mid] = ents
        return copy.deepcopy(ents)

    ents = walk(target)

    def mutate(ents, mid):
        m = mods[mid]
        out = []
        for n, x in ents:
            if rng.random() < sub_drop:
                continue
            if isinstance(x, list) and m["ty"] != "tdp":
                c = dict((a, b) for a, b in m["subs"]).get(n)
                x = mutate(x, c) if c is not None else x
            out.append([n, x])
        if rng.random() < shuffle_p:
            rng.shuffle(out)
        if malformed and rng.random() < malformed and m["ty"] in ("gen", "cus"):
            kind = rng.choice(["extra-leaf", "none-slot", "sub-as-leaf", "leaf-as-sub", "none-child"])
            t = _new_tensor(tens, "T", 1, "v")
            if kind == "extra-leaf":
                out.insert(rng.randrange(len(out) + 1), ["zz", t])
            elif kind == "none-slot":
                nn_ = [n for n, tt in m["params"] if tt is None] + [n for n, tt, _ in m["bufs"] if tt is None]
                if nn_:
                    out.insert(rng.randrange(len(out) + 1), [nn_[0], t])
            elif kind == "sub-as-leaf":
                ss = [n for n, c in m["subs"] if c is not None]
                if ss:
                    out = [e for e in out if e[0] != ss[0]]
                    out.insert(rng.randrange(len(out) + 1), [ss[0], t])
            elif kind == "leaf-as-sub":
                ll = [n for n, tt in m["params"] if tt is not None]
                if ll:
                    out = [e for e in out if e[0] != ll[0]]
                    out.insert(rng.randrange(len(out) + 1), [ll[0], [["w", t]]])
            elif kind == "none-child":
                ss = [n for n, c in m["subs"] if c is None]
                if ss:
                    out.insert(rng.randrange(len(out) + 1), [ss[0], [["w", t]]])
        return out

    r = rng.random()
    sub_drop = 0.25 if r < 0.3 else 0.0
    shuffle_p = 0.3 if rng.random() < 0.25 else 0.0
    if sub_drop or shuffle_p or malformed:
        ents = mutate(ents, target)
    return ents


def fresh_pspec(spec, target):
    """what TensorDict.from_module(<a second copy of the target>) holds: every non-None parameter/buffer, then the
    non-empty children, each path of a shared sub-module spelled out; the tids are the module's own (same content)"""
    def walk(mid):
        m = spec["mods"][mid]
        if m["ty"] == "tdp":
            def lv(l):
                return [[n, (x if isinstance(x, int) else lv(x))] for n, x in l]
            return lv(m["leaves"])
        ents = [[n, t] for n, t in m["params"] if t is not None] + [[n, t] for n, t, _ in m["bufs"] if t is not None]
        for n, c in m["subs"]:
            if c is not None:
                sub = walk(c)
                if sub:
                    ents.append([n, sub])
        return ents
    return walk(target)


def gen_program(rng, spec, rich=True):
    order = reachable(spec)
    depth = rng.choice([1, 1, 1, 1, 1, 1, 2, 2, 2, 3])
    blocks = []
    for _ in range(depth):
        target = 0 if rng.random() < 0.8 else rng.choice(order)
        if spec["mods"][target]["ty"] in ("tdp",):
            target = 0
        mode = rng.choice(["data", "data", "keep", "param", "param", "allparam", "mixed", "self"])
        r = rng.random()
        inplace = None if r < 0.55 else (False if r < 0.7 else True)
        usd = rich and rng.random() < 0.08
        if usd:
            inplace = None
        as_ = rng.choice(["td", "td", "td", "locked", "tdp", "tdpc"])
        src = "held" if rng.random() < 0.55 else rng.choice(TEMP_SOURCES)
        if src == "fresh":
            mode = "self"  # the values are those of a structurally identical second module: same content, other objects
        blk = {"target": target, "mode": mode, "inplace": inplace, "usd": usd, "as": as_, "src": src,
               "swap_dest": rich and rng.random() < 0.04, "manual": rng.random() < 0.08,
               "p": (gen_pspec(rng, spec, target, mode, consistent=rng.random() < 0.8,
                               malformed=0.08 if rng.random() < 0.3 else 0.0) if src != "fresh"
                     else fresh_pspec(spec, target))}
        blocks.append(blk)
    return blocks


def injection_points(spec, nblocks):
    pts = [{"kind": "none"}]
    order = reachable(spec)
    inner = [["before"], ["after"]] + [["pre", m] for m in order] + [["hook", m] for m in order]
    for p in inner:
        pts.append({"kind": "exc", "level": nblocks - 1, "point": p})
    for lv in range(nblocks - 1):
        pts.append({"kind": "exc", "level": lv, "point": ["after-inner"]})
    return pts


# ====================================================================== building real objects from a case
class Env:
    pass


def build(case):
    T = _imports()
    torch, nn = T["torch"], T["nn"]
    spec = case["spec"]
    env = Env()
    env.tens = {}
    env.known = {}  # id(obj) -> tid

    def tensor(tid):
        if tid in env.tens:
            return env.tens[tid]
        d = spec["tens"][tid]
        dt = torch.int64 if d["sh"] == "s" else torch.float64
        t = torch.full(SHAPES[d["sh"]], d["v"], dtype=dt)
        if d["k"] == "P":
            t = nn.Parameter(t, requires_grad=dt.is_floating_point)
        elif d["k"] == "B":
            t = T["Buffer"](t)
        env.tens[tid] = t
        env.known[id(t)] = tid
        return t

    env.tensor = tensor
    env.mods = {}

    def module(mid):
        if mid in env.mods:
            return env.mods[mid]
        m = spec["mods"][mid]
        ty = m["ty"]
        kids = [(n, (module(c) if c is not None else None)) for n, c in m["subs"]]
        if ty in ("gen", "cus"):
            mod = (T["GenMod"] if ty == "gen" else T["CustomMod"])()
            for n, t in m["params"]:
                mod.register_parameter(n, tensor(t) if t is not None else None)
            for n, t, pers in m["bufs"]:
                mod.register_buffer(n, tensor(t) if t is not None else None, persistent=pers)
            mod._order = [n for n, _ in m["params"]] + [n for n, _, _ in m["bufs"]]
            for n, c in kids:
                mod.add_module(n, c)
        elif ty == "lin":
            mod = nn.Linear(2, 2, bias=m["params"][1][1] is not None, dtype=torch.float64)
            for n, t in m["params"]:
                mod._parameters[n] = tensor(t) if t is not None else None
        elif ty == "bn":
            mod = nn.BatchNorm1d(2, eps=0.0, dtype=torch.float64)
            for n, t in m["params"]:
                mod._parameters[n] = tensor(t)
            for n, t, _ in m["bufs"]:
                mod._buffers[n] = tensor(t)
        elif ty == "seq":
            mod = nn.Sequential()
            for n, c in kids:
                mod.add_module(n, c)
        elif ty == "mlist":
            mod = nn.ModuleList([c for _, c in kids])
        elif ty == "mdict":
            mod = nn.ModuleDict({n: c for n, c in kids})
        elif ty == "tdm":
            mod = T["TensorDictModule"](kids[0][1], in_keys=["x"], out_keys=["y"])
        elif ty == "tdp":
            def lv(l):
                return {n: (tensor(x) if isinstance(x, int) else lv(x)) for n, x in l}
            mod = T["TensorDictParams"](T["TensorDict"](lv(m["leaves"])), no_convert=True)
        elif ty == "lazy":
            mod = nn.LazyLinear(2, dtype=torch.float64)
        else:
            raise ValueError(ty)
        env.mods[mid] = mod
        return mod

    env.root = module(0)
    env.root.eval()
    env.order = reachable(spec)
    return env


def build_params(env, blk):
    """the parameter tensordict of a block, as the user would build it"""
    T = _imports()
    TensorDict = T["TensorDict"]

    def lv(l):
        return {n: (env.tensor(x) if isinstance(x, int) else lv(x)) for n, x in l}
    td = TensorDict(lv(blk["p"]), batch_size=[])
    if blk["as"] == "locked":
        td.lock_()
    elif blk["as"] == "tdp":
        td = T["TensorDictParams"](td, no_convert=True)
    elif blk["as"] == "tdpc":  # floats become nn.Parameter, the rest Buffer
        td = T["TensorDictParams"](td)
    return td


TEMP_SOURCES = ["data", "detach", "clone", "copy", "index", "fresh"]


def temp_source(env, blk, base, case):
    """the source tensordict as a temporary expression (`with params.data.to_module(m):` ...): nobody but the caller's
    local variable refers to the result; 'fresh' is a from_module(...) of another, structurally identical module"""
    T = _imports()
    src = blk.get("src", "held")
    if src == "data":
        return base.data
    if src == "detach":
        return base.detach()
    if src == "clone":
        return base.clone()
    if src == "copy":
        return base.copy()
    if src == "index":
        return base.unsqueeze(0)[0]
    if src == "fresh":
        env2 = build(case)
        env.keep.append(env2)  # the other module stays alive (its tensors are the supplied values); the tensordict does not
        return T["TensorDict"].from_module(env2.mods[blk["target"]])
    return base


def kind_of(t):
    T = _imports()
    if isinstance(t, T["nn"].Parameter):
        return "P"
    if isinstance(t, T["Buffer"]):
        return "B"
    return "T"


def val_of(t):
    T = _imports()
    try:
        if isinstance(t, T["nn"].parameter.UninitializedTensorMixin):
            return -1
        if t.numel() == 0:
            return -2
        return int(t.detach().reshape(-1)[0].item())
    except Exception:  # noqa: BLE001 -- e.g. batched/meta tensors
        return -3


# ---------------------------------------------------------------------- observation
def raw_snapshot(env):
    """per module id: _parameters / _buffers / tensor-valued __dict__ entries, in dict order, with object references"""
    T = _imports()
    torch = T["torch"]
    snap = []
    for mid in env.order:
        mod = env.mods[mid]
        if isinstance(mod, T["TensorDictParams"]):
            continue
        ps = [[n, env_ref(env, t)] for n, t in mod._parameters.items()]
        bs = [[n, env_ref(env, t)] for n, t in mod._buffers.items()]
        at = [[n, env_ref(env, t)] for n, t in mod.__dict__.items() if isinstance(t, torch.Tensor)]
        snap.append([mid, ps, bs, at])
    return snap


def env_ref(env, t):
    """a reference to a tensor object: ['k', tid] for objects of the case, ['f', n] for objects created by the code
    (numbered in order of first observation; the same numbering is applied to the model's fresh ids)"""
    if t is None:
        return None
    i = id(t)
    if i in env.known and env.tens.get(env.known[i]) is t:
        return ["k", env.known[i], kind_of(t), val_of(t), stor_of(env, t)]
    if i not in env.fresh or env.fresh[i][1] is not t:
        env.fresh[i] = (len(env.fresh_list), t)
        env.fresh_list.append(t)  # keep alive: no address reuse
    return ["f", env.fresh[i][0], kind_of(t), val_of(t), stor_of(env, t)]


def stor_of(env, t):
    """storage identity as a small number (first-appearance order); tensors are kept alive so no address is reused"""
    try:
        ptr = t.untyped_storage().data_ptr()
    except Exception:  # noqa: BLE001 -- uninitialised / exotic tensors
        return -1
    if ptr not in env.stor:
        env.stor[ptr] = len(env.stor)
    return env.stor[ptr]


def named_maps(env):
    """the property's observable: name -> object for parameters and buffers of the root"""
    ps = {n: p for n, p in env.root.named_parameters(remove_duplicate=False)}
    bs = {n: b for n, b in env.root.named_buffers(remove_duplicate=False)}
    vals = {n: val_of(t) for n, t in list(ps.items()) + list(bs.items())}
    # content of tensors a block parked in module.__dict__ (a Parameter slot given a plain tensor): in-place writes of an
    # inner block go there; they are part of "the swap is undone" for that inner block
    T = _imports()
    for mid in env.order:
        mod = env.mods[mid]
        if isinstance(mod, T["TensorDictParams"]):
            continue
        for n, t in mod.__dict__.items():
            if isinstance(t, T["torch"].Tensor):
                vals["attr:%d:%s" % (mid, n)] = val_of(t)
    return ps, bs, vals


def same_maps(a, b):
    return (a[0].keys() == b[0].keys() and all(a[0][k] is b[0][k] for k in a[0])
            and a[1].keys() == b[1].keys() and all(a[1][k] is b[1][k] for k in a[1]))


def exc_class(e):
    if e is None:
        return "ok"
    T = _imports()
    if isinstance(e, T["Inject"]):
        return "Inject"
    if isinstance(e, T["InjectBase"]):
        return "InjectBase"
    for c in (KeyError, TypeError, AttributeError, UnboundLocalError, RuntimeError, ValueError):
        if type(e) is c:
            return c.__name__
    return "other:" + type(e).__name__


# ---------------------------------------------------------------------- executing a program on the real code
def execute(case, want_output=True):
    """runs the program of the case against the implementation. Returns dict(trace=[...], blocks=[per-block oracle
    data], final=exception class, output=...)."""
    T = _imports()
    torch = T["torch"]
    env = build(case)
    env.fresh, env.fresh_list, env.stor = {}, [], {}
    blocks, exc = case["blocks"], case["exc"]
    n = len(blocks)
    res = {"trace": [], "blocks": [dict() for _ in blocks], "final": "ok", "output": None, "env": env}
    x = torch.tensor([[1.0, 2.0], [3.0, 4.0], [5.0, 6.0]], dtype=torch.float64)
    params = []
    for blk in blocks:
        try:
            params.append(build_params(env, blk))
        except Exception as e:  # noqa: BLE001
            res["final"] = "build:" + exc_class(e)
            return res
    res["params"] = params
    env.keep = []
    env.live = [True] * n
    temp = [blk.get("src", "held") != "held" for blk in blocks]
    # register the leaves of the params actually built (TensorDictParams re-wraps tensors): described to the model
    env.pleaves = []
    for bi, p in enumerate(params):
        desc = describe_td(env, p)
        env.pleaves.append(desc)
    init = named_maps(env)
    res["init"] = init
    res["trace"].append(["init", -1, "ok", raw_snapshot(env)])

    def make_exc():
        return T["Inject"]("injected") if exc["kind"] == "exc" else T["InjectBase"]("injected")

    def body_innermost():
        pt = exc.get("point") if exc["kind"] != "none" and exc["level"] == n - 1 else None
        if any(temp):
            gc.collect(1)  # young generations: cheap, enough for cycles created since the block was entered
        if pt and pt[0] == "before":
            raise make_exc()
        handles = []
        try:
            if pt and pt[0] == "pre":
                def pre(mod, args):
                    raise make_exc()
                handles.append(env.mods[pt[1]].register_forward_pre_hook(pre))
            if pt and pt[0] == "hook":
                def post(mod, args, out):
                    raise make_exc()
                handles.append(env.mods[pt[1]].register_forward_hook(post))
            with torch.no_grad():
                y = env.root(x)
            res["output"] = y
        finally:
            for h in handles:
                h.remove()
        if pt and pt[0] == "after":
            raise make_exc()

    class EnterFailed(Exception):
        pass

    def run(i):
        blk, B = blocks[i], res["blocks"][i]
        kw = {}
        if blk["inplace"] is not None:
            kw["inplace"] = blk["inplace"]
        if blk["usd"]:
            kw["use_state_dict"] = True
        if blk["swap_dest"]:
            kw["swap_dest"] = T["TensorDict"]()
        target = env.mods[blk["target"]]
        B["before"] = named_maps(env)
        if blk["inplace"]:
            # do two slots this block writes hold tensors on one storage (tied object, or aliases such as params.data)?
            snap = {(mid, n): r for mid, ps_, bs_, at_ in raw_snapshot(env) for n, r in ps_ + bs_ + at_ if r is not None}
            refs = [snap[s_] for s_ in actual_memo_slots({"spec": case["spec"], "blocks": [blk]}) if s_ in snap]
            st = [r[4] for r in refs]
            B["occ_tied"] = len(set(st)) != len(st)
            # ... and are two of them DISTINCT objects (aliases through storage, not one tied object)?
            B["occ_alias"] = len({r[4] for r in refs}) != len({(r[0], r[1]) for r in refs})
        try:
            if temp[i]:
                # `with <temporary>.to_module(target):` -- the source is described (its leaves stay alive in env, the
                # tensordict itself does not) and dropped as soon as the call returns
                try:
                    src_td = temp_source(env, blk, params[i], case)
                except Exception:  # noqa: BLE001 -- the expression itself is not available for this kind of tensordict
                    src_td = None
                if src_td is None or src_td is params[i]:
                    temp[i] = False
                    cm = params[i].to_module(target, **kw)
                else:
                    env.pleaves[i] = describe_td(env, src_td)
                    wr = weakref.ref(src_td)
                    cm = src_td.to_module(target, **kw)
                    src_td = None
                    if wr() is not None:
                        gc.collect(1)  # a (young) reference cycle, or a genuinely retained object (a locked tensordict caches
                        #               its detach()): what counts is whether it is alive when the block is left
                    env.live[i] = wr() is not None
                src_td = None
            else:
                cm = params[i].to_module(target, **kw)
        except BaseException as e:  # noqa: BLE001 -- entering failed: the block is never entered
            src_td = None
            B["enter"] = exc_class(e)
            res["trace"].append(["enter", i, exc_class(e), raw_snapshot(env)])
            raise EnterFailed() from e
        B["enter"] = "ok"
        res["trace"].append(["enter", i, "ok", raw_snapshot(env)])
        B["inside"] = named_maps(env)
        if blk["manual"]:
            # no with-statement: the user swaps back by hand on the normal path
            if i + 1 < n:
                run(i + 1)
            else:
                body_innermost()
            if exc["kind"] != "none" and exc["level"] == i and exc["point"][0] == "after-inner":
                raise make_exc()
            B["pre_exit"] = named_maps(env)
            B["body"] = "ok"
            B["body_kind"] = "ok"
            try:
                cm.to_module(target, return_swap=False, **{k: v for k, v in kw.items() if k != "swap_dest"})
                B["exit"] = "ok"
            except BaseException as e:  # noqa: BLE001
                B["exit"] = exc_class(e)
                raise
            finally:
                B["after"] = named_maps(env)
                B["after_resolved"] = {nm: resolve(env, nm) for nm in list(B["before"][0]) + list(B["before"][1])}
                res["trace"].append(["exit", i, B.get("exit", "?"), raw_snapshot(env)])
            return
        body_exc = None
        try:
            with cm:
                try:
                    if i + 1 < n:
                        run(i + 1)
                    else:
                        body_innermost()
                    if exc["kind"] != "none" and exc["level"] == i and exc["point"][0] == "after-inner":
                        if any(temp):
                            gc.collect(1)
                        raise make_exc()
                except BaseException as e:
                    body_exc = e
                    raise
                finally:
                    B["pre_exit"] = named_maps(env)
                    B["body"] = exc_class(body_exc)
                    B["body_kind"] = "ok" if body_exc is None else ("exception" if isinstance(body_exc, Exception) else "base")
            B["exit"] = "ok"
        except BaseException as e:  # noqa: BLE001
            B["exit"] = exc_class(e)
            raise
        finally:
            B["after"] = named_maps(env)
            B["after_resolved"] = {nm: resolve(env, nm) for nm in list(B["before"][0]) + list(B["before"][1])}
            res["trace"].append(["exit", i, B.get("exit", "?"), raw_snapshot(env)])

    try:
        run(0)
    except EnterFailed as e:
        res["final"] = "enter:" + exc_class(e.__cause__)
    except BaseException as e:  # noqa: BLE001
        res["final"] = exc_class(e)
    res["final_maps"] = named_maps(env)
    # a TensorDictParams used as `params` must still expose exactly its leaves after the blocks (exit writes into it)
    res["tdp_registration"] = []
    for bi, p_ in enumerate(params):
        if isinstance(p_, T["TensorDictParams"]) and res["blocks"][bi].get("enter") == "ok" and not temp[bi]:
            reg = {nm: t for nm, t in p_.named_parameters(remove_duplicate=False)}
            reg.update({nm: t for nm, t in p_.named_buffers(remove_duplicate=False)})
            leaves = dict(flat_td(p_))
            bad = sorted(k for k in set(reg) | set(leaves) if reg.get(k) is not leaves.get(k))
            if bad:
                res["tdp_registration"].append((bi, bad))
    res["ptrace"] = [describe_td(env, p) for p in params]
    return res


def describe_td(env, td):
    """nested [[name, ref | [[...]]], ...] of a (possibly TensorDictParams) tensordict, in key order"""
    T = _imports()
    torch = T["torch"]
    if isinstance(td, T["TensorDictParams"]):
        td = td._param_td
    out = []
    for k, v in td._tensordict.items() if hasattr(td, "_tensordict") else td.items():
        if isinstance(v, torch.Tensor):
            i = id(v)
            if i not in env.known:
                # a leaf object made while building the params (TensorDictParams conversion): becomes a known object
                tid = -(len([1 for kk in env.known.values() if kk < 0]) + 1)
                env.known[i] = tid
                env.tens[tid] = v
            out.append([k, env_ref(env, v)])
        else:
            out.append([k, describe_td(env, v)])
    return out


# ---------------------------------------------------------------------- oracle (implementation only)
def expected_slot_values(case):
    """(mid, name) -> tid the innermost enclosing block supplies, under whichever qualified name of the slot;
    ambiguous when two names of one slot supply different tensors."""
    spec = case["spec"]
    slots, ambiguous = {}, False
    for blk in case["blocks"]:
        seen, local = set(), {}

        def walk(mid, ents):
            nonlocal ambiguous
            m = spec["mods"][mid]
            first = mid not in seen
            seen.add(mid)
            subs = dict((a, b) for a, b in m["subs"])
            for n, x in ents:
                if isinstance(x, int):
                    if (mid, n) in local and local[(mid, n)] != x:
                        ambiguous = True  # two names of one slot supply different tensors: no verdict
                    local.setdefault((mid, n), x)  # supplied under any of the slot's names (functional_call's reading)
                elif subs.get(n) is not None and m["ty"] != "tdp":
                    walk(subs[n], x)
        walk(blk["target"], blk["p"])
        slots.update(local)
    return slots, ambiguous


def actual_memo_slots(case):
    """(mid, name) -> tid under tensordict's actual rule: a sub-module met again (memo hit) is skipped with its whole
    sub-tree, whatever the second name supplies"""
    spec = case["spec"]
    slots = {}
    for blk in case["blocks"]:
        seen, local = set(), {}

        def walk(mid, ents):
            m = spec["mods"][mid]
            seen.add(mid)
            subs = dict((a, b) for a, b in m["subs"])
            for n, x in ents:
                if isinstance(x, int):
                    local[(mid, n)] = x
                elif subs.get(n) is not None and m["ty"] != "tdp" and subs[n] not in seen:
                    walk(subs[n], x)
        walk(blk["target"], blk["p"])
        slots.update(local)
    return slots


def slots_of_block(case, blk):
    one = {"spec": case["spec"], "blocks": [blk]}
    return expected_slot_values(one)[0]


def reference_output(case, slots):
    """torch.func.functional_call on a fresh copy of the module tree with the supplied tensors under the qualified
    names (independent of to_module)."""
    T = _imports()
    torch = T["torch"]
    env = build(case)
    spec = case["spec"]
    names = {}

    def walk(mid, prefix):
        m = spec["mods"][mid]
        for n, _ in m["params"]:
            if (mid, n) in slots:
                names[prefix + n] = env.tensor(slots[(mid, n)])
        for n, _, _ in m["bufs"]:
            if (mid, n) in slots:
                names[prefix + n] = env.tensor(slots[(mid, n)])
        for n, c in m["subs"]:
            if c is not None:
                walk(c, prefix + n + ".")
    walk(0, "")
    x = torch.tensor([[1.0, 2.0], [3.0, 4.0], [5.0, 6.0]], dtype=torch.float64)
    with torch.no_grad():
        return torch.func.functional_call(env.root, {k: v.detach() for k, v in names.items()}, (x,), tie_weights=False, strict=False)


def diff_maps(a, b):
    """names whose binding differs between two named_maps: {name: (where_before, where_after, same_object, same_value)}"""
    out = {}
    for n in sorted(set(a[0]) | set(a[1]) | set(b[0]) | set(b[1])):
        wa = "param" if n in a[0] else ("buffer" if n in a[1] else None)
        wb = "param" if n in b[0] else ("buffer" if n in b[1] else None)
        oa = a[0].get(n, a[1].get(n))
        ob = b[0].get(n, b[1].get(n))
        if wa != wb or oa is not ob:
            out[n] = [wa, wb, oa is ob]
    return out


def value_diff(a, b):
    return sorted(n for n in a[2] if n in b[2] and a[2][n] != b[2][n] and a[2][n] >= 0)


def resolve(env, name):
    """the object a qualified name denotes now (attribute lookup along _modules; None if unreachable)"""
    T = _imports()
    obj = env.root
    parts = name.split(".")
    try:
        for j, part in enumerate(parts):
            if isinstance(obj, T["TensorDictParams"]):
                rest = ".".join(parts[j:])
                return obj._parameters.get(rest, obj._buffers.get(rest))
            if part in obj._modules:
                obj = obj._modules[part]
            else:
                obj = getattr(obj, part, None)
        return obj
    except Exception:  # noqa: BLE001
        return None


def same_vals(a, b):
    return all(a[2].get(n) == b[2].get(n) for n in set(a[2]) | set(b[2]))


def classify_restore_failure(case, res, i, value_level=False):
    """signatures of a failed restore at the exit of block i (decidable from the case and the observed maps):
    a list of (signature, names it explains). Each known defect has its own exact pattern; anything else is 'other'."""
    T = _imports()
    blk, B = case["blocks"][i], res["blocks"][i]
    d = diff_maps(B["before"], B["after"])
    base = {"call": "to_module as context manager"}
    untouched = "pre_exit" in B and same_maps(B["pre_exit"], B["after"]) and same_vals(B["pre_exit"], B["after"])
    if value_level and blk["inplace"] is True and B.get("occ_alias"):
        # two DISTINCT tensor objects on one storage under two swapped names (D137). One tied OBJECT under two names
        # was D134: repaired (PENDING-D134), no attribution any more -- a recurrence is reported as 'other-values'.
        # (checked first: with equal supplied values 'first supplied value left behind' and 'nothing undone' look alike)
        return [(dict(base, defect="inplace-storage-aliased-values-not-restored", site="_td._set_tensor_dict"), [])]
    if blk["swap_dest"] and B.get("exit") == "TypeError" and untouched and not blk["manual"]:
        # the inverse was attempted (whatever the body did) and died on the repeated keyword before touching the module
        return [(dict(base, defect="swap_dest-kwarg-repeated-on-exit", site="_contextlib._reverse_to_module"), sorted(d))]
    if B.get("body_kind") == "exception" and untouched and B.get("exit") == B.get("body") and not blk["manual"]:
        # __exit__ saw an Exception and returned without inverting: the module is exactly as it was inside the block and
        # the body's exception propagates unchanged
        return [(dict(base, defect="exit-on-exception-skips-restore", site="TensorDictBase.__exit__"), sorted(d))]
    if value_level:
        return [(dict(base, defect="other-values"), [])]
    pats = {}
    env = res["env"]
    for n, (wa, wb, same) in d.items():
        before_obj = B["before"][0].get(n, B["before"][1].get(n))
        inside_obj = B["inside"][0].get(n, B["inside"][1].get(n))
        now = B["after_resolved"].get(n)
        rewrapped = (blk["usd"] and isinstance(now, T["torch"].Tensor) and now is not before_obj
                     and kind_of(before_obj) in ("P", "B") and kind_of(now) == kind_of(before_obj)
                     and now.data_ptr() == before_obj.data_ptr())
        # (a buffer that ended in __dict__ after its slot was given an nn.Parameter was D131: repaired, PENDING-D131)
        if wa == wb and wa is not None and rewrapped:
            pats.setdefault("use_state_dict-rewraps-parameters", []).append(n)
        else:
            pats.setdefault("other", []).append(n)
    sites = {"use_state_dict-rewraps-parameters": "_td.TensorDict._to_module"}
    return [(dict(base, defect=k, **({"site": sites[k]} if k in sites else {})), v) for k, v in sorted(pats.items())]


def tied_inplace(case, i):
    """block i runs inplace=True and one tensor object of the module is reached through >= 2 swapped slots"""
    blk = case["blocks"][i]
    if blk["inplace"] is not True:
        return False
    spec = case["spec"]
    count = {}
    seen = set()

    def walk(mid, ents):
        m = spec["mods"][mid]
        if mid in seen:
            return
        seen.add(mid)
        ps = dict((a, b) for a, b in m["params"])
        ps.update((a, b) for a, b, _ in m["bufs"])
        subs = dict((a, b) for a, b in m["subs"])
        for n, x in ents:
            if isinstance(x, int):
                if ps.get(n) is not None:
                    count[ps[n]] = count.get(ps[n], 0) + 1
            elif subs.get(n) is not None:
                walk(subs[n], x)
    walk(blk["target"], blk["p"])
    return any(c > 1 for c in count.values())


def td_within_structure(spec, mid, ents):
    m = spec["mods"][mid]
    if m["ty"] == "tdp":
        return True
    leaves = {n for n, t in m["params"] if t is not None} | {n for n, t, _ in m["bufs"] if t is not None}
    subs = {n: c for n, c in m["subs"] if c is not None}
    for n, x in ents:
        if isinstance(x, int):
            if n not in leaves:
                return False
        elif n not in subs or not td_within_structure(spec, subs[n], x):
            return False
    return True


def check_oracle(R, case, res):
    """the property, evaluated on the implementation's observations only"""
    T = _imports()
    torch = T["torch"]
    blocks = case["blocks"]
    small = {"spec": case["spec"], "blocks": blocks, "exc": case["exc"]}
    # (1) every entered block: after its exit the module holds what it held before the block
    first_fail = None
    tainted = False  # an inner block failed to enter (partial writes) or a hand-written swap-back was abandoned
    for i in reversed(range(len(blocks))):  # innermost exits first in time
        B = res["blocks"][i]
        if B.get("enter") is None:
            continue  # never reached
        if B.get("enter") != "ok" or "after" not in B or (blocks[i]["manual"] and B.get("exit") != "ok"):
            tainted = True
            R.count("oracle:not-applicable(entry failed or manual swap-back abandoned)")
            continue
        if not td_within_structure(case["spec"], blocks[i]["target"], blocks[i]["p"]):
            # the tensordict names something that is not a (non-None) parameter/buffer or sub-module of the target: not
            # "same structure / subset". Entering usually raises; in the custom-__setattr__ path a None entry can be
            # overwritten and the exit then raises. Compared with the model, not judged.
            R.count("oracle:not-applicable(tensordict outside the module's structure)")
            if not same_maps(B["before"], B["after"]) or value_diff(B["before"], B["after"]):
                tainted = True
            continue
        if blocks[i]["manual"]:
            # a hand-written swap-back (`swap.to_module(m, return_swap=False)`) is not a with-block: the property does
            # not speak about it; it is kept for the model correspondence only. What it leaves behind is the user's.
            R.count("oracle:not-applicable(manual swap-back)")
            if not same_maps(B["before"], B["after"]) or value_diff(B["before"], B["after"]):
                tainted = True
            continue
        if first_fail is not None or tainted:
            break
        R.count("oracle:restore-checked:" + B.get("body_kind", "?"))
        if not same_maps(B["before"], B["after"]):
            first_fail = i
            d = diff_maps(B["before"], B["after"])
            for sig, names in classify_restore_failure(case, res, i):
                R.oracle_fail("restore:identity", small,
                              {"block": i, "exit": B.get("exit"), "body": B.get("body"), "changed": {n: d[n] for n in names}}, sig)
        else:
            vd = value_diff(B["before"], B["after"])
            if vd:
                first_fail = i
                for sig, _ in classify_restore_failure(case, res, i, value_level=True):
                    R.oracle_fail("restore:values", small, {"block": i, "names": vd, "body": B.get("body")}, sig)
    for bi, bad in res.get("tdp_registration", []):
        nested_only = all("." in k for k in bad)
        sig = {"call": "TensorDictParams update", "defect": "nested-handle-bypasses-registration" if nested_only else "other"}
        if nested_only:
            sig["site"] = "nn/params.py: writes through tdparams[key] reach _param_td without _reset_params"
        R.oracle_fail("tdparams:registration", small, {"block": bi, "names": bad, "via": "to_module exit (_quick_set)"}, sig)
    # (2) inside the innermost block the module computes with the supplied values
    if res["output"] is not None and all(res["blocks"][i].get("enter") == "ok" for i in range(len(blocks))):
        slots, ambiguous = expected_slot_values(case)
        if any(b["inplace"] for b in blocks):
            # in-place writes go into the module's own tensor objects: with any aliasing (tied tensors, a tensor supplied
            # for two slots, state-dict re-wrapping, the module's own tensors as values) the supplied values do not
            # determine a unique computation -> no verdict
            occ = []
            for m in reachable(case["spec"]):
                mm = case["spec"]["mods"][m]
                occ += [t for _, t in mm["params"] if t is not None] + [t for _, t, _ in mm["bufs"] if t is not None]
            supplied = [t for b in blocks for t in set(slots_of_block(case, b).values())]
            allt = occ + supplied
            if len(set(allt)) != len(allt) or any(b["usd"] or b["mode"] == "self" for b in blocks):
                ambiguous = True
        ok_tree = all(case["spec"]["mods"][m]["ty"] not in ("lazy", "tdp") for m in reachable(case["spec"]))
        if not ambiguous and ok_tree:
            try:
                ref = reference_output(case, slots)
            except Exception as e:  # noqa: BLE001 -- the reference itself cannot run: no verdict
                R.count("oracle:reference-unavailable")
                ref = None
            if ref is not None:
                R.count("oracle:output-compared")
                y = res["output"]
                if y.shape != ref.shape or not torch.equal(y, ref):
                    sig = {"call": "to_module as context manager", "defect": "output-differs"}
                    act = actual_memo_slots(case)
                    if act != slots:  # the two differ only by the rule 'a module met again is skipped with its sub-tree'
                        # values supplied only under the second name of a shared sub-module (or below it): is the output
                        # the one computed without exactly those values?
                        try:
                            ref2 = reference_output(case, act)
                            if y.shape == ref2.shape and torch.equal(y, ref2):
                                sig = {"call": "to_module as context manager", "site": "_td.TensorDict._to_module (memo)",
                                       "defect": "entries-under-second-name-of-shared-submodule-ignored"}
                        except Exception:  # noqa: BLE001
                            pass
                    R.oracle_fail("inside:output", small, {"got": y.tolist(), "functional_call": ref.tolist()}, sig)


# ====================================================================== model side
def ref_sx(r):
    if r is None:
        return Sym("none")
    tag, i, k, v, st = r
    return [Sym(tag), i if i >= 0 else 100000 - i, Sym(k), v, st]


def ents_sx(ents):
    return [[n, (ents_sx(x) if (isinstance(x, list) and (not x or isinstance(x[0], list))) else ref_sx(x))] for n, x in ents]


def model_line(case, res):
    """(prog <mods> <blocks> <exc>): module heap described from the REAL objects' initial snapshot"""
    spec = case["spec"]
    init = res["trace"][0][3]
    mods = []
    for (mid, ps, bs, at) in init:
        m = spec["mods"][mid]
        mods.append([mid, Sym("t") if m["ty"] == "cus" else Sym("f"),
                     [[n, ref_sx(r)] for n, r in ps], [[n, ref_sx(r)] for n, r in bs], [[n, ref_sx(r)] for n, r in at],
                     [[n, (Sym("none") if c is None else c)] for n, c in m["subs"]]])
    blocks = []
    for i, blk in enumerate(case["blocks"]):
        inp = Sym("none") if blk["inplace"] is None else [Sym("some"), Sym("t") if blk["inplace"] else Sym("f")]
        blocks.append([blk["target"], inp, Sym("t") if blk["usd"] else Sym("f"), Sym("t") if blk["swap_dest"] else Sym("f"),
                       Sym("t") if blk["manual"] else Sym("f"), Sym("t") if res["env"].live[i] else Sym("f"),  # is the source still referenced at exit time
                       ents_sx(res["env"].pleaves[i])])
    exc = case["exc"]
    if exc["kind"] == "none":
        e = [Sym("none")]
    else:
        # whether a (pre-)hook placed on module k fires is a fact about forward() (trusted), computed from the spec
        pt = exc["point"]
        fires = True
        if pt[0] in ("pre", "hook"):
            fires = [pt[1], Sym("pre")] in forward_order(case)
        e = [Sym(exc["kind"]), exc["level"], Sym("t") if fires else Sym("f")]
    return sx([Sym("prog"), mods, blocks, e])


def forward_order(case):
    """[(mid, 'pre'|'post')...]: order in which forward pre-hooks / hooks of the modules fire when root(x) runs"""
    spec = case["spec"]
    ev = []

    def go(mid):
        m = spec["mods"][mid]
        ev.append([mid, Sym("pre")])
        if m["ty"] not in ("mlist", "mdict"):
            for _, c in m["subs"]:
                if c is not None:
                    go_child(c)
        ev.append([mid, Sym("post")])

    def go_child(c):
        m = spec["mods"][c]
        if m["ty"] in ("mlist", "mdict"):  # containers without forward: their children are called by the parent
            for _, cc in m["subs"]:
                if cc is not None:
                    go_child(cc)
        elif m["ty"] == "tdp":  # read through .values(), never called
            pass
        else:
            go(c)
    go(0)
    return ev


def canon_trace(trace):
    """renumber fresh objects by first appearance so that implementation and model numbering coincide"""
    ren, sren = {}, {}

    def r(x):
        if x is None or x == "none":
            return None
        tag, i, k, v, st = x
        if st not in sren:
            sren[st] = len(sren)
        if tag == "f":
            if i not in ren:
                ren[i] = len(ren)
            return ["f", ren[i], k, v, sren[st]]
        return ["k", i if i < 100000 else 100000 - i, k, v, sren[st]]
    out = []
    for ev, lvl, outc, snap in trace:
        out.append([ev, lvl, outc, [[mid, [[n, r(x)] for n, x in ps], [[n, r(x)] for n, x in bs], [[n, r(x)] for n, x in at]]
                                    for mid, ps, bs, at in snap]])
    return out


def impl_outcome_enum(s):
    """exception classes are compared as a small enum"""
    if s in ("ok", "Inject", "InjectBase", "KeyError", "TypeError"):
        return s
    if s in ("AttributeError", "UnboundLocalError"):
        return "AttrError"
    return "other"


# ====================================================================== stream A
def case_key(case):
    return hashlib.sha1(json.dumps(case, sort_keys=True).encode()).hexdigest()[:16]


def run_programs(R, have_model):
    rng = R.rng
    nprog = 400 if R.quick else 5000
    pending = []
    corpus = []
    cdir = os.path.join(os.path.dirname(os.path.dirname(os.path.abspath(__file__))), "corpus", PID)
    if os.path.isdir(cdir):
        for f in sorted(os.listdir(cdir)):
            if f.endswith(".json"):
                corpus.append(json.load(open(os.path.join(cdir, f))))
    progs = []
    for c in corpus:
        progs.append((c["spec"], c["blocks"], [c["exc"]]))
    for pi in range(nprog):
        rich = rng.random() < 0.3
        spec = gen_tree(rng, rich=rich)
        blocks = gen_program(rng, spec, rich=rich)
        pts = injection_points(spec, len(blocks))
        if not R.quick and len(pts) > 8 and pi % 4:
            pts = [pts[0]] + rng.sample(pts[1:], 7)
        # a few BaseException injections
        extra = []
        for p in rng.sample(pts[1:], min(2, len(pts) - 1)):
            q = dict(p)
            q["kind"] = "base"
            extra.append(q)
        progs.append((spec, blocks, pts + extra))
    for spec, blocks, pts in progs:
        for exc in pts:
            case = {"spec": spec, "blocks": blocks, "exc": exc}
            try:
                res = execute(case)
            except Exception as e:  # noqa: BLE001 -- the harness could not even build the case: not a verdict
                R.count("harness:build-error:" + type(e).__name__)
                continue
            swapped = sum(len(flatten_ents(b["p"])) for b in blocks)
            R.case(case_key(case), nontrivial=swapped >= 2,
                   sample={"modules": [m["ty"] for m in spec["mods"]], "blocks": len(blocks), "exc": exc, "final": res["final"]})
            R.count("prog:depth=%d" % len(blocks))
            R.count("prog:exc=" + (exc["kind"] if exc["kind"] == "none" else exc["kind"] + ":" + exc["point"][0]))
            R.count("prog:final=" + impl_outcome_enum(res["final"].split(":")[-1]) if not res["final"].startswith("enter") else "prog:final=enter-raised")
            for b in blocks:
                R.count("blk:mode=" + b["mode"])
                R.count("blk:source=" + b.get("src", "held"))
                if b["inplace"]:
                    R.count("blk:inplace")
                if b["usd"]:
                    R.count("blk:use_state_dict")
                if b["manual"]:
                    # hand-written swap-back (return_swap=False on the way back: a shared sub-module's swap is re-applied
                    # once per name -- C13_installed_swap_reapply_noop)
                    R.count("blk:manual")
                    rs = reachable(spec, b["target"])
                    if len(rs) < sum(1 for m in rs for _, c in spec["mods"][m]["subs"] if c is not None) + 1:
                        R.count("blk:manual:shared-submodule-below-target")
                if b["as"] != "td":
                    R.count("blk:as=" + b["as"])
            for m in reachable(spec):
                R.count("mod:" + spec["mods"][m]["ty"])
            if len(reachable(spec)) < sum(1 for m in reachable(spec) for _, c in spec["mods"][m]["subs"] if c is not None) + 1:
                R.count("tree:shared-submodule")
            check_oracle(R, case, res)
            if have_model and model_ok_tree(spec) and not res["final"].startswith("build:"):
                pending.append((case, canon_trace(res["trace"]), model_line(case, res)))
                R.count("model:in-scope")
    if have_model and pending:
        # how many generated cases lie inside the domain of the program theorems (wf_heapb, block_okb evaluated by the
        # extracted definitions themselves)
        scopes = run_model([p[2].replace("(prog ", "(scope ", 1) for p in pending])
        for (case, _, _), sc in zip(pending, scopes):
            if isinstance(sc, list) and len(sc) == 5:
                inside = sc[0] == "t" and sc[1] == "t"
                kind = case["exc"]["kind"]
                kind = "no-exception" if kind == "none" else kind
                R.count("theorem-domain:" + ("inside" if inside else "outside") + ":" + kind)
                if sc[2] != "t":
                    R.count("theorem-domain:names-not-unique")
                # C13_restore_mixed_on_exception (plain / swap_dest / in-place blocks) and C13_inplace_contents_partial
                # (one in-place block on a tree without storage-level aliasing: tidyb evaluated by the extracted code)
                if sc[0] == "t" and sc[3] == "t" and any(b["inplace"] for b in case["blocks"]):
                    R.count("theorem-domain:mixed-with-inplace:" + kind)
                if sc[4] == "t":
                    nb = "one-block" if len(case["blocks"]) == 1 else "nested"
                    R.count("theorem-domain:inplace-contents:%s:%s" % (nb, kind))
                    if any(tied_inplace(case, i) for i in range(len(case["blocks"]))):
                        R.count("theorem-domain:inplace-contents:tied-object")
                elif all(b["inplace"] for b in case["blocks"]):
                    R.count("theorem-domain:inplace-contents:outside")
        outs = run_model([p[2] for p in pending])
        for (case, itrace, _), m in zip(pending, outs):
            R.traces += 1
            mt = model_trace(m)
            it = [[ev, lvl, impl_outcome_enum(o), snap] for ev, lvl, o, snap in itrace]
            if mt != it:
                first = next((j for j in range(min(len(mt), len(it))) if mt[j] != it[j]), min(len(mt), len(it))) if isinstance(mt, list) else 0
                R.mismatch("to_module-program-trace", {"spec": case["spec"], "blocks": case["blocks"], "exc": case["exc"]},
                           {"first_differing_event": first, "impl": it[first] if first < len(it) else "(end)"},
                           {"model": (mt[first] if isinstance(mt, list) and first < len(mt) else mt)})


def flatten_ents(ents, prefix=""):
    out = []
    for n, x in ents:
        if isinstance(x, list) and (not x or isinstance(x[0], list)):
            out.extend(flatten_ents(x, prefix + n + "."))
        else:
            out.append((prefix + n, x))
    return out


def model_trace(m):
    """parse the model's answer ((ev lvl outcome snapshot) ...) into the canonical trace form"""
    if not isinstance(m, list) or (m and m[0] == "decode-error"):
        return m

    def r(x):
        if x == "none":
            return None
        return [x[0], x[1], x[2], x[3], x[4]]
    tr = []
    for ev, lvl, outc, snap in m:
        tr.append([ev, lvl, outc, [[mid, [[n, r(x)] for n, x in ps], [[n, r(x)] for n, x in bs], [[n, r(x)] for n, x in at]]
                                   for mid, ps, bs, at in snap]])
    return canon_trace(tr)


# ====================================================================== stream B: from_module
def simple_ref(env, t):
    r = env_ref(env, t)
    return None if r is None else r[:3]


def canon_simple(x):
    """renumber fresh objects by first appearance in a nested structure of refs ['k'|'f', id, kind(, val, stor)]"""
    ren = {}

    def go(y):
        if isinstance(y, list) and len(y) >= 3 and y[0] in ("k", "f") and isinstance(y[1], int):
            if y[0] == "f":
                ren.setdefault(y[1], len(ren))
                return ["f", ren[y[1]], y[2]]
            return ["k", y[1] if y[1] < 100000 else 100000 - y[1], y[2]]
        if isinstance(y, list):
            return [go(z) for z in y]
        return None if y == "none" else y
    return go(x)


def flat_td(td, prefix=()):
    """(joined key, object) for every leaf, through TensorDictParams children too"""
    T = _imports()
    out = []
    src = td._param_td if isinstance(td, T["TensorDictParams"]) else td
    for k, v in src._tensordict.items():
        if isinstance(v, T["torch"].Tensor):
            out.append((".".join(prefix + (k,)), v))
        else:
            out.extend(flat_td(v, prefix + (k,)))
    return out


def run_from_module(R, have_model):
    T = _imports()
    torch, TensorDict = T["torch"], T["TensorDict"]
    rng = R.rng
    n = 300 if R.quick else 4000
    pending = []
    for _ in range(n):
        rich = rng.random() < 0.35
        spec = gen_tree(rng, rich=rich)
        case = {"spec": spec, "kind": "from_module"}
        try:
            env = build({"spec": spec})
            env.fresh, env.fresh_list, env.stor = {}, [], {}
        except Exception as e:  # noqa: BLE001
            R.count("harness:build-error:" + type(e).__name__)
            continue
        root = env.root
        named = {}
        for nme, p_ in root.named_parameters(remove_duplicate=False):
            named[nme] = p_
        nb = dict(root.named_buffers(remove_duplicate=False))
        overlap = set(named) & set(nb)
        named.update(nb)
        order = reachable(spec)
        variants = [("plain", {}), ("lock", {"lock": True})]
        if all(spec["mods"][m]["ty"] != "tdp" for m in order):
            variants.append(("as_module", {"as_module": True}))
        if model_ok_tree(spec):
            variants.append(("state_dict", {"use_state_dict": True}))
        for vname, kw in variants:
            R.case(case_key(case) + vname, nontrivial=len(named) >= 2,
                   sample={"modules": [spec["mods"][m]["ty"] for m in order], "variant": vname, "names": len(named)})
            R.count("from_module:" + vname)
            try:
                td = TensorDict.from_module(root, **kw)
                flat = flat_td(td)
            except Exception as e:  # noqa: BLE001
                R.oracle_fail("from_module:raises", dict(case, variant=vname), {"exception": type(e).__name__, "msg": str(e)[:200]},
                              {"call": "TensorDict.from_module", "defect": "raises", "variant": vname})
                continue
            got = dict(flat)
            problems = {}
            if len(got) != len(flat):
                problems["duplicate-keys"] = True
            if vname == "state_dict":
                want = {k: v for k, v in root.state_dict(keep_vars=True).items()}
            else:
                want = named
            if set(got) != set(want):
                problems["missing"] = sorted(set(want) - set(got))
                problems["extra"] = sorted(set(got) - set(want))
            for k in set(got) & set(want):
                a, b = got[k], want[k]
                if vname in ("plain", "lock"):
                    ok = a is b
                else:  # as_module re-wraps plain buffers, state_dict detaches: the same storage is what is demanded
                    try:
                        ok = (a is b) or (a.data_ptr() == b.data_ptr() and a.shape == b.shape)
                    except Exception:  # noqa: BLE001 -- uninitialised parameters
                        ok = a is b or type(a) is type(b)
                if not ok:
                    problems.setdefault("not-the-module-tensor", []).append(k)
            if overlap:
                problems["name-both-param-and-buffer"] = sorted(overlap)
            if problems:
                R.oracle_fail("from_module:exact", dict(case, variant=vname), problems,
                              {"call": "TensorDict.from_module", "defect": "not-exact", "variant": vname})
            if vname == "plain" and have_model and model_ok_tree(spec):
                desc = describe_td(env, td)
                snap = raw_snapshot(env)
                mods = []
                for (mid, ps, bs, at) in snap:
                    m = spec["mods"][mid]
                    mods.append([mid, Sym("t") if m["ty"] == "cus" else Sym("f"), [[a, ref_sx(r)] for a, r in ps],
                                 [[a, ref_sx(r)] for a, r in bs], [[a, ref_sx(r)] for a, r in at],
                                 [[a, (Sym("none") if c is None else c)] for a, c in m["subs"]]])
                pending.append((case, canon_simple(desc), sx([Sym("from-module"), mods, 0])))
    if pending:
        outs = run_model([p[2] for p in pending])
        for (case, desc, _), m in zip(pending, outs):
            R.traces += 1
            mo = canon_simple(m[1]) if isinstance(m, list) and m and m[0] == "td" else ([] if m == "none" else m)
            if mo != desc:
                R.mismatch("from_module-structure", case, desc, mo)


# ====================================================================== stream C: TensorDictParams registration
KEYS_C = ["a", "b", "c", "n", "m"]


def gen_tdp_case(rng):
    tens = []
    spelling = rng.randrange(0, 3)

    def newt():
        k = rng.choice(["T", "T", "P", "B"])
        fl = rng.random() < 0.75
        if not fl and k == "P":
            k = "B"
        tens.append({"k": k, "f": fl, "v": rng.randrange(0, 4)})
        return len(tens) - 1

    def tree(depth):
        ents = []
        keys = KEYS_C[:]
        rng.shuffle(keys)
        for k in keys[:rng.choice([1, 2, 2, 3])]:
            if depth < 2 and rng.random() < 0.35:
                ents.append([k, tree(depth + 1)])
            else:
                ents.append([k, newt()])
        return ents
    init = tree(0)
    if not any(isinstance(x, list) for _, x in init):
        init.append(["n", tree(1)])
        init = [e for i, e in enumerate(init) if e[0] not in [f[0] for f in init[:i]]]
    ops = []
    cur = copy.deepcopy(init)  # structural shadow to generate mostly-valid paths

    def paths(ents, pre=()):
        leaves, subs = [], []
        for k, x in ents:
            if isinstance(x, list):
                subs.append(pre + (k,))
                l2, s2 = paths(x, pre + (k,))
                leaves += l2
                subs += s2
            else:
                leaves.append(pre + (k,))
        return leaves, subs

    def sh_get(path):
        e = cur
        for k in path:
            e = dict((a, b) for a, b in e)[k]
        return e

    def sh_set(path, v):
        e = cur
        for k in path[:-1]:
            d = dict((a, b) for a, b in e)
            if k not in d:
                e.append([k, []])
                d = dict((a, b) for a, b in e)
            e = d[k]
        for it in e:
            if it[0] == path[-1]:
                it[1] = v
                return
        e.append([path[-1], v])

    def sh_del(path):
        e = cur
        for k in path[:-1]:
            e = dict((a, b) for a, b in e)[k]
        e[:] = [it for it in e if it[0] != path[-1]]
    for _ in range(rng.choice([1, 2, 3, 4, 5, 6])):
        leaves, subs = paths(cur)
        r = rng.random()
        if r < 0.35:
            base = rng.choice([()] + subs)
            path = list(base) + [rng.choice(KEYS_C)]
            if rng.random() < 0.25:
                path.append(rng.choice(KEYS_C))
            # do not descend into a tensor
            ok = True
            e = cur
            for k in path[:-1]:
                d = dict((a, b) for a, b in e)
                if k in d and not isinstance(d[k], list):
                    ok = False
                    break
                e = d.get(k, [])
            if not ok:
                continue
            t = newt()
            # tdparams.update({k: {...}}) with k an existing sub-tensordict recurses into the plain nested TensorDict:
            # the tensor is stored as it is (no Parameter/Buffer conversion); every other spelling converts
            top = dict((a, b) for a, b in cur)
            conv = not (spelling == 2 and len(path) > 1 and isinstance(top.get(path[0]), list))
            ops.append(["set", path, t, conv])
            sh_set(path, t)
        elif r < 0.5 and leaves:
            path = list(rng.choice(leaves + subs))
            ops.append(["del", path])
            sh_del(path)
        elif r < 0.6:
            top = [k for k, _ in cur]
            free = [k for k in KEYS_C if k not in top]
            if top and free:
                k, k2 = rng.choice(top), rng.choice(free)
                ops.append(["rename", k, k2])
                v = sh_get([k])
                sh_del([k])
                sh_set([k2], v)
        elif r < 0.85 and subs:
            path = list(rng.choice(subs))
            k = rng.choice(KEYS_C)
            d = dict((a, b) for a, b in sh_get(path))
            t = newt()
            ops.append(["nset", path, k, t])
            sh_set(path + [k], t)
        elif subs:
            path = list(rng.choice(subs))
            ks = [k for k, _ in sh_get(path)]
            if ks:
                k = rng.choice(ks)
                ops.append(["ndel", path, k])
                sh_del(path + [k])
    return {"kind": "tdparams", "tens": tens, "init": init, "ops": ops, "no_convert": rng.random() < 0.3,
            "spelling": spelling}


def exec_tdp(case):
    """returns (observations after construction and after each op, oracle verdicts)"""
    T = _imports()
    torch, nn, TensorDict, TDP = T["torch"], T["nn"], T["TensorDict"], T["TensorDictParams"]
    env = Env()
    env.tens, env.known, env.fresh, env.fresh_list, env.stor = {}, {}, {}, [], {}

    def tensor(tid):
        if tid in env.tens:
            return env.tens[tid]
        d = case["tens"][tid]
        t = torch.full((2,), d["v"], dtype=torch.float64 if d["f"] else torch.int64)
        if d["k"] == "P":
            t = nn.Parameter(t)
        elif d["k"] == "B":
            t = T["Buffer"](t)
        env.tens[tid] = t
        env.known[id(t)] = tid
        return t

    def lv(l):
        return {n: (tensor(x) if isinstance(x, int) else lv(x)) for n, x in l}
    src = TensorDict(lv(case["init"]), batch_size=[])
    p = TDP(src, no_convert=case["no_convert"])
    # the model starts from the tensordict the constructor produced (leaves already converted): its leaf objects are
    # registered as objects of the case
    init_desc = [[k, _strip3(x)] for k, x in describe_td(env, p._param_td)]
    obs, verdicts = [], []

    def observe(raised):
        ps = [[n, env_ref(env, t)[:3]] for n, t in p._parameters.items()]
        bs = [[n, env_ref(env, t)[:3]] for n, t in p._buffers.items()]
        obs.append([raised, ps, bs, describe_simple(env, p._param_td)])
        named = {n: t for n, t in p.named_parameters(remove_duplicate=False)}
        nb = {n: t for n, t in p.named_buffers(remove_duplicate=False)}
        leaves = flat_td(p)
        ld = dict(leaves)
        allreg = dict(named)
        allreg.update(nb)
        ok = (len(ld) == len(leaves) and not (set(named) & set(nb)) and set(allreg) == set(ld)
              and all(allreg[k] is ld[k] for k in ld)
              and all(isinstance(v, nn.Parameter) for v in named.values())
              and all(not isinstance(v, nn.Parameter) for v in nb.values()))
        verdicts.append((ok, {"missing": sorted(set(ld) - set(allreg)), "stale": sorted(set(allreg) - set(ld)),
                              "other-object": sorted(k for k in set(ld) & set(allreg) if allreg[k] is not ld[k])}))
    observe(False)
    for op in case["ops"]:
        raised = False
        try:
            if op[0] == "set":
                key = tuple(op[1]) if len(op[1]) > 1 else op[1][0]
                if case["spelling"] == 0:
                    p[key] = tensor(op[2])
                elif case["spelling"] == 1:
                    p.set(key, tensor(op[2]))
                else:
                    p.update({op[1][0]: _nest(op[1][1:], tensor(op[2]))})
            elif op[0] == "del":
                key = tuple(op[1]) if len(op[1]) > 1 else op[1][0]
                if case["spelling"] == 0:
                    del p[key]
                elif case["spelling"] == 1:
                    p.del_(key)
                else:
                    p.pop(key)
            elif op[0] == "rename":
                p.rename_key_(op[1], op[2])
            elif op[0] == "nset":
                key = tuple(op[1]) if len(op[1]) > 1 else op[1][0]
                h = p[key] if case["spelling"] != 1 else p.get(key)
                if case["spelling"] == 2:
                    h.set(op[2], tensor(op[3]))
                else:
                    h[op[2]] = tensor(op[3])
            elif op[0] == "ndel":
                key = tuple(op[1]) if len(op[1]) > 1 else op[1][0]
                h = p.get(key)
                del h[op[2]]
        except Exception as e:  # noqa: BLE001
            raised = True
        observe(raised)
    return obs, verdicts, init_desc, env


def _strip3(x):
    if isinstance(x, list) and len(x) == 5 and x[0] in ("k", "f"):
        return x[:3]
    return [[k, _strip3(y)] for k, y in x]


def _nest(path, v):
    for k in reversed(path):
        v = {k: v}
    return v


def describe_simple(env, td):
    T = _imports()
    out = []
    for k, v in td._tensordict.items():
        if isinstance(v, T["torch"].Tensor):
            i = id(v)
            out.append([k, env_ref(env, v)[:3]])
        else:
            out.append([k, describe_simple(env, v)])
    return out


def tdp_model_line(case, init_desc):
    def r(x):
        return [Sym(x[0]), x[1] if x[1] >= 0 else 100000 - x[1], Sym(x[2]), 0, 0]

    def ents(e):
        return [[n, (ents(x) if (isinstance(x, list) and (not x or isinstance(x[0], list))) else r(x))] for n, x in e]
    ops = []
    for op in case["ops"]:
        if op[0] == "set":
            d = case["tens"][op[2]]
            ops.append([Sym("set"), list(op[1]), [Sym("k"), op[2], Sym(d["k"]), 0, 0], Sym("t") if d["f"] else Sym("f"),
                        Sym("t") if op[3] else Sym("f")])
        elif op[0] == "del":
            ops.append([Sym("del"), list(op[1])])
        elif op[0] == "rename":
            ops.append([Sym("rename"), op[1], op[2]])
        elif op[0] == "nset":
            d = case["tens"][op[3]]
            ops.append([Sym("nset"), list(op[1]), op[2], [Sym("k"), op[3], Sym(d["k"]), 0, 0]])
        elif op[0] == "ndel":
            ops.append([Sym("ndel"), list(op[1]), op[2]])
    return sx([Sym("tdp-run"), Sym("t") if case["no_convert"] else Sym("f"), ents(init_desc), ops])


def run_tdparams(R, have_model):
    rng = R.rng
    n = 500 if R.quick else 6000
    pending = []
    for _ in range(n):
        case = gen_tdp_case(rng)
        try:
            obs, verdicts, init_desc, env = exec_tdp(case)
        except Exception as e:  # noqa: BLE001
            R.count("harness:tdp-error:" + type(e).__name__)
            continue
        R.case(case_key(case), nontrivial=len(case["ops"]) >= 1, sample={"init": case["init"], "ops": case["ops"]})
        for op in case["ops"]:
            R.count("tdp-op:" + op[0])
        for j, (ok, why) in enumerate(verdicts):
            if ok:
                continue
            # first failing step only: later steps inherit the stale registration
            sig = {"call": "TensorDictParams update", "defect": "other"}
            prior_nested = [o for o in case["ops"][:j] if o[0] in ("nset", "ndel")]
            if prior_nested and j >= 1:
                last = case["ops"][j - 1]
                if last[0] in ("nset", "ndel") and obs[j][1] == obs[j - 1][1] and obs[j][2] == obs[j - 1][2] and not obs[j][0]:
                    sig = {"call": "TensorDictParams update", "defect": "nested-handle-bypasses-registration",
                           "site": "nn/params.py: writes through tdparams[key] reach _param_td without _reset_params"}
            R.oracle_fail("tdparams:registration", case, dict(why, step=j), sig)
            break
        if have_model:
            pending.append((case, canon_simple(obs), tdp_model_line(case, init_desc)))
    if pending:
        outs = run_model([p[2] for p in pending])
        for (case, obs, _), m in zip(pending, outs):
            R.traces += 1
            mo = canon_simple([[x[0] == "t", x[1], x[2], x[3]] for x in m]) if isinstance(m, list) and (not m or m[0] != "decode-error") else m
            # the model stops being told about steps after a stale registration only through its own state: compare all
            if mo != obs:
                first = next((j for j in range(min(len(mo), len(obs))) if mo[j] != obs[j]), -1) if isinstance(mo, list) else -1
                R.mismatch("tdparams-registration-trace", case, {"step": first, "impl": obs[first] if first >= 0 else obs},
                           {"model": mo[first] if first >= 0 else mo})


# ====================================================================== stream D: batched parameters under torch.vmap
def exec_vmap(case):
    """`torch.vmap(lambda p, x: (with p.to_module(root): root(x)))` over a stack of parameter sets"""
    T = _imports()
    torch = T["torch"]
    env = build(case)
    env.fresh, env.fresh_list, env.stor = {}, [], {}
    blk = case["blocks"][0]
    nb = case["batch"]
    tds = []
    for i in range(nb):
        def lv(l, i=i):
            out = {}
            for n, x in l:
                if isinstance(x, int):
                    d = case["spec"]["tens"][x]
                    dt = torch.int64 if d["sh"] == "s" else torch.float64
                    out[n] = torch.full(SHAPES[d["sh"]], d["v"] + i, dtype=dt)
                else:
                    out[n] = lv(x)
            return out
        tds.append(T["TensorDict"](lv(blk["p"]), batch_size=[]))
    ps = torch.stack(tds)
    x = torch.tensor([[1.0, 2.0], [3.0, 4.0], [5.0, 6.0]], dtype=torch.float64)
    before = named_maps(env)
    obs = {"before": before, "pre_exit": None}
    target = env.mods[blk["target"]]

    def f(p, xx):
        with p.to_module(target):
            try:
                if case["exc"]["kind"] == "exc":
                    raise T["Inject"]("injected")
                with torch.no_grad():
                    return env.root(xx)
            finally:
                ps_ = {n: q for n, q in env.root.named_parameters(remove_duplicate=False)}
                bs_ = {n: q for n, q in env.root.named_buffers(remove_duplicate=False)}
                obs["pre_exit"] = (ps_, bs_, {})
    out, err = None, None
    try:
        out = torch.vmap(f, (0, None))(ps, x)
    except BaseException as e:  # noqa: BLE001
        err = e
    after = named_maps(env)
    return env, before, obs["pre_exit"], after, out, err


def run_vmap(R):
    T = _imports()
    torch = T["torch"]
    rng = R.rng
    n = 120 if R.quick else 1500
    done = 0
    for _ in range(n * 3):
        if done >= n:
            break
        spec = gen_tree(rng, rich=False)
        if any(spec["mods"][m]["ty"] in ("bn", "tdm") for m in reachable(spec)):
            continue
        done += 1
        blk = {"target": 0, "mode": "data", "inplace": None, "usd": False, "as": "td", "swap_dest": False, "manual": False,
               "p": gen_pspec(rng, spec, 0, "data", consistent=True)}
        case = {"spec": spec, "blocks": [blk], "exc": {"kind": rng.choice(["none", "none", "exc"])}, "vmap": True,
                "batch": rng.choice([1, 2, 3])}
        try:
            env, before, pre_exit, after, out, err = exec_vmap(case)
        except Exception as e:  # noqa: BLE001
            R.count("harness:vmap-error:" + type(e).__name__)
            continue
        R.case(case_key(case), nontrivial=len(flatten_ents(blk["p"])) >= 2,
               sample={"modules": [m["ty"] for m in spec["mods"]], "vmap_batch": case["batch"], "exc": case["exc"]})
        R.count("vmap:" + case["exc"]["kind"])
        if not same_maps(before, after):
            sig = {"call": "to_module as context manager", "defect": "other"}
            if (case["exc"]["kind"] == "exc" and isinstance(err, T["Inject"]) and pre_exit is not None
                    and same_maps(pre_exit, after)):
                sig = {"call": "to_module as context manager", "defect": "exit-on-exception-skips-restore",
                       "site": "TensorDictBase.__exit__"}
            R.oracle_fail("restore:identity", case, {"under": "torch.vmap", "changed": diff_maps(before, after),
                                                      "raised": type(err).__name__ if err is not None else None}, sig)
        if case["exc"]["kind"] == "none":
            if err is not None:
                R.count("vmap:raised:" + type(err).__name__)  # functorch's restrictions, not the property
                continue
            slots, ambiguous = expected_slot_values(case)
            if ambiguous:
                continue
            refs = []
            for i in range(case["batch"]):
                ci = copy.deepcopy(case)
                for t in set(slots.values()):
                    ci["spec"]["tens"][t]["v"] += i
                refs.append(reference_output(ci, slots))
            ref = torch.stack(refs)
            R.count("oracle:vmap-output-compared")
            if out.shape != ref.shape or not torch.equal(out, ref):
                sig = {"call": "to_module as context manager", "defect": "output-differs"}
                act = actual_memo_slots(case)
                if act != slots:  # the two differ only by the rule 'a module met again is skipped with its sub-tree'
                    try:
                        refs2 = []
                        for i in range(case["batch"]):
                            ci = copy.deepcopy(case)
                            for t in set(slots.values()):
                                ci["spec"]["tens"][t]["v"] += i
                            refs2.append(reference_output(ci, act))
                        ref2 = torch.stack(refs2)
                        if out.shape == ref2.shape and torch.equal(out, ref2):
                            sig = {"call": "to_module as context manager", "site": "_td.TensorDict._to_module (memo)",
                                   "defect": "entries-under-second-name-of-shared-submodule-ignored"}
                    except Exception:  # noqa: BLE001
                        pass
                R.oracle_fail("inside:output", case, {"under": "torch.vmap", "got": out.tolist(), "functional_call": ref.tolist()}, sig)


# ====================================================================== main / replay (streams B, C are appended below)
def main(R):
    R.rule = ("programs: a case = (module DAG, 1..3 nested to_module blocks with their options and parameter tensordicts, "
              "injection point) — distinct by its JSON, non-trivial when the blocks swap >= 2 slots; every injection point of a "
              "program (before / pre-hook and hook of every module / after / after an inner block) is a case of its own. "
              "from_module: (tree, variant), non-trivial with >= 2 names. TensorDictParams: (initial tree, op list, spelling), "
              "non-trivial with >= 1 op. vmap: (tree, batch, exception or not).")
    R.assumptions = ["module forward() does not rebind parameter/buffer slots (forward semantics trusted)",
                     "exceptions are injected by raise statements around module(x) and by forward pre-hooks / hooks",
                     "module graphs are acyclic (a module is never its own descendant)",
                     "object identity = Python object identity of the tensor bound under a name; storage identity = data_ptr",
                     "the restore theorems cover plain blocks (no use_state_dict / inplace=True / swap_dest); those options are "
                     "covered by the executable model + correspondence only"]
    R.trusted = ["torch.func.functional_call (tie_weights=False, strict=False) as the reference for 'computes with the supplied values'",
                 "torch.nn.Module.named_parameters/named_buffers(remove_duplicate=False) as the observation of the property",
                 "harness/c13.py: generators, canonical renumbering of objects created by the code, the spec oracle"]
    R.step_prove()
    ok = R.step_driver()
    _imports()
    run_programs(R, ok)
    run_from_module(R, ok)
    run_tdparams(R, ok)
    run_vmap(R)
    dom = {k: n for k, n in R.hist.items() if k.startswith("theorem-domain:")}
    R.extra["theorem_domain"] = dom
    R.extra["streams"] = {"programs(model+oracle)": R.hist.get("model:in-scope", 0),
                          "restore-oracle-evaluations": sum(n for k, n in R.hist.items() if k.startswith("oracle:restore-checked")),
                          "output-comparisons": R.hist.get("oracle:output-compared", 0) + R.hist.get("oracle:vmap-output-compared", 0)}


def replay(body):
    """re-executes one recorded case against the implementation, the model and the oracle; prints the three observations"""
    from . import core
    _imports()
    if body.get("kind") == "no-failing-input-found":
        cases = [u.get("case") for u in body.get("no_longer_checks", []) if u.get("case")]
        for u in body.get("no_longer_checks", []):
            if "case" not in u:
                print("no longer shown:", json.dumps(u)[:2000])
    else:
        cases = [body["case"]]
        print("recorded:", body.get("check"), json.dumps(body.get("signature")), json.dumps(body.get("detail"), default=str)[:1500])
    have_model = core.build_driver(PID)[0]
    for case in cases:
        R = core.Run(PID, "quick", 0)
        if case.get("kind") == "from_module" or case.get("kind") == "tdparams":
            if case["kind"] == "tdparams":
                obs, verdicts, init_desc, env = exec_tdp(case)
                for j, (o, (ok, why)) in enumerate(zip(canon_simple(obs), verdicts)):
                    print("impl  step", j, json.dumps(o), "| registration exact:", ok, json.dumps(why) if not ok else "")
                if have_model:
                    m = run_model([tdp_model_line(case, init_desc)])[0]
                    for j, x in enumerate(m if isinstance(m, list) else [m]):
                        print("model step", j, json.dumps(canon_simple(x)))
            else:
                T = _imports()
                env = build({"spec": case["spec"]})
                env.fresh, env.fresh_list, env.stor = {}, [], {}
                kw = {"plain": {}, "lock": {"lock": True}, "as_module": {"as_module": True}, "state_dict": {"use_state_dict": True}}[case.get("variant", "plain")]
                try:
                    td = T["TensorDict"].from_module(env.root, **kw)
                    print("impl  from_module keys:", sorted(k for k, _ in flat_td(td)))
                except Exception as e:  # noqa: BLE001
                    print("impl  from_module raised", type(e).__name__, e)
                print("named_parameters:", [n for n, _ in env.root.named_parameters(remove_duplicate=False)])
                print("named_buffers:   ", [n for n, _ in env.root.named_buffers(remove_duplicate=False)])
            continue
        if case.get("vmap"):
            env, before, pre_exit, after, out, err = exec_vmap(case)
            print("impl  under torch.vmap: raised", type(err).__name__ if err is not None else None,
                  "| restored:", same_maps(before, after), "| changed:", json.dumps(diff_maps(before, after)))
            continue
        res = execute(case)
        print("final outcome:", res["final"])
        itrace = canon_trace(res["trace"])
        for ev in itrace:
            print("impl ", json.dumps([ev[0], ev[1], impl_outcome_enum(ev[2]), ev[3]]))
        if have_model and model_ok_tree(case["spec"]) and not res["final"].startswith("build:"):
            m = model_trace(run_model([model_line(case, res)])[0])
            for ev in (m if isinstance(m, list) else [m]):
                print("model", json.dumps(ev))
            it = [[ev, lvl, impl_outcome_enum(o), snap] for ev, lvl, o, snap in itrace]
            print("model == implementation:", m == it)
        check_oracle(R, case, res)
        if not R.oracle_failures:
            print("oracle: holds on this case")
        for (label, c, detail, sig) in R.oracle_failures:
            print("oracle FAILS:", label, json.dumps(sig), json.dumps(detail, default=str)[:1500])
    return 0
