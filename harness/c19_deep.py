"""C19 deepening: element-level content, input/output plumbing, memoised batched views, lazy op classes.
Each stream compares the real code with the extracted model (R.mismatch) and, separately, evaluates the property's own
oracle (vmap == stack of the per-sample results; a later call sees the current content) on the implementation alone."""
import itertools
import shutil
import tempfile
import traceback

import torch
from tensordict import TensorDict, lazy_stack
from tensordict.base import is_tensor_collection
from torch._C._functorch import is_batchedtensor
from torch.utils._pytree import tree_flatten

from . import progs
from .core import Sym, sx


def call_site(f):
    """('ok', value) or ('raise', exception class, name of the function that raised)"""
    try:
        return ("ok", f())
    except Exception as e:  # noqa: BLE001
        tb = traceback.extract_tb(e.__traceback__)
        return ("raise", type(e).__name__, tb[-1].name if tb else "?")


def prod(l):
    n = 1
    for s in l:
        n *= s
    return n


def unravel(v, shape):
    out = []
    for s in reversed(shape):
        out.append(v % s)
        v //= s
    return out[::-1]


def take(x, dim, j):
    return x[(slice(None),) * dim + (j,)]


def tdobs(x):
    """observation of a tensordict INCLUDING dim names (its own and those of its nested tensordicts) and lock state"""
    o = progs.observe(x)
    o["names"] = list(x.names)
    o["names_len_ok"] = len(x.names) == x.batch_dims
    o["nested_names"] = {str(k): list(v.names) for k, v in sorted(x.items(True), key=lambda kv: str(kv[0])) if is_tensor_collection(v)}
    return o


def snapshot(x):
    """deep, value-level snapshot of an argument (nothing in it aliases the argument)"""
    if is_tensor_collection(x):
        return ["td", tdobs(x), bool(x.is_locked)]
    if isinstance(x, torch.Tensor):
        return ["ten", list(x.shape), x.reshape(-1).tolist()]
    return ["obj", repr(x)]


def stacked_names(sample_names, o, rank_after):
    """names of torch.stack-ing named samples along o as vmap defines them: the sample's names, None at the new dim"""
    n = list(sample_names)
    n.insert(o % rank_after, None)
    return n


# ------------------------------------------------------------------------------------------------ (a) elements
def elem_td(bs, feats, names):
    d = {}
    for k, f in enumerate(feats):
        sh = list(bs) + list(f)
        d[f"k{k}"] = torch.arange(prod(sh), dtype=torch.int64).reshape(sh)
    return TensorDict(d, batch_size=list(bs), names=None if names is None else [None if n < 0 else f"n{n}" for n in names])


def canon_names(td):
    return [-1 if n is None else int(n[1:]) for n in td.names]


def gen_elem_case(rng):
    rank = rng.choice([1, 2, 2, 3, 3])
    bs = [rng.choice([1, 2, 3]) for _ in range(rank)]
    in_dim = rng.randrange(-rank, rank)
    if rng.random() < 0.04:
        in_dim = rng.choice([rank, -rank - 1])
    B = bs[in_dim % rank] if -rank <= in_dim < rank else 2
    feats = [rng.choice([[], [], [2], [B], [3], [B, 2], [2, 2]]) for _ in range(rng.choice([1, 1, 2]))]
    names = None
    if rng.random() < 0.4:
        names = [(-1 if rng.random() < 0.25 else i) for i in range(rank)]
        if all(n < 0 for n in names):
            names = None
    r = rank - 1
    out_dim = rng.randrange(0, r + 1) if rng.random() < 0.45 else rng.randrange(-(r + 3), r + 4)
    return {"kind": "elements", "bs": bs, "feats": feats, "names": names, "in_dim": in_dim, "out_dim": out_dim}


def run_elem_impl(case):
    td = elem_td(case["bs"], case["feats"], case["names"])
    got = call_site(lambda: torch.vmap(lambda x: x, in_dims=case["in_dim"], out_dims=case["out_dim"])(td))
    return td, got


def elem_obs(case, res):
    """canonical observation of a successful call: batch size, names, schema, source address of every element"""
    bs = list(res.batch_size)
    schema, content = [], []
    for k, f in enumerate(case["feats"]):
        v = res.get(f"k{k}")
        schema.append([k, list(v.shape[len(bs):])])
        osh = list(case["bs"]) + list(f)
        content.append([k, [[k] + unravel(x, osh) for x in v.reshape(-1).tolist()]])
    return ["ok", bs, canon_names(res), schema, content]


def check_elements(R):
    rng = R.rng
    n = 220 if R.quick else 6000
    cases, lines, impl = [], [], []
    for _ in range(n):
        case = gen_elem_case(rng)
        td, got = run_elem_impl(case)
        rank = len(case["bs"])
        r = rank - 1
        o = case["out_dim"]
        R.case(("elem", repr(case)), nontrivial=rank > 1)
        R.count("elements:out_dim:" + ("in-range" if 0 <= o <= r else "negative-position" if -(r + 1) <= o < 0 else "out-of-range"))
        R.count("elements:in_dim:" + ("neg" if case["in_dim"] < 0 else "pos"))
        queries = []
        if got[0] == "ok":
            for k in range(len(case["feats"])):
                sh = list(got[1].get(f"k{k}").shape)
                queries.append([k, [list(I) for I in itertools.product(*[range(s) for s in sh])]])
        names = None if case["names"] is None else [Sym("some"), case["names"]]
        lines.append(sx([Sym("vmap-src"), case["bs"], names, [[k, f] for k, f in enumerate(case["feats"])], case["in_dim"], o, queries]))
        cases.append(case)
        impl.append((td, got))
        # ---- oracle (implementation only): every out_dim that names a position of the result gives the stack of the slices
        if -rank <= case["in_dim"] < rank and -(r + 1) <= o <= r:
            ind = case["in_dim"] % rank
            want = progs.observe(torch.stack([take(td, ind, j) for j in range(case["bs"][ind])], o))
            sig = {"kind": "elements", "out_dim_negative": o < 0}
            if got[0] != "ok":
                R.oracle_fail("vmap-elements:raises", case, {"error": list(got[1:])}, dict(sig, what="raises", err=got[1]))
            elif progs.observe(got[1]) != want:
                R.oracle_fail("vmap-elements:content", case, {"have_bs": list(got[1].batch_size), "want_bs": want["batch_size"]},
                              dict(sig, what="wrong"))
    m = R.model(lines)
    for case, (td, got), mo in zip(cases, impl, m):
        if got[0] == "ok":
            obs = elem_obs(case, got[1])
            if mo and mo[0] == "ok" and mo[2] != "none":
                mo = [mo[0], mo[1], mo[2][1]] + mo[3:]
            elif mo and mo[0] == "ok":
                mo = [mo[0], mo[1], [-1] * len(mo[1])] + mo[3:]
            R.count("elements:accepted")
        elif got[2] == "_process_batched_inputs":
            obs = "reject"
            R.count("elements:in_dim-rejected")
        else:
            obs = ["raise", got[1]]
            R.count("elements:raises:" + got[1])
        if obs != mo:
            R.mismatch("vmap-elements", case, obs if obs == "reject" or obs[0] != "ok" else obs[:4], mo if not isinstance(mo, list) or mo[0] != "ok" else mo[:4])
        R.traces += 1


# ------------------------------------------------------------------------------------------------ (b) plumbing
NOTSET = object()


def gen_arg(rng, B, depth, inherited=NOTSET):
    """(arg description, in_dims description); descriptions are nested lists ready for core.sx"""
    if depth < 2 and rng.random() < (0.22 if depth == 0 else 0.15):
        typ = rng.choice(["tup", "lst"])
        n = rng.choice([0, 1, 2, 2, 3])
        if inherited is NOTSET and rng.random() < 0.25:
            bd = rng.choice([None, None, 0, 1, -1])
            return [Sym(typ)] + [gen_arg(rng, B, depth + 1, bd)[0] for _ in range(n)], bd
        kids = [gen_arg(rng, B, depth + 1, inherited) for _ in range(n)]
        dtyp, dk = typ, [k[1] for k in kids]
        x = rng.random()
        if x < 0.03:
            dtyp = "lst" if typ == "tup" else "tup"
        elif x < 0.06:
            dk = dk[:-1] if dk and rng.random() < 0.5 else dk + [None]
        return [Sym(typ)] + [k[0] for k in kids], [Sym(dtyp)] + dk
    kind = rng.choice(["td", "td", "td", "ten", "ten", "obj"])
    if inherited is not NOTSET:
        d = inherited
    elif kind == "obj":
        d = 0 if rng.random() < 0.06 else None
    else:
        d = None if rng.random() < 0.3 else rng.randrange(-3, 3)
    if rng.random() < 0.015 and inherited is NOTSET:
        d = Sym("bad")
    if kind == "obj":
        return Sym("obj"), d
    ranks = [r for r in (1, 2, 3) if isinstance(d, int) and -r <= d < r] or [0, 1, 2, 3]
    if kind == "td":
        ranks = [r for r in ranks if r > 0] or [1]
    if rng.random() < 0.04:
        ranks = [1, 2, 3] if kind == "td" else [0, 1, 2, 3]
    rank = rng.choice(ranks)
    sh = [rng.choice([1, 2, 3]) for _ in range(rank)]
    if isinstance(d, int) and -rank <= d < rank:
        sh[d % rank] = B + 1 if rng.random() < 0.04 else B
    return [Sym(kind), sh], d


def build_arg(desc, named=False, locked=False):
    if desc == "obj":
        return 5
    if desc[0] == "td":
        bs = desc[1]
        td = TensorDict({"a": torch.arange(prod(bs) * 2, dtype=torch.int64).reshape(bs + [2]) + 1,
                         "b": torch.arange(prod(bs), dtype=torch.int64).reshape(bs) * 3}, batch_size=bs,
                        names=[f"d{i}" for i in range(len(bs))] if named else None)
        return td.lock_() if locked else td
    if desc[0] == "ten":
        return torch.arange(prod(desc[1]), dtype=torch.int64).reshape(desc[1]) + 7
    kids = [build_arg(k, named, locked) for k in desc[1:]]
    return tuple(kids) if desc[0] == "tup" else kids


def build_dims(desc):
    if desc is None or isinstance(desc, int):
        return desc
    if desc == "bad":
        return "a"
    kids = [build_dims(k) for k in desc[1:]]
    return tuple(kids) if desc[0] == "tup" else kids


def flat_desc(desc):
    if isinstance(desc, list) and desc and desc[0] in ("tup", "lst"):
        return [x for k in desc[1:] for x in flat_desc(k)]
    return [desc]


def py_bcast(prefix, tree):
    """the spec of pytree prefix broadcasting, written independently (None when the prefix does not fit)"""
    is_node = lambda t: isinstance(t, list) and t and t[0] in ("tup", "lst")  # noqa: E731
    if not is_node(prefix):
        return [prefix] * len(flat_desc(tree))
    if not is_node(tree) or tree[0] != prefix[0] or len(tree) != len(prefix):
        return None
    out = []
    for p, t in zip(prefix[1:], tree[1:]):
        x = py_bcast(p, t)
        if x is None:
            return None
        out += x
    return out


def gen_outs(rng, flat_args, flat_dims, B):
    """(output spec, out_dims description); spec leaves: ('in', i) ('der', i) ('cten', shape) ('ctd', bs) ('obj',)"""
    def orank(leaf):
        if leaf[0] in ("in", "der", "wr"):
            a, d = flat_args[leaf[1]], flat_dims[leaf[1]] if flat_dims else None
            if a == "obj":
                return None
            return len(a[1]) - (1 if isinstance(d, int) else 0)
        if leaf[0] in ("cten", "ctd"):
            return len(leaf[1])
        return None

    def leaf():
        x = rng.random()
        if flat_args and x < 0.7:
            return [rng.choice(["in", "in", "der", "wr"]), rng.randrange(len(flat_args))]
        if x < 0.8:
            return ["cten", [rng.choice([1, 2, 3, B]) for _ in range(rng.choice([0, 1, 2]))]]
        if x < 0.92:
            return ["ctd", [rng.choice([1, 2, B]) for _ in range(rng.choice([1, 2]))]]
        return ["obj"]

    def dim_for(lf):
        r = orank(lf)
        x = rng.random()
        if r is None:
            return None if x < 0.85 else 0
        if x < 0.08:
            return None
        if x < 0.8:
            return rng.randrange(0, max(r, 0) + 1)
        return rng.randrange(-(r + 3), r + 4)

    def tree(depth):
        if depth == 0 and rng.random() < 0.35:
            lf = leaf()
            d = dim_for(lf)
            if isinstance(d, int) and rng.random() < 0.15:
                d = [Sym("tup"), d]
            return lf, d
        if depth > 0 and rng.random() < 0.8:
            lf = leaf()
            return lf, dim_for(lf)
        typ = rng.choice(["tup", "tup", "lst"])
        n = rng.choice([1, 2, 2, 3])
        kids = [tree(depth + 1) for _ in range(n)]
        spec = [typ] + [k[0] for k in kids]
        if rng.random() < 0.15:
            return spec, rng.choice([0, 0, None, 1])
        dtyp, dk = typ, [k[1] for k in kids]
        x = rng.random()
        if x < 0.03:
            dtyp = "lst" if typ == "tup" else "tup"
        elif x < 0.06:
            dk = dk[:-1] if rng.random() < 0.5 else dk + [0]
        return spec, [Sym(dtyp)] + dk

    spec, od = tree(0)
    if rng.random() < 0.012:
        od = Sym("bad")
    return spec, od


def make_out(spec, flat, writable=()):
    if spec[0] in ("tup", "lst"):
        kids = [make_out(k, flat, writable) for k in spec[1:]]
        return tuple(kids) if spec[0] == "tup" else kids
    if spec[0] == "in":
        return flat[spec[1]]
    if spec[0] == "wr":
        # the function WRITES a new entry into the argument it received and returns it (only through an un-batched, unlocked
        # tensordict argument: vmap hands over a private shallow copy, so the caller's tensordict must not see the entry)
        x = flat[spec[1]]
        if spec[1] in writable and is_tensor_collection(x):
            x.set("z", x.get("b") * 2 + 5)
        return x
    if spec[0] == "der":
        x = flat[spec[1]]
        if is_tensor_collection(x):
            return TensorDict({k: v * 2 + 1 for k, v in x.items()}, x.batch_size)
        return x * 2 + 1
    if spec[0] == "cten":
        return torch.arange(prod(spec[1]), dtype=torch.int64).reshape(spec[1]) + 40
    if spec[0] == "ctd":
        bs = spec[1]
        return TensorDict({"c": torch.arange(prod(bs) * 2, dtype=torch.int64).reshape(bs + [2]) + 50}, batch_size=bs)
    return 3


def describe_out(x):
    if isinstance(x, (tuple, list)):
        return [Sym("tup" if isinstance(x, tuple) else "lst")] + [describe_out(k) for k in x]
    if is_tensor_collection(x):
        bs = list(x.batch_size)
        return [Sym("td"), bs, [list(v.shape[len(bs):]) for v in x.values(True, True)]]
    if isinstance(x, torch.Tensor):
        return [Sym("ten"), list(x.shape), bool(is_batchedtensor(x))]
    return Sym("obj")


def obs_input(x, orig):
    if is_tensor_collection(x):
        if any(is_batchedtensor(v) for v in x.values(True, True)):
            return ["btd", list(x.batch_size)]
        if x is orig:
            return "same"
        if is_tensor_collection(orig) and set(x.keys()) == set(orig.keys()) and all(x.get(k) is orig.get(k) for k in x.keys()):
            return ["copy", list(x.batch_size)]
        return "other-td"
    if isinstance(x, torch.Tensor):
        if is_batchedtensor(x):
            return ["bten", list(x.shape)]
        return "same" if x is orig else "other-tensor"
    return "same" if x is orig else "other"


def obs_result(x):
    if is_tensor_collection(x):
        return ["td", list(x.batch_size)]
    if isinstance(x, torch.Tensor):
        return ["ten", list(x.shape)]
    return "obj"


STAGE1 = {"_check_int_or_none": ["check"], "_process_batched_inputs": ["top", "no-inputs", "structure", "bad-dim", "non-tensor", "range"],
          "_validate_and_get_batch_size": ["no-batched", "inconsistent"]}


def gen_plumb_case(rng):
    B = rng.choice([2, 3])
    nargs = rng.choice([1, 2, 2, 3, 3, 4]) if rng.random() > 0.01 else 0
    pairs = [gen_arg(rng, B, 0) for _ in range(nargs)]
    args = [p[0] for p in pairs]
    dims = [p[1] for p in pairs]
    flat_args = flat_desc([Sym("tup")] + args)
    if dims and all(d == dims[0] and (d is None or isinstance(d, int)) for d in dims) and rng.random() < 0.5:
        in_dims = dims[0]
    else:
        in_dims = [Sym("tup")] + dims
        if rng.random() < 0.02:
            in_dims = [Sym("lst")] + dims
    fd = py_bcast(in_dims, [Sym("tup")] + args)
    spec, out_dims = gen_outs(rng, flat_args, fd, B)
    return {"kind": "plumbing", "args": args, "in_dims": in_dims, "out_spec": spec, "out_dims": out_dims,
            "named": rng.random() < 0.5, "locked": rng.random() < 0.35}


def to_sym(d):
    """JSON round trip loses the Sym marker: restore it on the atoms of the description language"""
    if isinstance(d, list):
        return [to_sym(x) for x in d]
    if isinstance(d, str) and d in ("tup", "lst", "td", "ten", "obj", "bad"):
        return Sym(d)
    return d


def result_obs(got):
    if got[0] != "ok":
        return list(got[:2])
    return ["ok", [tdobs(x) if is_tensor_collection(x) else [list(x.shape), x.reshape(-1).tolist()] if isinstance(x, torch.Tensor) else repr(x)
                   for x in tree_flatten(got[1], is_leaf=is_tensor_collection)[0]]]


def run_plumb_impl(case):
    args = tuple(build_arg(a, case.get("named", False), case.get("locked", False)) for a in case["args"])
    flat_orig = tree_flatten(args, is_leaf=is_tensor_collection)[0]
    before = [snapshot(x) for x in flat_orig]
    rec = {}
    spec = case["out_spec"]
    # the flat arguments the function may write into: the tensordicts whose in_dim is None
    fdims = py_bcast(to_sym(case["in_dims"]), [Sym("tup")] + to_sym(case["args"]))
    writable = {i for i, d in enumerate(fdims or []) if d is None}

    def make_f(record):
        def f(*xs):
            flat = tree_flatten(xs, is_leaf=is_tensor_collection)[0]
            if record:
                rec["inputs"] = [obs_input(x, o) for x, o in zip(flat, flat_orig)]
            out = make_out(spec, flat, writable)
            if record:
                rec["outs"] = describe_out(out)
            return out
        return f
    ind, outd = build_dims(case["in_dims"]), build_dims(case["out_dims"])
    got = call_site(lambda: torch.vmap(make_f(True), in_dims=ind, out_dims=outd)(*args))
    extra = {"changed": [], "repeat": None}
    after1 = [snapshot(x) for x in flat_orig]
    extra["changed"] += [{"call": 1, "arg": i, "before": b, "after": a} for i, (b, a) in enumerate(zip(before, after1)) if a != b]
    # the identical call once more on the same objects (locked tensordicts reuse their memoised views)
    f2 = make_f(False)
    got2 = call_site(lambda: torch.vmap(f2, in_dims=ind, out_dims=outd)(*args))
    after2 = [snapshot(x) for x in flat_orig]
    extra["changed"] += [{"call": 2, "arg": i, "before": b, "after": a} for i, (b, a) in enumerate(zip(before, after2)) if a != b]
    r1, r2 = result_obs(got), result_obs(got2)
    if r1 != r2:
        extra["repeat"] = {"first": r1 if r1[0] != "ok" else "ok", "second": r2 if r2[0] != "ok" else "ok (different result)"}
    return args, flat_orig, rec, got, make_f(False), extra


def plumb_oracle(R, case, args, flat_orig, got, f):
    """vmap == stack of the per-sample results, when the call is inside the property's quantifier (non-negative out_dims)"""
    argtree = [Sym("tup")] + to_sym(case["args"])
    fdims = py_bcast(to_sym(case["in_dims"]), argtree)
    flat_a = flat_desc(argtree)
    if fdims is None or any(not (d is None or isinstance(d, int)) for d in fdims):
        return
    norm = []
    for a, d in zip(flat_a, fdims):
        if d is None:
            norm.append(None)
        elif a == "obj" or not (-len(a[1]) <= d < len(a[1])):
            return
        else:
            norm.append(d % len(a[1]))
    sizes = {a[1][d] for a, d in zip(flat_a, norm) if d is not None}
    if len(sizes) != 1:
        return
    B = sizes.pop()

    def rebuild(desc, it):
        if isinstance(desc, list) and desc and desc[0] in ("tup", "lst"):
            kids = [rebuild(k, it) for k in desc[1:]]
            return tuple(kids) if desc[0] == "tup" else kids
        return next(it)
    per = []
    for j in range(B):
        leaves = [(o.clone(False) if is_tensor_collection(o) else o) if d is None else take(o, d, j) for o, d in zip(flat_orig, norm)]
        per.append(tree_flatten(f(*rebuild(argtree, iter(leaves))), is_leaf=is_tensor_collection)[0])
    outtree = describe_out(f(*rebuild(argtree, iter([(o.clone(False) if is_tensor_collection(o) else o) if d is None else take(o, d, 0)
                                                     for o, d in zip(flat_orig, norm)]))))
    od = to_sym(case["out_dims"])
    if isinstance(outtree, list) and outtree[0] in ("td", "ten") and isinstance(od, list):
        # a single tensor / tensordict output: out_dims may be a 1-tuple
        if len(od) != 2 or od[0] != "tup":
            return
        fod = [od[1]]
    else:
        fod = py_bcast(od, outtree)
    if fod is None or any(not (d is None or isinstance(d, int)) for d in fod):
        return
    want, want_names = [], []
    for p, o in enumerate(fod):
        x0 = per[0][p]
        want_names.append(None if not is_tensor_collection(x0) else list(x0.names) if o is None
                          else stacked_names(x0.names, o, x0.batch_dims + 1))
        if o is None:
            if is_tensor_collection(x0) or (isinstance(x0, torch.Tensor) and len(per) > 1 and not all(torch.equal(x0, q[p]) for q in per)):
                return
            want.append(x0)
        else:
            if not (is_tensor_collection(x0) or isinstance(x0, torch.Tensor)):
                return
            rk = len(x0.batch_size) if is_tensor_collection(x0) else x0.dim()
            if not 0 <= o <= rk:
                return
            want.append(torch.stack([q[p] for q in per], o))
    R.count("plumbing:oracle-evaluated")
    sig = {"kind": "plumbing"}
    if got[0] != "ok":
        R.oracle_fail("vmap-plumbing:raises", case, {"error": list(got[1:])}, dict(sig, what="raises", err=got[1]))
        return
    have = tree_flatten(got[1], is_leaf=is_tensor_collection)[0]

    def same(h, w):
        if is_tensor_collection(w):
            return is_tensor_collection(h) and progs.observe(h) == progs.observe(w)
        if isinstance(w, torch.Tensor):
            return isinstance(h, torch.Tensor) and h.shape == w.shape and torch.equal(h, w)
        return h == w
    if len(have) != len(want) or not all(same(h, w) for h, w in zip(have, want)):
        R.oracle_fail("vmap-plumbing:result", case, {"outputs": len(have)}, dict(sig, what="wrong"))
        return
    # dim names of every tensordict output (each output its own out_dim; the same object may be returned more than once)
    have_names = [list(h.names) if is_tensor_collection(h) else None for h in have]
    if have_names != want_names or any(is_tensor_collection(h) and len(h.names) != h.batch_dims for h in have):
        R.oracle_fail("vmap-plumbing:names", case, {"have": have_names, "want": want_names}, dict(sig, what="names"))


def check_plumbing(R):
    rng = R.rng
    n = 400 if R.quick else 12000
    cases, lines1, impl = [], [], []
    for _ in range(n):
        case = gen_plumb_case(rng)
        args, flat_orig, rec, got, f, extra = run_plumb_impl(case)
        R.case(("plumb", repr(case)), nontrivial=len(case["args"]) > 1 or case["out_spec"][0] in ("tup", "lst"))
        R.count("plumbing:" + ("named" if case["named"] else "unnamed") + ("+locked" if case["locked"] else ""))
        # input integrity: after the call every argument is what it was (the generated functions write only NEW entries, and only
        # into un-batched tensordict arguments, i.e. into the private copy vmap hands over)
        if extra["changed"]:
            c0 = extra["changed"][0]
            diff = [k for k in c0["before"][1] if c0["before"][1][k] != c0["after"][1].get(k)] if c0["before"][0] == "td" else ["value"]
            R.oracle_fail("vmap-plumbing:input-changed", case, {"call": c0["call"], "flat_arg": c0["arg"], "differs_in": diff,
                                                                "before": {k: c0["before"][1][k] for k in diff} if c0["before"][0] == "td" else None,
                                                                "after": {k: c0["after"][1].get(k) for k in diff} if c0["before"][0] == "td" else None},
                          {"kind": "plumbing", "what": "input-changed"})
        if extra["repeat"]:
            R.oracle_fail("vmap-plumbing:repeated-call-differs", case, extra["repeat"], {"kind": "plumbing", "what": "repeat"})
        cases.append(case)
        impl.append((rec, got))
        lines1.append(sx([Sym("plumb"), case["in_dims"], case["args"], case["out_dims"]]))
        r = call_site(lambda: plumb_oracle(R, case, args, flat_orig, got, f))
        if r[0] != "ok":
            R.count("plumbing:oracle-reference-raises")
    m1 = R.model(lines1)
    lines2, idx2 = [], []
    for ci, (case, (rec, got), mo) in enumerate(zip(cases, impl, m1)):
        called = "inputs" in rec
        if not called:
            # refused before the function ran
            R.count("plumbing:stage1:" + (mo[1] if isinstance(mo, list) and mo[0] in ("rej", "err") else "?"))
            ok = got[0] == "raise" and got[1] == "ValueError" and isinstance(mo, list) and mo[0] in ("rej", "err") and mo[1] in STAGE1.get(got[2], [])
            if not ok:
                R.mismatch("vmap-plumb-inputs", case, list(got[:3]) if got[0] == "raise" else "ok-without-call", mo)
            R.traces += 1
            continue
        R.count("plumbing:stage1:ok")
        for x in rec["inputs"]:
            R.count("plumbing:input:" + (x if isinstance(x, str) else x[0]))
        if not (isinstance(mo, list) and mo[0] == "ok" and mo[3] == rec["inputs"]):
            R.mismatch("vmap-plumb-inputs", case, rec["inputs"], mo)
            continue
        lines2.append(sx([Sym("unwrap"), mo[1], case["out_dims"], rec["outs"]]))
        idx2.append(ci)
    m2 = R.model(lines2)
    UERR = {("ValueError", "incompatible_error"): "incompatible", ("ValueError", "_maybe_remove_batch_dim"): "value"}
    for ci, mo in zip(idx2, m2):
        case, (rec, got) = cases[ci], impl[ci]
        if got[0] == "ok":
            obs = ["ok", [obs_result(x) for x in tree_flatten(got[1], is_leaf=is_tensor_collection)[0]]]
            R.count("plumbing:stage2:ok")
        else:
            code = UERR.get((got[1], got[2])) or {"IndexError": "index", "RuntimeError": "runtime", "TypeError": "type"}.get(got[1]) or f"{got[1]}@{got[2]}"
            obs = ["err", code]
            R.count("plumbing:stage2:" + code)
        if obs != mo:
            R.mismatch("vmap-plumb-outputs", case, obs, mo)
        R.traces += 1


# ------------------------------------------------------------------------------------------------ (c) memoised views
def memo_keys(td):
    c = td._cache.get("_add_batch_dim", {}) if getattr(td, "_cache", None) else {}
    return sorted([dict(kw)["in_dim"], dict(kw)["vmap_level"]] for (_, kw) in c)


def gen_memo_case(rng):
    memmap = rng.random() < 0.25
    locked = True if memmap else rng.random() < 0.85
    ops, keys, nid = [], [0, 1], 3
    for _ in range(rng.randrange(3, 9)):
        x = rng.random()
        if x < 0.4:
            ops.append(["vmap", rng.choice([0, 1]), rng.choice([1, 1, 2])])
        elif x < 0.6:
            ops.append(["write", rng.choice(keys), rng.randrange(10, 60)])
        elif x < 0.78:
            k = rng.choice(keys + [max(keys) + 1]) if not memmap else max(keys) + 1
            if k not in keys:
                keys.append(k)
            ops.append(["rebind", k, nid, rng.randrange(60, 99)])
            nid += 1
        elif x < 0.9:
            ops.append(["pass", 9, nid, rng.randrange(100, 120)])
            nid += 1
        elif not memmap:
            ops.append(rng.choice(["unlock", "lock"]))
    ops.append(["vmap", rng.choice([0, 1]), 1])
    return {"kind": "memo", "memmap": memmap, "locked": locked, "ops": ops}


def run_memo_impl(case):
    """returns (observations per vmap / pass call, oracle failures, final cache keys)"""
    shape = (2, 3)
    td = TensorDict({"k0": torch.full(shape, 3.0), "k1": torch.full(shape, 4.0)}, batch_size=list(shape))
    tmp = None
    if case["memmap"]:
        tmp = tempfile.mkdtemp()
        td = td.memmap_(tmp)
    elif case["locked"]:
        td.lock_()
    seen, bad = [], []

    def current():
        return sorted([int(k[1:]), int(v.reshape(-1)[0].item())] for k, v in td.items())

    def g(x):
        return TensorDict({k: v + 0 for k, v in x.items()}, x.batch_size)
    try:
        for op in case["ops"]:
            if op in ("unlock", "lock"):
                td.unlock_() if op == "unlock" else td.lock_()
            elif op[0] == "vmap":
                if op[2] == 1:
                    r = torch.vmap(g, in_dims=op[1])(td)
                else:
                    r = torch.vmap(lambda dummy: torch.vmap(g, in_dims=op[1])(td), in_dims=0)(torch.zeros(2))  # noqa: B023
                s = sorted([int(k[1:]), int(v.reshape(-1)[0].item())] for k, v in r.items())
                seen.append(s)
                if s != current():
                    bad.append((op, s, current()))
            elif op[0] == "write":
                td.set_(f"k{op[1]}", torch.full(shape, float(op[2])))
            elif op[0] == "rebind":
                key, val = f"k{op[1]}", torch.full(shape, float(op[3]))
                if case["memmap"]:
                    td.make_memmap(key, shape=shape, dtype=torch.float32)
                    td.set_(key, val)
                elif td.is_locked:
                    td._set_str(key, val, inplace=False, validated=True, ignore_lock=True)
                else:
                    td.set(key, val)
            elif op[0] == "pass":
                box = {}

                def fw(c, d):
                    box["seen"] = sorted([int(k[1:]), int(v.reshape(-1)[0].item())] for k, v in c.items())
                    c[f"k{op[1]}"] = c["k0"] * 0 + d * 0 + float(op[3])  # noqa: B023
                    return d
                torch.vmap(fw, in_dims=(None, 0))(td, torch.arange(2.0))
                seen.append(box["seen"])
                if box["seen"] != current():
                    bad.append((op, box["seen"], current()))
        return seen, bad, memo_keys(td)
    finally:
        if tmp:
            shutil.rmtree(tmp, ignore_errors=True)


def memo_line(case, fix_rebind=True, memo_none=False):
    ops = []
    for op in case["ops"]:
        if isinstance(op, str):
            ops.append(Sym(op))
        elif op[0] == "rebind" and case["memmap"]:
            ops += [[Sym("rebind"), op[1], op[2], 0], [Sym("write"), op[1], op[3]]]
        else:
            ops.append([Sym(op[0])] + list(op[1:]))
    return sx([Sym("memo"), fix_rebind, memo_none, [[0, 1], [1, 2]], [[1, 3], [2, 4]], case["locked"], ops])


def check_memo(R):
    rng = R.rng
    n = 70 if R.quick else 1500
    cases = [gen_memo_case(rng) for _ in range(n)]
    # the seeded scenario C19-1 (locked tensordict passed with in_dim None, written by the function, passed again)
    cases.append({"kind": "memo", "memmap": False, "locked": True,
                  "ops": [["pass", 9, 3, 100], ["write", 0, 10], ["pass", 8, 4, 101], ["vmap", 0, 1]]})
    m = R.model([memo_line(c) for c in cases])
    for case, mo in zip(cases, m):
        R.case(("memo", repr(case)), nontrivial=True)
        R.count("memo:" + ("memmap" if case["memmap"] else "locked" if case["locked"] else "unlocked"))
        for op in case["ops"]:
            R.count("memo-op:" + (op if isinstance(op, str) else op[0]))
        got = call_site(lambda: run_memo_impl(case))  # noqa: B023
        if got[0] != "ok":
            R.oracle_fail("vmap-memo:raises", case, {"error": list(got[1:])}, {"kind": "memo", "what": "raises", "err": got[1]})
            continue
        seen, bad, keys = got[1]
        for (op, s, cur) in bad[:1]:
            R.oracle_fail("vmap-memo:stale", case, {"op": op, "function_saw": s, "current_content": cur},
                          {"kind": "memo", "what": "stale", "op": op[0]})
        obs = [seen, keys]
        mod = [[sorted(p[0]) for p in mo[0]], sorted(mo[1])]
        if obs != mod:
            R.mismatch("vmap-memo", case, obs, mod)
        # inside the model, the loop reference and the function's view agree on this history (theorem C19_memo_current)
        if any(sorted(p[0]) != sorted(p[1]) for p in mo[0]):
            R.mismatch("vmap-memo-model-stale", case, None, mo[0])
        R.traces += 1


# ------------------------------------------------------------------------------------------------ (d) lazy op classes
def lazy_subject(shape, sd):
    n = prod(shape)
    td = TensorDict({"a": torch.arange(n, dtype=torch.int64).reshape(shape) + 1,
                     "n": TensorDict({"b": torch.arange(n * 2, dtype=torch.int64).reshape(list(shape) + [2]) * 3}, batch_size=list(shape) + [2])},
                    batch_size=list(shape))
    return lazy_stack([take(td, sd, j).clone() for j in range(shape[sd])], sd)


LAZY_OPS = {
    "identity": ("self", lambda x: x),
    "set_": ("self", lambda x: x.set_("a", x.get("a") * 2)),
    "set-new": ("self", lambda x: x.set("z", x.get("a") + 5)),
    "update": ("self", lambda x: x.update({"a": x.get("a") + 1})),
    "nested-set_": ("self", lambda x: (x.get("n").set_("b", x.get("n").get("b") * 2), x)[1]),
    "get-nested": ("nested", lambda x: x.get("n")),
    "to_tensordict": ("dense", lambda x: x.to_tensordict()),
    "contiguous": ("dense", lambda x: x.contiguous()),
    "from-leaves": ("dense", lambda x: TensorDict({"a": x.get("a") * 2}, x.batch_size)),
    "clone": ("rebuild", lambda x: x.clone()),
    "copy": ("rebuild", lambda x: x.copy()),
    "apply": ("rebuild", lambda x: x.apply(lambda t: t + 1)),
    "select": ("rebuild", lambda x: x.select("a")),
    "exclude": ("rebuild", lambda x: x.exclude("n")),
}


def check_lazy_ops(R):
    cases, lines = [], []
    shapes = [(2, 3), (3, 2), (3, 2, 2), (2, 1, 3)]
    for shape in shapes:
        rank = len(shape)
        for sd in sorted({0, rank - 1, rank // 2}):
            for i in range(-rank, rank):
                for o in range(0, rank + 1):
                    for name, (cls, _) in LAZY_OPS.items():
                        if R.quick and R.rng.random() < (0.75 if rank == 3 else 0.4):
                            continue
                        if o > rank - 1 + (1 if cls == "nested" else 0):
                            continue
                        cases.append((shape, sd, i, o, name))
                        opx = [Sym("nested"), [2]] if cls == "nested" else Sym(cls)
                        lines.append(sx([Sym("lazy-op"), list(shape), sd, i, o, opx]))
    m = R.model(lines)
    for (shape, sd, i, o, name), mo in zip(cases, m):
        rank = len(shape)
        ind = i % rank
        cls, f = LAZY_OPS[name]
        case = {"kind": "lazy-op", "shape": list(shape), "stack_dim": sd, "in_dim": i, "out_dim": o, "op": name}
        R.case(("lazy-op", shape, sd, i, o, name), nontrivial=True)
        R.count("lazy-op:" + cls + (":hidden" if ind == sd else ":visible"))
        got = call_site(lambda: torch.vmap(f, in_dims=i, out_dims=o)(lazy_subject(shape, sd)))  # noqa: B023
        want = call_site(lambda: torch.stack([f(take(lazy_subject(shape, sd), ind, j)) for j in range(shape[ind])], o))  # noqa: B023
        sig = {"kind": "lazy-op", "vmapped_dim_is_stack_dim": ind == sd, "op_class": cls}
        if want[0] == "ok":
            if got[0] != "ok":
                R.oracle_fail("vmap-lazy-op:raises", case, {"error": list(got[1:])}, dict(sig, what="raises", err=got[1]))
            elif progs.observe(got[1]) != progs.observe(want[1]):
                R.oracle_fail("vmap-lazy-op:result", case, {"have_bs": list(got[1].batch_size), "want_bs": list(want[1].batch_size)},
                              dict(sig, what="wrong"))
        obs = ["ok", list(got[1].batch_size)] if got[0] == "ok" else ["raise", got[1]]
        if obs != mo:
            R.mismatch("vmap-lazy-op", case, obs, mo)
        R.traces += 1


# ------------------------------------------------------------------------------------------------ named tensordicts, reused
def named_subject(case):
    shape = case["shape"]
    n = prod(shape)
    td = TensorDict({"a": torch.arange(n * 2, dtype=torch.int64).reshape(shape + [2]) + 1,
                     "n": TensorDict({"b": torch.arange(n, dtype=torch.int64).reshape(shape) * 3}, batch_size=shape)},
                    batch_size=shape, names=[None if x < 0 else f"n{x}" for x in case["names"]])
    return td.lock_() if case["locked"] else td


def gen_reuse_case(rng):
    rank = rng.choice([1, 2, 2, 3])
    shape = [rng.choice([1, 2, 3]) for _ in range(rank)]
    names = [(-1 if rng.random() < 0.2 else i) for i in range(rank)]
    if all(x < 0 for x in names):
        names[0] = 0
    steps = []
    for _ in range(rng.choice([2, 2, 3, 4])):
        x = rng.random()
        i = rng.randrange(-rank, rank)
        if x < 0.45:
            steps.append(["id", i, rng.randrange(-rank, rank)])
        elif x < 0.75:
            steps.append(["twice", i, rng.randrange(-rank, rank), rng.randrange(-rank, rank)])
        else:
            steps.append(["none-write", rng.randrange(-(rank + 1), rank + 1)])
    return {"kind": "named-reuse", "shape": shape, "names": names, "locked": rng.random() < 0.5, "steps": steps}


def run_reuse_impl(case):
    """per step: what vmap gave, what the per-sample loop gives (names: the sample's names with None at out_dim), and whether
    the tensordict is still what it was before the first call"""
    td = named_subject(case)
    rank = len(case["shape"])
    before = snapshot(td)
    x = torch.arange(2, dtype=torch.int64) * 100
    out = []

    def fw(c, v):
        c["z"] = c["a"] + v
        return c
    for st in case["steps"]:
        if st[0] == "id":
            ind = st[1] % rank
            got = call_site(lambda: [torch.vmap(lambda t: t, st[1], st[2])(td)])  # noqa: B023
            smp = [take(td, ind, j) for j in range(case["shape"][ind])]
            want = [(torch.stack(smp, st[2]), stacked_names(smp[0].names, st[2], rank))]
        elif st[0] == "twice":
            ind = st[1] % rank
            got = call_site(lambda: list(torch.vmap(lambda t: (t, t), st[1], (st[2], st[3]))(td)))  # noqa: B023
            smp = [take(td, ind, j) for j in range(case["shape"][ind])]
            want = [(torch.stack(smp, o), stacked_names(smp[0].names, o, rank)) for o in (st[2], st[3])]
        else:
            got = call_site(lambda: [torch.vmap(fw, (None, 0), st[1])(td, x)])  # noqa: B023
            smp = [fw(td.clone(False), x[j]) for j in range(2)]
            want = [(torch.stack(smp, st[1]), stacked_names(td.names, st[1], rank + 1))]
        res = {"step": st, "raised": None if got[0] == "ok" else list(got[1:]), "bad": []}
        if got[0] == "ok":
            res["names"] = [list(g.names) for g in got[1]]
            for k, (g, (w, wn)) in enumerate(zip(got[1], want)):
                if progs.observe(g) != progs.observe(w):
                    res["bad"].append({"output": k, "what": "values"})
                if list(g.names) != wn or len(g.names) != g.batch_dims or list(g.get("n").names) != wn:
                    res["bad"].append({"output": k, "what": "names", "have": list(g.names), "nested": list(g.get("n").names), "want": wn})
        now = snapshot(td)
        if now != before:
            res["input_changed"] = {k: [before[1][k], now[1].get(k)] for k in before[1] if before[1][k] != now[1].get(k)}
        out.append(res)
    views = {}
    if case["locked"] and getattr(td, "_cache", None):
        for (_, kw), ent in td._cache.get("_add_batch_dim", {}).items():
            views[dict(kw)["in_dim"]] = list(ent[0].names)
    return out, views


def check_named_reuse(R):
    rng = R.rng
    n = 120 if R.quick else 3000
    cases = [gen_reuse_case(rng) for _ in range(n)]
    cases += [  # the three scenarios of the seeded change C19-3
        {"kind": "named-reuse", "shape": [2, 3], "names": [0, 1], "locked": False, "steps": [["none-write", 0], ["none-write", 0]]},
        {"kind": "named-reuse", "shape": [2, 3], "names": [0, 1], "locked": False, "steps": [["twice", 0, 0, 1]]},
        {"kind": "named-reuse", "shape": [2, 3], "names": [0, 1], "locked": True, "steps": [["id", 0, 0], ["id", 0, 1]]}]
    lines, owner = [], []
    for ci, case in enumerate(cases):
        rank = len(case["shape"])
        nm = [Sym("some"), case["names"]]
        for si, st in enumerate(case["steps"]):
            if st[0] != "none-write":
                lines.append(sx([Sym("names-seq"), rank, nm, st[1], list(st[2:])]))
                owner.append((ci, si))
    m = dict(zip(owner, R.model(lines)))

    def cn(l):
        return [-1 if x is None else int(x[1:]) for x in l]
    for ci, case in enumerate(cases):
        R.case(("named-reuse", repr(case)), nontrivial=True)
        R.count("named-reuse:" + ("locked" if case["locked"] else "unlocked"))
        got = call_site(lambda: run_reuse_impl(case))  # noqa: B023
        if got[0] != "ok":
            R.oracle_fail("vmap-named-reuse:harness", case, {"error": list(got[1:])}, {"kind": "named-reuse", "what": "reference-raises"})
            continue
        steps, views = got[1]
        for si, res in enumerate(steps):
            R.count("named-reuse-step:" + res["step"][0])
            sig = {"kind": "named-reuse", "step": res["step"][0], "locked": case["locked"]}
            if res["raised"]:
                R.oracle_fail("vmap-named-reuse:raises", case, {"step": si, "error": res["raised"]}, dict(sig, what="raises", err=res["raised"][0]))
            elif res["bad"]:
                R.oracle_fail("vmap-named-reuse:" + res["bad"][0]["what"], case, {"step": si, "outputs": res["bad"]}, dict(sig, what=res["bad"][0]["what"]))
            if res.get("input_changed"):
                R.oracle_fail("vmap-named-reuse:input-changed", case, {"step": si, "before_after": res["input_changed"]}, dict(sig, what="input-changed"))
            mo = m.get((ci, si))
            if mo is not None and not res["raised"]:
                want = [x[1] if x != "none" else [-1] * (len(case["shape"])) for x in mo[1]] if isinstance(mo, list) and mo[0] == "ok" else mo
                if [cn(x) for x in res["names"]] != want:
                    R.mismatch("vmap-names-seq", case, [cn(x) for x in res["names"]], mo)
            R.traces += 1
        # the memoised views of the locked tensordict keep their names (model: second component of unbatch_seq)
        for ind, vn in views.items():
            keep = [x for k, x in enumerate(case["names"]) if k != ind]
            if cn(vn) != (keep if any(x >= 0 for x in keep) else [-1] * len(keep)):
                R.mismatch("vmap-names-view", case, {"in_dim": ind, "view_names": cn(vn)}, keep)


def run(R):
    check_elements(R)
    check_plumbing(R)
    check_memo(R)
    check_lazy_ops(R)
    check_named_reuse(R)


def replay(case):
    """re-execute one recorded case against the code (and print what the per-sample reference gives)"""
    k = case["kind"]
    if k == "elements":
        td, got = run_elem_impl(case)
        print("vmap:", got if got[0] != "ok" else progs.observe(got[1]))
        rank = len(case["bs"])
        ind = case["in_dim"] % rank
        print("loop:", call_site(lambda: progs.observe(torch.stack([take(td, ind, j) for j in range(case["bs"][ind])], case["out_dim"]))))
    elif k == "plumbing":
        case = dict(case, args=to_sym(case["args"]), in_dims=to_sym(case["in_dims"]), out_dims=to_sym(case["out_dims"]))
        args, flat_orig, rec, got, f, extra = run_plumb_impl(case)
        print("arguments changed by the call:", extra["changed"], "identical second call:", extra["repeat"] or "same result")
        print("function received:", rec.get("inputs"), "returned:", rec.get("outs"))
        print("vmap:", got if got[0] != "ok" else [obs_result(x) for x in tree_flatten(got[1], is_leaf=is_tensor_collection)[0]])
    elif k == "memo":
        print("per call (function saw), stale calls, cache keys:", call_site(lambda: run_memo_impl(case)))
    elif k == "named-reuse":
        for res in run_reuse_impl(case)[0]:
            print(res)
    elif k == "lazy-op":
        shape, sd, f = tuple(case["shape"]), case["stack_dim"], LAZY_OPS[case["op"]][1]
        ind = case["in_dim"] % len(shape)
        got = call_site(lambda: torch.vmap(f, in_dims=case["in_dim"], out_dims=case["out_dim"])(lazy_subject(shape, sd)))
        print("vmap:", got if got[0] != "ok" else progs.observe(got[1]))
        print("loop:", call_site(lambda: progs.observe(torch.stack([f(take(lazy_subject(shape, sd), ind, j)) for j in range(shape[ind])], case["out_dim"]))))
    return 0
