"""C11 — implementation side: building tensordicts from JSON descriptors, applying histories, the serialisation
formats, and the canonical observation of a tensordict.  No model, no oracle decisions here (see c11.py)."""
import collections
import copy
import os
import pickle
import shutil
import tempfile

import numpy as np
import torch
from tensordict import NonTensorData, TensorDict, lazy_stack, tensorclass
from tensordict.base import TensorDictBase

DT = {  # name -> (torch dtype, element size, model id)
    "uint8": (torch.uint8, 1, 0), "int8": (torch.int8, 1, 1), "bool": (torch.bool, 1, 2),
    "int16": (torch.int16, 2, 3), "float16": (torch.float16, 2, 4), "bfloat16": (torch.bfloat16, 2, 5),
    "int32": (torch.int32, 4, 6), "float32": (torch.float32, 4, 7),
    "int64": (torch.int64, 8, 8), "float64": (torch.float64, 8, 9), "complex64": (torch.complex64, 8, 10),
    "complex128": (torch.complex128, 16, 11),
}
DT_BY_ID = {v[2]: k for k, v in DT.items()}
DT_BY_TORCH = {v[0]: k for k, v in DT.items()}
BY_SIZE = {1: ["uint8", "int8", "bool"], 2: ["int16", "float16", "bfloat16"], 4: ["int32", "float32"],
           8: ["int64", "float64", "complex64"], 16: ["complex128"]}
KEYS = ["a", "b", "c", "d", "e", "f", "g", "h", "k", "m", "p", "q"]


@tensorclass
class C11TC:
    """a tensorclass (module level, so that pickling finds it): two tensors and a non-tensor field"""
    x: torch.Tensor
    y: torch.Tensor
    s: str = "hi"


def call(f):
    try:
        return ("ok", f())
    except Exception as e:  # noqa: BLE001 -- the exception class is the observation
        return ("raise", type(e).__name__ + ": " + str(e)[:160])


def numel(shape):
    n = 1
    for s in shape:
        n *= s
    return n


def leaf_values(dtype, n, seed):
    """small integers, exact in every dtype used"""
    v = [(seed * 31 + i * 7 + 1) % 97 for i in range(n)]
    if dtype == "bool":
        v = [x % 2 for x in v]
    return v


def make_tensor(dtype, shape, view, seed):
    """a tensor of the given dtype/shape holding leaf_values, laid out in memory as [view] says"""
    tdt = DT[dtype][0]
    n = numel(shape)
    vals = leaf_values(dtype, n, seed)

    def cast(x):
        if dtype == "complex64" or dtype == "complex128":
            re = x.to(torch.float64)
            return torch.complex(re, (re + 1) % 5).to(tdt)
        return x.to(tdt)
    base = torch.tensor(vals, dtype=torch.int64).reshape(shape)
    t = cast(base)
    if view == "plain" or n == 0 and view != "offset":
        return t
    if view == "offset":
        k = 1 + seed % 3
        buf = cast(torch.zeros(k + n, dtype=torch.int64))
        buf[k:] = t.reshape(-1)
        return buf[k:].reshape(shape)
    if view == "transpose" and len(shape) >= 2:
        return t.transpose(-1, -2).contiguous().transpose(-1, -2)
    if view == "step" and len(shape) >= 1:
        buf = cast(torch.zeros(list(shape[:-1]) + [2 * shape[-1]], dtype=torch.int64))
        buf[..., ::2] = t
        return buf[..., ::2]
    if view == "expand" and len(shape) >= 1 and len(set(vals)) <= 1:
        return t
    return t


def build(node):
    """descriptor -> TensorDict"""
    d = collections.OrderedDict()
    for key, ent in node["ents"]:
        d[key] = build_entry(ent, node)
    if node.get("lazy") is not None:
        raise ValueError("lazy node at build()")
    td = TensorDict(d, batch_size=list(node["bs"]), device=node.get("dev"))
    if node.get("names"):
        td.names = list(node["names"])
    return td


def build_entry(ent, parent):
    k = ent[0]
    if k == "t":
        return make_tensor(ent[1], ent[2], ent[3], ent[4])
    if k == "nt":
        return NonTensorData(ent[1], batch_size=list(parent["bs"]))
    if k == "td":
        return build(ent[1])
    if k == "njt":
        if len(ent) > 5 and ent[5] is not None:
            # jagged tensor built from (values, offsets[, lengths]); ent[5] = True: every other row is one shorter than its slot
            sizes = list(ent[2])
            offs = torch.tensor([0] + sizes).cumsum(0)
            vals = make_tensor(ent[1], [sum(sizes)] + list(ent[3]), "plain", ent[4])
            if ent[5]:
                lens = torch.tensor([max(sz - 1, 0) if i % 2 == 0 else sz for i, sz in enumerate(sizes)])
                return torch.nested.nested_tensor_from_jagged(vals, offsets=offs, lengths=lens)
            return torch.nested.nested_tensor_from_jagged(vals, offsets=offs)
        comps = [make_tensor(ent[1], [l] + list(ent[3]), "plain", ent[4] + i) for i, l in enumerate(ent[2])]
        return torch.nested.nested_tensor(comps, layout=torch.jagged)
    if k == "lazy":
        return lazy_stack([build(m) for m in ent[2]], ent[1])
    if k == "tc":
        bs = list(parent["bs"])
        return C11TC(x=make_tensor(ent[1], bs + [2], "plain", ent[2]), y=make_tensor("int8", bs, "plain", ent[2] + 1), s="hi", batch_size=bs)
    raise ValueError(ent)


def leaf_bytes(t):
    t = t.detach()
    out = torch.empty(t.numel(), dtype=t.dtype)   # fresh, stride 1 whatever the strides of t
    out.copy_(t.reshape(-1))
    return out.view(torch.uint8).tolist()


def obs_leaf(v):
    if isinstance(v, torch.Tensor) and getattr(v, "is_nested", False):
        # the three components: values, offsets, lengths (None when the tensor has none)
        vals = v._values
        return ["njt", [["t", DT_BY_TORCH.get(vals.dtype, str(vals.dtype)), list(vals.shape), leaf_bytes(vals)]],
                v._offsets.tolist(), None if v._lengths is None else v._lengths.tolist()]
    if isinstance(v, torch.Tensor):
        return ["t", DT_BY_TORCH.get(v.dtype, str(v.dtype)), list(v.shape), leaf_bytes(v)]
    return ["other", type(v).__name__]


def obs(td):
    """canonical, JSON-able observation of everything the property talks about"""
    from tensordict import LazyStackedTensorDict
    from tensordict.base import is_tensor_collection
    from tensordict.utils import is_non_tensor
    if is_non_tensor(td):
        if isinstance(td, LazyStackedTensorDict):
            return ["nts", repr(td.tolist()), list(td.batch_size)]
        return ["nt", repr(td.data), list(td.batch_size)]
    tname = type(td).__name__
    if isinstance(td, LazyStackedTensorDict):
        return {"type": "LazyStackedTensorDict", "stack_dim": td.stack_dim, "bs": list(td.batch_size),
                "locked": bool(td.is_locked), "members": [obs(m) for m in td.tensordicts]}
    names = list(td.names) if td._has_names() else None
    if names is not None and all(n is None for n in names):
        names = None
    ents = {}
    for k, v in td.items():
        if is_tensor_collection(v):
            ents[k] = obs(v)
        else:
            ents[k] = obs_leaf(v)
    return {"type": tname, "bs": list(td.batch_size), "names": names, "dev": None if td.device is None else str(td.device),
            "locked": bool(td.is_locked), "ents": dict(sorted(ents.items()))}


def project(o, carried):
    """keep only the fields a format carries.  carried: set of {'bs','nested_bs','names','dev','locked','type'}"""
    def go(x, root):
        if isinstance(x, list):
            if x and x[0] in ("nt", "nts") and "nested_bs" not in carried:
                return x[:2]
            return x
        out = {}
        if "type" in carried:
            out["type"] = x["type"]
        if "members" in x:
            out["stack_dim"] = x["stack_dim"]
            if ("bs" in carried and root) or ("nested_bs" in carried and not root):
                out["bs"] = x["bs"]
            if "locked" in carried:
                out["locked"] = x["locked"]
            out["members"] = [go(m, False) for m in x["members"]]
            return out
        if ("bs" in carried and root) or ("nested_bs" in carried and not root):
            out["bs"] = x["bs"]
        for f in ("names", "dev", "locked"):
            if f in carried:
                out[f] = x[f]
        out["ents"] = {k: go(v, False) for k, v in x["ents"].items()}
        return out
    return go(o, True)


def first_diff(a, b, path=""):
    """first differing field between two (projected) observations, as (path, field, a, b)"""
    if isinstance(a, dict) and isinstance(b, dict):
        for f in ("type", "bs", "names", "dev", "locked", "stack_dim"):
            if a.get(f) != b.get(f):
                return (path or "/", f, a.get(f), b.get(f))
        if "members" in a or "members" in b:
            ma, mb = a.get("members", []), b.get("members", [])
            if len(ma) != len(mb):
                return (path or "/", "members", len(ma), len(mb))
            for i, (x, y) in enumerate(zip(ma, mb)):
                d = first_diff(x, y, f"{path}[{i}]")
                if d:
                    return d
            return None
        ka, kb = sorted(a["ents"]), sorted(b["ents"])
        if ka != kb:
            return (path or "/", "keys", ka, kb)
        for k in ka:
            d = first_diff(a["ents"][k], b["ents"][k], path + "/" + k)
            if d:
                return d
        return None
    if isinstance(a, dict) != isinstance(b, dict):
        return (path, "kind", "node" if isinstance(a, dict) else a[0], "node" if isinstance(b, dict) else b[0])
    if a == b:
        return None
    if a[0] != b[0]:
        return (path, "kind", a[0], b[0])
    if a[0] == "t":
        for i, f in ((1, "dtype"), (2, "shape"), (3, "values")):
            if a[i] != b[i]:
                return (path, f, a[i] if i < 3 else a[i][:16], b[i] if i < 3 else b[i][:16])
    return (path, "value", str(a)[:80], str(b)[:80])


# ------------------------------------------------------------------ history
def get_node(td, path):
    for p in path:
        td = td.get(p)
    return td


def apply_op(td, op, scratch):
    """apply one history step to the live tensordict; returns (live td, outcome) -- outcome 'ok' or 'raise: …'"""
    k = op[0]
    try:
        if k == "set":          # out-of-place write: binds a new tensor object
            get_node(td, op[1]).set(op[2], build_entry(op[3], {"bs": list(get_node(td, op[1]).batch_size)}))
        elif k == "set_":       # in-place write: same storage
            node = get_node(td, op[1])
            cur = node.get(op[2])
            node.set_(op[2], make_tensor(DT_BY_TORCH[cur.dtype], list(cur.shape), "plain", op[3]))
        elif k == "copy_":      # in-place write through the tensor handle
            cur = get_node(td, op[1]).get(op[2])
            cur.copy_(make_tensor(DT_BY_TORCH[cur.dtype], list(cur.shape), "plain", op[3]))
        elif k == "update_":
            node = get_node(td, op[1])
            cur = node.get(op[2])
            node.update_({op[2]: make_tensor(DT_BY_TORCH[cur.dtype], list(cur.shape), "plain", op[3])})
        elif k == "swap":       # the two tensor objects trade places (structural, nothing is copied)
            node = get_node(td, op[1])
            a, b = node.get(op[2]), node.get(op[3])
            node.set(op[2], b)
            node.set(op[3], a)
        elif k == "alias":      # one key is bound to another key's tensor (a fresh view object of the same memory)
            node = get_node(td, op[1])
            b = node.get(op[3])
            node.set(op[2], b.view(b.shape))
        elif k == "del":
            get_node(td, op[1]).del_(op[2])
        elif k == "rename":
            get_node(td, op[1]).rename_key_(op[2], op[3])
        elif k == "lock":
            get_node(td, op[1]).lock_()
        elif k == "unlock":
            get_node(td, op[1]).unlock_()
        elif k == "names":
            td.names = op[1]
        elif k == "newsub":     # a new nested tensordict
            node = get_node(td, op[1])
            sub = build(op[3])
            if len(op) > 4 and op[4].get("consolidated"):
                sub = sub.consolidate()     # a nested tensordict that carries its own `_consolidated` snapshot
            node.set(op[2], sub)
        elif k == "consolidate":
            td = do_consolidate(td, op[1], scratch)
        else:
            raise ValueError(op)
        return td, "ok"
    except Exception as e:  # noqa: BLE001
        if isinstance(e, ValueError) and e.args and e.args[0] is op:
            raise
        return td, "raise: " + type(e).__name__ + ": " + str(e)[:120]


def do_consolidate(td, o, scratch):
    kw = {}
    if o.get("num_threads") is not None:
        kw["num_threads"] = o["num_threads"]
    if o.get("metadata"):
        kw["metadata"] = True
    if o.get("share"):
        kw["share_memory"] = True
    if o.get("inplace"):
        kw["inplace"] = True
    if o.get("file"):
        fn = os.path.join(scratch, f"c{len(os.listdir(scratch))}.bin")
        if o.get("use_buffer"):
            kw["use_buffer"] = True
        return td.consolidate(fn, **kw)
    return td.consolidate(**kw)


# ------------------------------------------------------------------ formats: td -> decode(encode(td))
def zero_target(td, reset_bs):
    """a tensordict with the same keys/dtypes/shapes, zero content, no names, unlocked"""
    from tensordict.utils import is_non_tensor

    def go(x):
        d = {}
        for k, v in x.items():
            if isinstance(v, TensorDictBase) and not is_non_tensor(v):
                d[k] = go(v)
            elif isinstance(v, torch.Tensor):
                d[k] = torch.zeros_like(v)
            else:
                d[k] = v.clone()   # (a non-tensor entry of a locked source is itself locked: never share it)
        return TensorDict(d, batch_size=[] if reset_bs else x.batch_size, device=x.device)
    return go(td)


def fmt_pickle(td, scratch, opt):
    return pickle.loads(pickle.dumps(td, protocol=opt.get("protocol", pickle.HIGHEST_PROTOCOL)))


def fmt_deepcopy(td, scratch, opt):
    return copy.deepcopy(td)


def fmt_consolidate(td, scratch, opt):
    return do_consolidate(td, opt, scratch)


def fmt_consolidate_file(td, scratch, opt):
    fn = os.path.join(scratch, f"f{len(os.listdir(scratch))}.bin")
    kw = {}
    if opt.get("num_threads") is not None:
        kw["num_threads"] = opt["num_threads"]
    if opt.get("use_buffer"):
        kw["use_buffer"] = True
    td.consolidate(fn, **kw)
    return TensorDict.from_consolidated(fn)


def fmt_state_dict(td, scratch, opt):
    mode = opt.get("mode", "like")
    if mode == "like":
        tgt = zero_target(td, reset_bs=True)
        sd = td.state_dict()
        tgt.load_state_dict(sd)
        return tgt
    if mode == "flat":
        tgt = zero_target(td, reset_bs=False)
        sd = td.state_dict(flatten=True)
        tgt.load_state_dict(sd, from_flatten=True)
        return tgt
    if mode == "assign":
        tgt = TensorDict({}, [])
        tgt.load_state_dict(td.state_dict(), strict=False, assign=True)
        return tgt
    if mode == "pickled":   # the state dict itself goes through torch.save / torch.load
        fn = os.path.join(scratch, f"s{len(os.listdir(scratch))}.pt")
        torch.save(td.state_dict(), fn)
        sd = torch.load(fn, weights_only=False)
        tgt = zero_target(td, reset_bs=True)
        tgt.load_state_dict(sd)
        return tgt
    raise ValueError(mode)


def fmt_dict(td, scratch, opt):
    d = td.to_dict()
    mode = opt.get("mode", "bs")
    if mode == "bs":
        return TensorDict.from_dict(d, batch_size=td.batch_size)
    if mode == "auto":
        return TensorDict.from_dict(d, auto_batch_size=True)
    if mode == "dims":
        return TensorDict.from_dict(d, batch_dims=td.batch_dims)
    if mode == "plain":
        return TensorDict.from_dict(d)
    if mode == "any":
        return TensorDict.from_any(d, batch_size=td.batch_size)
    raise ValueError(mode)


def fmt_pytree(td, scratch, opt):
    import torch.utils._pytree as pt
    mode = opt.get("mode", "flatten")
    if mode == "flatten":
        leaves, spec = pt.tree_flatten(td)
        return pt.tree_unflatten(leaves, spec)
    if mode == "map":
        return pt.tree_map(lambda x: x.clone() if isinstance(x, torch.Tensor) else x, td)
    if mode == "keys":
        kl, spec = pt.tree_flatten_with_path(td)
        return pt.tree_unflatten([v for _, v in kl], spec)
    raise ValueError(mode)


def fmt_namedtuple(td, scratch, opt):
    nt = td.to_namedtuple()
    if opt.get("mode", "bs") == "bs":
        return TensorDict.from_namedtuple(nt, batch_size=td.batch_size)
    return TensorDict.from_namedtuple(nt, auto_batch_size=True)


def fmt_struct(td, scratch, opt):
    return TensorDict.from_struct_array(td.to_struct_array())


def misaligned_entries(td):
    """entries whose memory does not start at a multiple of their element size (reading such a tensor is undefined behaviour:
    torch's vectorised kernels fault on it) -- a property of the result, no address is compared or reported"""
    return [k for k, v in td.items() if isinstance(v, torch.Tensor) and not v.is_nested and v.numel() and v.data_ptr() % v.element_size()]


FORMATS = {
    # name: (function, fields carried by the format in addition to keys / dtypes / shapes / values)
    "pickle": (fmt_pickle, {"bs", "nested_bs", "names", "dev", "locked", "type"}),
    "deepcopy": (fmt_deepcopy, {"bs", "nested_bs", "names", "dev", "locked", "type"}),
    "consolidate": (fmt_consolidate, {"bs", "nested_bs", "names", "dev", "locked", "type"}),
    "consolidate_file": (fmt_consolidate_file, {"bs", "nested_bs", "names", "dev", "locked", "type"}),
    # state_dict(): "contains all the tensors and meta-data needed to rebuild the tensordict (names are currently not
    # supported)": batch sizes at every level; the device entry is only checked by load_state_dict; no lock state
    "state_dict": (fmt_state_dict, {"bs", "nested_bs"}),
    # a plain dict has no place for batch size / names / device / lock: the caller passes the batch size again
    "dict": (fmt_dict, {"bs"}),
    "namedtuple": (fmt_namedtuple, {"bs"}),
    "struct": (fmt_struct, {"bs"}),
    # the pytree context holds keys, batch_size, names, device, class -- no lock state
    "pytree": (fmt_pytree, {"bs", "nested_bs", "names", "dev", "type"}),
}


def carried(fmt, opt):
    c = set(FORMATS[fmt][1])
    if fmt in ("dict", "namedtuple") and opt.get("mode", "bs") in ("auto", "plain", "dims"):
        c.discard("bs")
    return c


# ------------------------------------------------------------------ the layout the code will use, computed from the live td
def flat_leaves(td):
    """(key path, element size, numel) in the traversal order of _reduce_vals_and_metadata (insertion order, depth first;
    a jagged nested tensor contributes values, [lengths], offsets)"""
    from tensordict.base import is_tensor_collection
    from tensordict.utils import is_non_tensor
    out = []

    def go(x, pre):
        if hasattr(x, "tensordicts"):   # lazy stack: the members, in order, keyed "0", "1", ...
            for i, m in enumerate(x.tensordicts):
                go(m, pre + (str(i),))
            return
        for k, v in x.items():
            if is_non_tensor(v):
                continue
            if is_tensor_collection(v):     # TensorDict, lazy stack, tensorclass
                go(v, pre + (k,))
            elif getattr(v, "is_nested", False):
                out.append((pre + ("<NJT_VALUES>" + k,), v._values.element_size(), v._values.numel()))
                if v._lengths is not None:
                    out.append((pre + ("<NJT_LENGTHS>" + k,), v._lengths.element_size(), v._lengths.numel()))
                out.append((pre + ("<NJT_OFFSETS>" + k,), v._offsets.element_size(), v._offsets.numel()))
            else:
                out.append((pre + (k,), v.element_size(), v.numel()))
    go(td, ())
    return out


class Scratch:
    def __enter__(self):
        self.d = tempfile.mkdtemp(prefix="c11-")
        return self.d

    def __exit__(self, *a):
        shutil.rmtree(self.d, ignore_errors=True)
