"""translator for C17: the registry of context-manager operations, from /repo's source (ast only).
 - every method decorated with @_as_context_manager(...) in base.py, _td.py, _lazy.py, persistent.py
 - every key of LAST_OP_MAPS in _contextlib.py together with the name of the function registered for it"""
import ast
import os

from .core import COQ, REPO
from .translate import TranslateError, coq_list, coq_str, translator, write_if_changed

FILES = ["tensordict/base.py", "tensordict/_td.py", "tensordict/_lazy.py", "tensordict/persistent.py"]


def decorated(path):
    tree = ast.parse(open(os.path.join(REPO, path)).read())
    out = []
    for node in ast.walk(tree):
        if isinstance(node, (ast.FunctionDef, ast.AsyncFunctionDef)):
            for d in node.decorator_list:
                f = d.func if isinstance(d, ast.Call) else d
                if isinstance(f, ast.Name) and f.id == "_as_context_manager":
                    out.append(node.name)
    return out


def registry():
    tree = ast.parse(open(os.path.join(REPO, "tensordict/_contextlib.py")).read())
    keys = []
    found_decl = False
    for node in tree.body:
        if isinstance(node, ast.Assign) and len(node.targets) == 1:
            t = node.targets[0]
            if isinstance(t, ast.Name) and t.id == "LAST_OP_MAPS":
                found_decl = True
                if not (isinstance(node.value, ast.Dict) and not node.value.keys):
                    raise TranslateError("LAST_OP_MAPS is not initialised as an empty dict literal")
            if isinstance(t, ast.Subscript) and isinstance(t.value, ast.Name) and t.value.id == "LAST_OP_MAPS":
                k = t.slice
                if not (isinstance(k, ast.Constant) and isinstance(k.value, str)):
                    raise TranslateError("LAST_OP_MAPS key is not a string literal")
                if not isinstance(node.value, ast.Name):
                    raise TranslateError("LAST_OP_MAPS value is not a function name")
                keys.append((k.value, node.value.id))
    if not found_decl:
        raise TranslateError("LAST_OP_MAPS declaration not found in _contextlib.py")
    return keys


@translator("c17_registry")
def c17_registry():
    dec = []
    for f in FILES:
        dec += decorated(f)
    dec = sorted(set(dec))
    reg = registry()
    if not dec or not reg:
        raise TranslateError("empty registry")
    txt = ("(* GENERATED from /repo by harness/tr_c17.py on every run of ./check C17 *)\n"
           "From Coq Require Import List String.\nImport ListNotations.\nOpen Scope string_scope.\n"
           f"Definition decorated_ops : list string := {coq_list([coq_str(d) for d in dec])}.\n"
           f"Definition inverse_registry : list (string * string) := {coq_list(['(' + coq_str(k) + ', ' + coq_str(v) + ')' for k, v in reg])}.\n")
    write_if_changed(os.path.join(COQ, "Gen", "C17_registry.v"), txt)
    return {"decorated": dec, "registry": reg}
