"""C19 — vmap over tensordicts equals the per-sample loop (DESIGN.md §4 C19)."""
import itertools
import json

import torch
from tensordict import TensorDict, lazy_stack

from . import c19_deep, progs
from .core import Sym, some, sx


def call(f):
    try:
        return ("ok", f())
    except Exception as e:  # noqa: BLE001
        return ("raise", type(e).__name__ + ": " + str(e)[:160])


def refused(err):
    """functorch's own refusal to batch an operation (not a wrong result)"""
    return "Batching rule not implemented" in err or "vmap: " in err or "data-dependent" in err


# tensordict arithmetic (td + 1, td * td, -td, td.abs()) goes through torch._foreach_* kernels, for which this torch has no
# batching rule ("Batching rule not implemented for aten::_foreach_add"): functorch refuses such functions outright, so
# arithmetic is expressed through apply / per-entry tensor arithmetic, which functorch can batch.
SAFE_OPS = ["update_inplace", "set_inplace", "clone", "setkey_plus", "set_nested", "getset", "transpose", "permute",
            "unsqueeze", "squeeze", "flatten", "index_int", "index_slice", "index_ell", "index_tuple", "sum", "amax", "stack", "cat",
            "select", "exclude", "apply", "named_apply", "unbind_first", "reshape", "expand", "roundtrip_dict"]


def gen_prog(rng, td_slice, length):
    prog, x, tries = [], td_slice, 0
    while len(prog) < length and tries < 40:
        tries += 1
        name, args = progs.candidates(rng, x)
        if name not in SAFE_OPS:
            continue
        try:
            y = progs.OPS[name](x, *args)
            if not hasattr(y, "batch_size") or y.numel() > 3000:
                continue
            progs.observe(y)
        except Exception:  # noqa: BLE001
            continue
        prog.append((name, args))
        x = y
    return prog


def take(td, dim, j):
    """the j-th slice of td along batch dim `dim`"""
    idx = (slice(None),) * dim + (j,)
    return td[idx]


def subject(kind, shape, named=False, locked=False):
    td = progs.base_td(shape)
    if kind == "lazy":
        sd = 0
        parts = [take(td, sd, j).clone() for j in range(shape[sd])]
        td = lazy_stack(parts, sd)
    elif kind == "lazy-last":
        sd = len(shape) - 1
        parts = [take(td, sd, j).clone() for j in range(shape[sd])]
        td = lazy_stack(parts, sd)
    if named:
        td.names = [f"d{i}" for i in range(len(shape))]
    if locked:
        td.lock_()
    return td


def loop_reference(prog, kind, shape, in_dim, out_dim, named=False):
    td = subject(kind, shape, named)
    n = shape[in_dim]
    outs = [progs.run_program(take(td, in_dim, j), prog) for j in range(n)]
    return torch.stack([o if isinstance(o, TensorDict) else o for o in outs], out_dim)


def check_programs(R):
    rng = R.rng
    n = 120 if R.quick else 4000
    shapes = [(2, 3), (3,), (2, 1, 3), (3, 2, 2), (1, 2)]
    for it in range(n):
        shape = rng.choice(shapes)
        rank = len(shape)
        kind = rng.choice(["regular", "regular", "regular", "lazy", "lazy-last"])
        in_dim = rng.randrange(-rank, rank)
        ind = in_dim % rank
        named = rng.random() < 0.25
        locked = rng.random() < 0.4
        sl = take(progs.base_td(shape), ind, 0)
        prog = gen_prog(rng, sl, rng.randrange(1, 6))
        if locked:
            # the batched view of a locked tensordict is locked: structural in-place edits are refused (by design)
            prog = [(nm, a) for nm, a in prog if nm not in progs.INPLACE_OPS] or [("clone", ())]
        if kind != "regular" and rng.random() < 0.5 and not locked:
            # write-through stream: only in-place edits of the vmapped object
            leaf = rng.choice(["a"])
            prog = [rng.choice([("update_inplace", (leaf, rng.randrange(2, 4))), ("set_inplace", (leaf, rng.randrange(1, 4)))])
                    for _ in range(rng.randrange(1, 4))]
        r0 = call(lambda: progs.run_program(sl, prog))
        if r0[0] != "ok":
            # dropping the in-place ops (locked stream) can leave a later op without the key it reads
            R.count("program:filtered-program-not-runnable")
            prog = [("clone", ())]
            r0 = call(lambda: progs.run_program(sl, prog))
        out_rank = len(r0[1].batch_size)
        out_dim = rng.randrange(0, out_rank + 1)
        case = {"kind": "program", "shape": list(shape), "container": kind, "in_dim": in_dim, "out_dim": out_dim, "named": named,
                "locked": locked, "program": [[nm, list(a)] for nm, a in prog]}
        R.case(("prog", shape, kind, in_dim, out_dim, repr(prog)), nontrivial=len(prog) >= 1, sample=case if it % 17 == 0 else None)
        R.count("container:" + kind)
        R.count(f"in_dim:{'neg' if in_dim < 0 else 'pos'}")
        for nm, _ in prog:
            R.count("prog-op:" + nm)
        ref = call(lambda: progs.observe(loop_reference(prog, kind, shape, ind, out_dim, named)))
        if ref[0] != "ok":
            R.count("skipped:reference-raises")
            continue
        td = subject(kind, shape, named, locked)
        got = call(lambda: progs.observe(torch.vmap(lambda x: progs.run_program(x, prog), in_dims=in_dim, out_dims=out_dim)(td)))
        sdim = {"regular": None, "lazy": 0, "lazy-last": rank - 1}[kind]
        only_inplace = all(nm in progs.INPLACE_OPS for nm, _ in prog)
        if only_inplace:
            R.count("program:only-inplace-ops")
        # D33 concerns operations that build a NEW lazy stack from the vmapped one; programs made only of in-place ops
        # return the vmapped object itself and are right on the unchanged tree
        sig = {"kind": "program", "container": "lazy" if kind.startswith("lazy") else kind, "vmapped_dim_is_stack_dim": sdim == ind,
               "builds_new_stack": not only_inplace}
        if got[0] != "ok" and not refused(got[1]):
            R.oracle_fail("vmap-vs-loop:raises", case, {"error": got[1]}, dict(sig, what="raises", named=named, err=got[1].split(":")[0]))
            continue
        if got[0] != "ok":
            # functorch cannot batch some operations (its own limitation, e.g. data-dependent control flow); the property is
            # about results: an explicit refusal is reported separately and only counted
            R.count("vmap-raises:" + got[1].split(":")[0])
            R.extra.setdefault("vmap_refusals", []).append({"program": case["program"], "error": got[1]}) if len(R.extra.get("vmap_refusals", [])) < 10 else None
            continue
        if got[1] != ref[1]:
            R.oracle_fail("vmap-vs-loop", case, {"vmap_batch_size": got[1]["batch_size"], "loop_batch_size": ref[1]["batch_size"],
                                                 "differing": [k for k in ref[1]["leaves"] if got[1]["leaves"].get(k) != ref[1]["leaves"][k]][:5]}, sig)
        R.traces += 1


def check_shapes(R):
    """identity function: vmap(id, in_dims=i, out_dims=o) moves batch dim i to o; batch size, names and every leaf; vs the model"""
    lines, cases = [], []
    shapes = [s for r in range(1, 4) for s in itertools.product([1, 2, 3], repeat=r)]
    if R.quick:
        shapes = [s for s in shapes if len(s) < 3] + R.rng.sample([s for s in shapes if len(s) == 3], 8)
    for shape in shapes:
        rank = len(shape)
        for kind in ("regular", "lazy", "lazy-last"):
            for i in range(-rank, rank):
                for o in range(-rank, rank):   # every position of the result, negative spellings included (D190 / D191 repaired)
                    for named in (False, True):
                        cases.append((shape, kind, i, o, named))
                        sd = {"regular": None, "lazy": 0, "lazy-last": rank - 1}[kind]
                        lines.append(sx([Sym("vmap-id"), list(shape), i, o, some(sd)]))
    m = R.model(lines)
    for ci, (shape, kind, i, o, named) in enumerate(cases):
        rank = len(shape)
        case = {"kind": "identity", "shape": list(shape), "container": kind, "in_dim": i, "out_dim": o, "named": named}
        R.case(("id", shape, kind, i, o, named), nontrivial=rank > 1)
        R.count("identity:" + kind)
        td = subject(kind, shape, named)
        got = call(lambda: torch.vmap(lambda x: x, in_dims=i, out_dims=o)(td))
        want = torch.movedim(torch.zeros(shape), i % rank, o)
        sig = {"kind": "identity", "container": kind}
        if got[0] != "ok":
            R.oracle_fail("vmap-identity:raises", case, {"error": got[1]}, dict(sig, what="raises"))
            continue
        r = got[1]
        if list(r.batch_size) != list(want.shape):
            R.oracle_fail("vmap-identity:batch_size", case, {"have": list(r.batch_size), "want": list(want.shape)}, dict(sig, what="batch_size"))
            continue
        base = progs.base_td(shape)
        bad = None
        for k in base.keys(True, True):
            w = torch.movedim(base.get(k), i % rank, o % rank)
            g = r.get(k)
            if g.shape != w.shape or not torch.equal(g, w):
                bad = str(k)
                break
        if bad:
            R.oracle_fail("vmap-identity:content", case, {"leaf": bad}, dict(sig, what="content"))
        if named:
            # reference: the names of the stack of the slices of the same container (the per-sample loop)
            # the per-sample loop (torch.stack of the slices) returns no names at all; vmap may keep the names of the dims it did
            # not move.  Demanded: one name per batch dim, and the kept names are those of the untouched dims, in their order.
            nm = [f"d{j}" for j in range(rank)]
            nm.pop(i % rank)
            want_names = list(nm)
            want_names.insert(o % rank, None)
            have = list(r.names)
            if len(have) != len(r.batch_size) or any(h is not None and h != w for h, w in zip(have, want_names)):
                R.oracle_fail("vmap-identity:names", case, {"have": have, "want_or_None": want_names}, dict(sig, what="names"))
        # model correspondence: batch size (and stack dim for lazy results)
        mo = m[ci]
        if isinstance(mo, list) and mo and mo[0] == "ok":
            if mo[1] != list(r.batch_size):
                R.mismatch("vmap-id-batch-size", case, list(r.batch_size), mo[1])
        else:
            R.mismatch("vmap-id-batch-size", case, list(r.batch_size), mo)
        R.traces += 1


def check_multi_arg_and_nested(R):
    """several arguments with in_dims None for some, tuple / mixed outputs, nested vmap of depth 2"""
    rng = R.rng
    n = 40 if R.quick else 800
    for it in range(n):
        shape = rng.choice([(2, 3), (3, 2, 2), (2, 2)])
        rank = len(shape)
        i = rng.randrange(-rank, rank)
        ind = i % rank
        td = progs.base_td(shape)
        other_shape = tuple(s for k, s in enumerate(shape) if k != ind)
        other = progs.base_td(other_shape) if other_shape else progs.base_td((1,))[0]
        t = torch.arange(shape[ind], dtype=torch.int64) * 100
        o1 = rng.randrange(0, rank)
        case = {"kind": "multi-arg", "shape": list(shape), "in_dims": [i, None, 0], "out_dims": [o1, 0]}
        R.case(("multi", shape, i, o1), nontrivial=True)
        R.count("multi-arg")

        def f(x, y, s):
            z = x.apply(lambda a, b: a + b, y)
            z["s"] = x["a"] * 0 + s
            return z, x["a"].sum()
        got = call(lambda: torch.vmap(f, in_dims=(i, None, 0), out_dims=(o1, 0))(td, other, t))
        ref = call(lambda: (torch.stack([f(take(td, ind, j), other, t[j])[0] for j in range(shape[ind])], o1),
                            torch.stack([f(take(td, ind, j), other, t[j])[1] for j in range(shape[ind])], 0)))
        if ref[0] != "ok":
            continue
        if got[0] != "ok":
            R.oracle_fail("vmap-multi:raises", case, {"error": got[1]}, {"kind": "multi-arg", "what": "raises"})
        elif progs.observe(got[1][0]) != progs.observe(ref[1][0]) or not torch.equal(got[1][1], ref[1][1]):
            R.oracle_fail("vmap-multi:result", case, {"have_bs": list(got[1][0].batch_size), "want_bs": list(ref[1][0].batch_size)},
                          {"kind": "multi-arg", "what": "result"})
        R.traces += 1
    # nested vmap depth 2 over a rank >= 2 tensordict
    for shape in [(2, 3), (3, 2, 2), (2, 2, 3)]:
        rank = len(shape)
        for (i1, i2, o1, o2) in itertools.product(range(rank), range(rank - 1), range(0, rank - 1), range(0, rank)):
            if R.quick and R.rng.random() < 0.7:
                continue
            td = progs.base_td(shape)
            case = {"kind": "nested-vmap", "shape": list(shape), "in_dims": [i1, i2], "out_dims": [o2, o1]}
            R.case(("nested", shape, i1, i2, o1, o2), nontrivial=True)
            R.count("nested-vmap")

            def g(x):
                return x.apply(lambda t: t * 2 + 1)
            got = call(lambda: torch.vmap(torch.vmap(g, in_dims=i2, out_dims=o1), in_dims=i1, out_dims=o2)(td))

            def inner(xs):
                n2 = xs.batch_size[i2]
                return torch.stack([g(take(xs, i2, j)) for j in range(n2)], o1)
            ref = call(lambda: torch.stack([inner(take(td, i1, j)) for j in range(shape[i1])], o2))
            if ref[0] != "ok":
                continue
            if got[0] != "ok":
                R.oracle_fail("vmap-nested:raises", case, {"error": got[1]}, {"kind": "nested-vmap", "what": "raises"})
            elif progs.observe(got[1]) != progs.observe(ref[1]):
                R.oracle_fail("vmap-nested:result", case, {"have_bs": list(got[1].batch_size), "want_bs": list(ref[1].batch_size)},
                              {"kind": "nested-vmap", "what": "result"})
            R.traces += 1


def check_unbatched_arg_reuse(R):
    """a tensordict passed with in_dims=None is handed to the function as a fresh shallow copy on every call: what one
    vmapped function writes into it must not be visible to a later vmap call on the same (locked or unlocked) tensordict"""
    for locked in (True, False):
        for shape in [(2, 3), (3,), (2, 2)]:
            td = progs.base_td(shape)
            other = progs.base_td(shape[1:]) if len(shape) > 1 else progs.base_td((1,))[0]
            if locked:
                other.lock_()
            n = shape[0]
            case = {"kind": "unbatched-arg-reuse", "shape": list(shape), "locked": locked}
            R.case(("unbatched-reuse", shape, locked), nontrivial=True)
            R.count("unbatched-arg-reuse")

            def f1(x, y):
                y.set("tmp", x["a"] * 2)
                return y["tmp"] + 1

            def f2(x, y):
                return x["a"] * 0 + len(list(y.keys())), y.get("tmp", x["a"] * 0 - 1)
            r1 = call(lambda: torch.vmap(f1, in_dims=(0, None))(td, other))
            r2 = call(lambda: torch.vmap(f2, in_dims=(0, None))(td, other))
            want2 = call(lambda: (torch.stack([f2(take(td, 0, j), other.clone(False))[0] for j in range(n)], 0),
                                  torch.stack([f2(take(td, 0, j), other.clone(False))[1] for j in range(n)], 0)))
            m = shape[0] + 1
            td3 = progs.base_td((m,) + tuple(shape[1:]))
            r3 = call(lambda: torch.vmap(f2, in_dims=(0, None))(td3, other))
            if r1[0] != "ok" or want2[0] != "ok":
                continue
            if r2[0] != "ok" or not (torch.equal(r2[1][0], want2[1][0]) and torch.equal(r2[1][1], want2[1][1])):
                R.oracle_fail("vmap-unbatched-arg-reuse", case, {"second_call": r2[1] if r2[0] != "ok" else "sees what the first call wrote",
                                                                 "keys_seen": r2[1][0].reshape(-1).tolist()[:3] if r2[0] == "ok" else None},
                              {"kind": "unbatched-arg-reuse", "locked": locked})
            elif r3[0] != "ok":
                R.oracle_fail("vmap-unbatched-arg-reuse", case, {"call_with_other_batch_size": r3[1]}, {"kind": "unbatched-arg-reuse", "locked": locked})
            R.traces += 1


def check_locked_reuse(R):
    """repeated vmap calls on the same locked tensordict observe its current values (batched views are memoised while locked)"""
    for kind in ("regular", "lazy"):
        for shape in [(2, 3), (3, 2, 2)]:
            for i in range(len(shape)):
                td = subject(kind, shape, locked=True)
                case = {"kind": "locked-reuse", "container": kind, "shape": list(shape), "in_dim": i}
                R.case(("reuse", kind, shape, i), nontrivial=True)
                R.count("locked-reuse")
                f = lambda x: x.apply(lambda t: t + 1)  # noqa: E731
                r1 = call(lambda: progs.observe(torch.vmap(f, in_dims=i, out_dims=0)(td)))
                # permitted write under lock: in place
                w = call(lambda: td.set_("a", td.get("a") * 0 + 77) if kind == "regular" else td.update_(td.apply(lambda t: t * 0 + 77)))
                r2 = call(lambda: progs.observe(torch.vmap(f, in_dims=i, out_dims=0)(td)))
                twin = subject(kind, shape, locked=False)
                call(lambda: twin.set_("a", twin.get("a") * 0 + 77) if kind == "regular" else twin.update_(twin.apply(lambda t: t * 0 + 77)))
                want = call(lambda: progs.observe(torch.stack([f(take(twin, i, j)) for j in range(shape[i])], 0)))
                if w[0] != "ok" or want[0] != "ok":
                    continue
                if r2[0] != "ok" or r2[1] != want[1]:
                    R.oracle_fail("vmap-locked-reuse", case, {"second_call": r2[1] if r2[0] != "ok" else "stale or wrong values",
                                                              "first_call_ok": r1[0] == "ok"},
                                  {"kind": "locked-reuse", "container": kind, "vmapped_dim_is_stack_dim": kind == "lazy" and i == 0})
                R.traces += 1


def check_module_calls(R):
    """functional module calls through to_module with batched parameter tensordicts"""
    import torch.nn as nn
    rng = R.rng
    for it in range(6 if R.quick else 60):
        torch.manual_seed(it)
        nmod = rng.choice([2, 3])
        mods = [nn.Sequential(nn.Linear(3, 4), nn.Tanh(), nn.Linear(4, 2)) for _ in range(nmod)]
        for mdl in mods:
            for p in mdl.parameters():
                p.data = (torch.randint(-3, 4, p.shape)).float()
        params = torch.stack([TensorDict.from_module(mdl) for mdl in mods], 0)
        locked = rng.random() < 0.5
        if locked:
            params = params.lock_()
        x = torch.randint(-2, 3, (5, 3)).float()
        base = mods[0]
        case = {"kind": "module", "n_models": nmod, "locked": locked}
        R.case(("module", it), nontrivial=True)
        R.count("module-call")

        def fcall(p, inp):
            with p.to_module(base):
                return base(inp)
        got = call(lambda: torch.vmap(fcall, in_dims=(0, None))(params, x))
        ref = torch.stack([mdl(x) for mdl in mods], 0)
        if got[0] != "ok":
            R.oracle_fail("vmap-module:raises", case, {"error": got[1]}, {"kind": "module", "what": "raises"})
        elif got[1].shape != ref.shape or not torch.allclose(got[1], ref, atol=1e-5):
            R.oracle_fail("vmap-module:result", case, {"max_abs_diff": float((got[1] - ref).abs().max())}, {"kind": "module", "what": "result"})
        # the module must hold its own parameters again
        names_ok = all(isinstance(p, nn.Parameter) for p in base.parameters()) and len(list(base.parameters())) == 4
        if not names_ok:
            R.oracle_fail("vmap-module:params-not-restored", case, {}, {"kind": "module", "what": "restore"})
        R.traces += 1


def main(R):
    torch.set_num_threads(1)
    R.rule = ("identity functions over all batch shapes of rank 1..3 with dims in {1,2,3} x in_dims every position incl. negative x out_dims every "
              "position x regular / lazy (stack dim first / last) x named; random straight-line programs (1..5 ops from the C18 generator restricted "
              "to functorch-batchable ops) x in/out dims x locked / named; multi-argument calls with in_dims None; nested vmap depth 2; functional "
              "module calls with batched parameters; locked inputs reused across calls with an in-place write in between; "
              "element level: random (batch shape rank 1..3, 1..2 leaves with feature dims incl. dims of the batch's size, names with None, "
              "in_dim incl. negative / out of range, out_dim in -(r+3)..r+3) with EVERY element of every leaf compared with the model; "
              "plumbing: random argument pytrees (tensordict / tensor / object leaves, tuples and lists, depth <= 2) x in_dims (int, None, "
              "broadcast prefixes, wrong structure / type / range / sizes) x output pytrees x out_dims (same perturbations); memoised views: "
              "random histories of vmap(in_dim, level 1|2) / set_ / rebinding under lock (make_memmap, _set_str(ignore_lock)) / un-batched pass "
              "with a writing function / unlock / lock on locked, unlocked and memory-mapped tensordicts; lazy op classes: 14 ops x shapes x "
              "stack dim x in_dim x out_dim")
    R.trusted = ["functorch's batching rules appear in the element-level theorems as ONE definition (Model.C19_Content.lift: a function applied "
                 "to batched values computes the function on every sample); torch's _add_batch_dim / _remove_batch_dim on a leaf are "
                 "transcribed (hide dim in_dim; re-insert at out_dim wrapped against the leaf rank + 1) and compared element by element"]
    R.assumptions = ["functorch's batching rules are trusted; a refusal by functorch to batch an op (exception) is counted, not judged",
                     "out_dims name positions of the result, 0..rank or their negative spellings -(rank+1)..-1 (torch's rule)",
                     "module outputs are compared with allclose (float matmul), everything else exactly on integers"]
    R.step_prove()
    ok = R.step_driver()
    if ok:
        check_shapes(R)
        c19_deep.run(R)
    check_programs(R)
    check_multi_arg_and_nested(R)
    check_locked_reuse(R)
    check_unbatched_arg_reuse(R)
    check_module_calls(R)


def replay(body):
    c = body["case"]
    print(json.dumps(c))
    print(json.dumps(body.get("detail"), default=str))
    if c["kind"] in ("elements", "plumbing", "memo", "lazy-op", "named-reuse"):
        return c19_deep.replay(c)
    if c["kind"] == "program":
        prog = [(n, tuple(tuple(x) if isinstance(x, list) else x for x in a)) for n, a in c["program"]]
        shape = tuple(c["shape"])
        td = subject(c["container"], shape, c["named"], c["locked"])
        print("vmap:", call(lambda: progs.observe(torch.vmap(lambda x: progs.run_program(x, prog), in_dims=c["in_dim"], out_dims=c["out_dim"])(td))))
        print("loop:", call(lambda: progs.observe(loop_reference(prog, c["container"], shape, c["in_dim"] % len(shape), c["out_dim"], c["named"]))))
    return 0
