"""ast translators: regenerate coq/Gen/*.v from /repo's current source (never imports the code it reads).
Fail-closed: a source shape the translator does not recognise raises TranslateError, reported as a failed obligation."""
import ast
import os
import sys

from .core import COQ, REPO


class TranslateError(Exception):
    pass


TRANSLATORS = {}


def translator(name):
    def deco(f):
        TRANSLATORS[name] = f
        return f
    return deco


def write_if_changed(path, text):
    os.makedirs(os.path.dirname(path), exist_ok=True)
    if os.path.exists(path) and open(path).read() == text:
        return False
    open(path, "w").write(text)
    return True


def coq_str(s):
    assert '"' not in s
    return '"' + s + '"'


def coq_list(items):
    return "[" + "; ".join(items) + "]"


def run(name):
    return TRANSLATORS[name]()


def load_all():
    import importlib
    import pkgutil
    import harness
    for m in pkgutil.iter_modules(harness.__path__):
        if m.name.startswith("tr_"):
            importlib.import_module("harness." + m.name)


if __name__ == "__main__":
    # run as `python -m harness.translate <name|all>`: use the registry of the imported module, not of __main__
    from harness import translate as T
    T.load_all()
    for n, f in sorted(T.TRANSLATORS.items()):
        if sys.argv[1] in ("all", n):
            try:
                r = f()
                print("translate", n, "ok")
            except T.TranslateError as e:
                print("translate", n, "FAILED:", e)
