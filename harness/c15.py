"""C15 — a tensorclass behaves as its underlying tensordict with typed fields (DESIGN.md §4 C15).

Streams (all generated from R.rng; every case is a JSON description that `replay` re-executes):
  methods   every public attribute of TensorDict found by dir() (call with arguments synthesised from the signature / read)
  operators every dunder defined by the tensordict classes (operator protocol invoked through `operator` / builtins)
  torchfn   every function registered in _torch_func.TD_HANDLED_FUNCTIONS / LAZY_TD_HANDLED_FUNCTIONS, and pytree maps
  outer     the same calls issued on a TensorDict that holds the tensorclass as an entry (reference: holds its tensordict)
  attr      attribute access = key access (getattr / setattr / get / set with typed values)
  chains    random programs of shape ops / stacking / indexed assignment / serialisation (non-tensor fields survive)
Oracle: harness/c15_lib.judge — never looks at the Coq model.  Correspondence: harness/c15_model.py."""
import inspect
import json
import os
import random
import time

from . import c15_deep
from . import c15_extra
from . import c15_lib as Lb
from .core import Sym, sx

EXTRA = ("attr", "fromtd", "chains", "indep", "nary")
DEEP = ("indep", "nary")

QUICK_CLASSES_ALL_LAYOUTS = ["Dec", "Sub", "Nest"]


# ------------------------------------------------------------------------------------------------ defect patterns
# Each pattern is a decidable predicate over (case, tc observation, td observation, flags).  A failing case is given the
# signature {"pattern": <first matching id>}; findings.d/C15.json lists the patterns that are recorded defects of /repo.
# A failure matching no pattern gets {"pattern": "other", ...} and is a violation.
def _tc_exc(o):
    return o.get("exc") if o.get("status") == "raise" else None


def _res(o):
    return o.get("res")


def _is_ref(c, name):
    return isinstance(c, list) and len(c) == 2 and c[0] == "REF" and c[1] == name


def _only(flags, *allowed):
    core = [f for f in flags if f in ("content", "post", "wrap", "nontensor", "tc-raises-only", "td-raises-only", "kind")]
    return bool(core) and all(f in allowed for f in core)


DERIVED = ("SubFrozen", "SubNoCast", "SubAuto")     # classes derived from an already decorated base (TensorClass["..."])
FROZEN = ("Frozen", "SubFrozen")


def _dictarg(c):
    a = c.get("args") or []
    return bool(a) and isinstance(a[0], list) and a[0] and (a[0][0] == "dct" or a[0][:2] == ["like", "dict"])


def _msg(o):
    return o.get("msg", "") if isinstance(o, dict) else ""


PATTERNS = [
    # --- explicit methods of tensorclass.py that return something else than a tensorclass
    ("D150-set_at_-returns-underlying-td", lambda c, a, b, f: c["name"] == "set_at_" and c["mode"] == "call" and not c.get("embed")
        and _is_ref(_res(b), "SELF") and _is_ref(_res(a), "SELFTD") and "post" not in f and "nontensor" not in f),
    ("D151-del_-returns-none", lambda c, a, b, f: c["name"] == "del_" and c["mode"] == "call" and not c.get("embed")
        and _is_ref(_res(b), "SELF") and _res(a) == ["PY", "None"] and "post" not in f),
    ("D152-nowrap-method-returns-underlying-td", lambda c, a, b, f: c["name"] == "clear_refs_for_compile_" and not c.get("embed")
        and _is_ref(_res(b), "SELF") and _is_ref(_res(a), "SELFTD") and "post" not in f),
    ("D153-is_meta-is-a-bound-method", lambda c, a, b, f: c["name"] == "is_meta" and c["mode"] == "attr" and not c.get("embed")
        and _res(b) == ["PY", "False"] and _res(a) == ["OBJ", "method"]),
    ("D154-to_namedtuple-loses-field-names", lambda c, a, b, f: c["name"] == "to_namedtuple" and not c.get("embed") and a.get("status") == "ok"
        and isinstance(_res(b), list) and _res(b)[0] == "namedtuple" and isinstance(_res(a), list) and _res(a)[0] == "tuple"
        and [v for _, v in Lb.erase(_res(b))[2]] == Lb.erase(_res(a))[1]),
    ("D155-update-rejects-is_leaf", lambda c, a, b, f: c["name"] == "update" and not c.get("embed") and "is_leaf" in c.get("kwargs", {})
        and _tc_exc(a) == "TypeError" and "is_leaf" in _msg(a)),
    ("D156-update_at_-never-updates-at-the-index", lambda c, a, b, f: c["name"] == "update_at_" and c["mode"] == "call" and not c.get("embed")
        and b.get("status") == "ok" and (_tc_exc(a) in ("TypeError", "RuntimeError", "ValueError") or _only(f, "post"))),
    ("D158-load_memmap_-does-not-load", lambda c, a, b, f: c["name"] in ("load_memmap_", "load_") and c.get("recipe") == "memmap"
        and a.get("status") == "ok" and ((b.get("status") == "ok" and _only(f, "content", "post", "wrap"))
                                         or (b.get("status") == "raise" and "locked" in _msg(b).lower()))),
    ("D160-non_tensor_items-lists-none-fields-only", lambda c, a, b, f: c["name"] == "non_tensor_items" and not c.get("embed")
        and a.get("status") == "ok" and _only(f, "content")),
    ("D161-set-inplace-on-locked-raises", lambda c, a, b, f: c["name"] == "set" and not c.get("embed") and _tc_exc(a) == "RuntimeError"
        and "locked" in _msg(a).lower() and c.get("kwargs", {}).get("inplace") == ["lit", True]),
    # --- operators absent from the class (Python looks dunders up on the type: __getattr__ cannot supply them)
    ("D162-contains-falls-back-to-iteration", lambda c, a, b, f: c["name"] == "__contains__" and c["mode"] == "op" and not c.get("embed")
        and a.get("status") == "ok" and _res(a) == ["PY", "False"] and _res(b) == ["PY", "True"]),
    ("D163-delitem-missing", lambda c, a, b, f: c["name"] == "__delitem__" and c["mode"] == "op" and not c.get("embed")
        and _tc_exc(a) == "AttributeError" and b.get("status") == "ok"),
    # --- torch functions overridden for tensordicts but refused for tensorclasses
    ("D164-torch-function-not-passed-through", lambda c, a, b, f: c["mode"] == "torchfn" and not c.get("embed")
        and c["name"] in ("transpose", "masked_select", "where") and _tc_exc(a) == "TypeError" and b.get("status") == "ok"),
    ("D165-enter-returns-underlying-td", lambda c, a, b, f: c["name"] in ("__enter__", "__exit__") and c["mode"] == "op" and not c.get("embed")
        and _is_ref(_res(b), "SELF") and _is_ref(_res(a), "SELFTD")),
    # --- classes derived from an already decorated base: the classmethod loop overwrites inherited class-level entries
    ("D166-derived-class-from_dict-bound-to-instance", lambda c, a, b, f: c["cls"] in DERIVED and not c.get("embed") and c["mode"] == "call"
        and (c["name"] == "from_dict" or (c["name"] in ("update", "update_", "update_at_") and _dictarg(c)))),
    ("D167-derived-class-_load_memmap-replaced", lambda c, a, b, f: c["cls"] in DERIVED and c.get("recipe") == "memmap"
        and _tc_exc(a) == "KeyError" and "device" in _msg(a) and b.get("status") == "ok"),
    # --- stacking
    ("D168-stack-of-lazily-stacked-tensorclasses-raises", lambda c, a, b, f: c["name"] in ("stack", "maybe_dense_stack", "lazy_stack")
        and c["layout"] in ("lazy", "lazyhet") and _tc_exc(a) == "AttributeError" and "_from_tensordict" in _msg(a) and b.get("status") == "ok"),
    ("D169-stack-drops-_non_tensordict-payloads", lambda c, a, b, f: c["name"] in ("stack", "maybe_dense_stack") and c["mode"] == "call"
        and not c.get("embed") and c["layout"] == "legacy" and _only(f, "nontensor")),
    # --- serialisation
    ("D170-frozen-tensorclass-cannot-be-unpickled", lambda c, a, b, f: c["cls"] in FROZEN and c["name"] in ("__getstate__", "__setstate__")
        and _tc_exc(a) == "FrozenInstanceError" and b.get("status") == "ok"),
    ("D171-consolidate-inplace-with-nested-lazy-tensorclass", lambda c, a, b, f: c["name"] == "consolidate" and c.get("embed") == "outer"
        and c["layout"] in ("lazy", "lazyhet") and _tc_exc(a) == "ValueError" and "LazyStackedTensorDict" in _msg(a) and b.get("status") == "ok"),
    ("D173-grad-tests-a-bound-method", lambda c, a, b, f: c["name"] == "grad" and c["mode"] == "attr" and not c.get("embed")
        and _tc_exc(a) == "RuntimeError" and "Expected a TensorDictBase" in _msg(a) and _res(b) == ["PY", "None"]),
    ("D174-consolidate-to-file-with-nested-tensorclass", lambda c, a, b, f: c.get("recipe") == "consolidated" and c.get("embed") == "outer"
        and _tc_exc(a) == "RuntimeError" and "json" in _msg(a) and b.get("status") == "ok"),
    ("D177-non-tensor-stack-result-wrapped-in-the-class", lambda c, a, b, f: c["mode"] == "call" and not c.get("embed") and c["name"] in ("popitem", "setdefault")
        and "nontensor-wrapped" in f and a.get("status") == "ok" and _only(f, "wrap") and '"stack"' in json.dumps(_res(b))),
    ("D178-cat-of-lazy-tensorclasses-densifies", lambda c, a, b, f: c["name"] == "cat" and not c.get("embed")
        and c["layout"] in ("lazy", "lazyhet") and a.get("status") == "ok" and _only(f, "kind")),
    ("D179-get_at-indexes-the-unwrapped-value", lambda c, a, b, f: c["name"] == "get_at" and c["mode"] == "call" and not c.get("embed")
        and a.get("status") == "ok" and _only(f, "content") and isinstance(_res(b), list) and _res(b)[0] == "NT"),
    ("D180-shadow-class-rejects-batch_size-assignment", lambda c, a, b, f: c["cls"] == "Shadow" and _tc_exc(a) == "AttributeError"
        and "Cannot set the attribute" in _msg(a) and ("'batch_size'" in _msg(a) or "'names'" in _msg(a)) and b.get("status") == "ok"),
    ("D175-indices-reductions-drop-nested-class", lambda c, a, b, f: c["name"] in ("max", "min", "cummax", "cummin") and c.get("embed") == "outer"
        and a.get("status") == "ok" and _only(f, "wrap")),
]
EXTRA_PATTERNS = [
    # --- deep streams (harness/c15_deep.py computes the decidable part of the signature as a flag)
    ("D182-nary-result-keeps-first-operands-_non_tensordict", lambda c, probs, f: c["stream"] == "nary" and c["layout"] == "legacy"
        and "sig:first-operand-store-wins" in f),
    ("D183-stale-none-hides-tensor-of-shared-tensordict", lambda c, probs, f: c["stream"] == "indep" and c["layout"] in ("lazy", "lazyhet")
        and c["mutation"]["kind"] == "tensor" and "sig:stale-none-hides-tensor-of-shared-tensordict" in f),
    ("D176-autocast-dict-into-none-field", lambda c, probs, f: c["stream"] == "attr" and c["cls"] == "AutoNest" and c.get("field") == "inner"
        and c.get("vkind") == "tcdict" and probs and all("not in exactly one store" in p and "'inner'" in p for p in probs)),
    ("D167-derived-class-_load_memmap-replaced", lambda c, probs, f: c["stream"] == "chains" and c["cls"] in DERIVED and probs
        and " memmap: " in probs[0] and "raises KeyError" in probs[0] and "device" in probs[0]),
    ("D170-frozen-tensorclass-cannot-be-unpickled", lambda c, probs, f: c["stream"] == "chains" and c["cls"] in FROZEN and probs
        and " pickle: " in probs[0] and "raises FrozenInstanceError" in probs[0]),
]


def classify(case, o_tc, o_td, flags, probs):
    if case.get("stream") in EXTRA:
        for pid, pred in EXTRA_PATTERNS:
            try:
                if pred(case, probs, flags):
                    return {"pattern": pid}
            except Exception:  # noqa: BLE001
                continue
        return {"pattern": "other", "stream": case["stream"], "call": case.get("op") or case.get("producer") or case.get("fn") or case.get("cls"),
                "kind": (probs[0][:60] if probs else "")}
    for pid, pred in PATTERNS:
        try:
            if pred(case, o_tc, o_td, flags):
                return {"pattern": pid}
        except Exception:  # noqa: BLE001 -- a predicate that cannot be evaluated does not match
            continue
    core = sorted(f for f in flags if f in ("content", "post", "wrap", "nontensor", "tc-raises-only", "td-raises-only", "kind"))
    return {"pattern": "other", "stream": case.get("stream"), "call": case["name"], "kind": "+".join(core),
            "tc_exception": _tc_exc(o_tc)}


# ------------------------------------------------------------------------------------------------ case generation
def member_kind(name):
    t = Lb.T()
    static = inspect.getattr_static(t["TD"], name, None)
    if isinstance(static, property):
        return "property"
    if not callable(getattr(t["TD"], name, None)):
        return "attribute"
    return "callable"


def method_cases(cname, layout, names, nvar, rng, unsynth, embed=None):
    out = []
    fields = Lb.fields_of(cname)
    for n in names:
        base = {"cls": cname, "layout": layout, "name": n, "stream": "outer" if embed else "methods"}
        if embed:
            base["embed"] = embed
        if n in fields and not embed:
            unsynth.setdefault(n, f"shadowed by a field of {cname} (attribute access is key access; checked by the attr stream)")
            continue
        if n in Lb.UNSYNTH:
            unsynth.setdefault(n, Lb.UNSYNTH[n])
            continue
        kind = member_kind(n)
        if kind != "callable":
            out.append(dict(base, mode="attr"))
            continue
        got = False
        seen = set()
        sp = Lb.special(n, cname, layout)
        nv = max(nvar, min(len(sp), 4 if nvar == 1 else 7)) if isinstance(sp, list) else nvar   # curated variants are all used
        for v in range(nv):
            a, k, how = Lb.synth(n, cname, layout, v, rng)
            if a is None:
                if how.startswith("recipe:"):
                    out.append(dict(base, mode="call", recipe=how[7:]))
                    got = True
                elif not got:
                    unsynth.setdefault(n, how)
                break
            key = json.dumps([a, k], sort_keys=True)
            if key in seen:
                continue
            seen.add(key)
            got = True
            out.append(dict(base, mode="call", args=a, kwargs=k))
    return out


def operator_cases(cname, layout, rng, unsynth, nvar, embed=None):
    out = []
    for d in Lb.api_dunders():
        if d in Lb.NOT_OPERATORS:
            continue
        if d not in Lb.OPS:
            unsynth.setdefault(d, "no invocation recipe for this dunder")
            continue
        vs = Lb.op_variants(d, cname, layout)
        if len(vs) > nvar:
            vs = vs[:2] + rng.sample(vs[2:], max(0, nvar - 2))
        for a in vs:
            c = {"cls": cname, "layout": layout, "name": d, "mode": "op", "args": a, "stream": "operators"}
            if embed:
                c["embed"] = embed
                c["stream"] = "outer"
            out.append(c)
    if not embed:
        out.append({"cls": cname, "layout": layout, "name": "__getstate__", "mode": "call", "recipe": "pickle", "stream": "operators"})
    return out


def torchfn_names():
    from tensordict import _torch_func as TF
    names = []
    for f in list(TF.TD_HANDLED_FUNCTIONS) + list(TF.LAZY_TD_HANDLED_FUNCTIONS):
        n = getattr(f, "__name__", repr(f))
        if n not in names:
            names.append(n)
    return names


def torchfn_cases(cname, layout, unsynth, embed=None):
    out = []
    for n in torchfn_names():
        vs = Lb.torch_fn_variants(n, cname, layout)
        if not vs:
            unsynth.setdefault("torch." + n, "no argument recipe for this torch function")
            continue
        for a, k in vs:
            c = {"cls": cname, "layout": layout, "name": n, "mode": "torchfn", "args": a, "kwargs": k, "stream": "torchfn"}
            if embed:
                c["embed"] = embed
                c["stream"] = "outer"
            out.append(c)
    for n in ("tree_map", "tree_flatten_unflatten"):
        c = {"cls": cname, "layout": layout, "name": n, "mode": "pytree", "stream": "torchfn"}
        if embed:
            c["embed"] = embed
            c["stream"] = "outer"
        out.append(c)
    return out


SLOW = {"load", "load_", "load_memmap", "load_memmap_", "save", "memmap", "memmap_", "memmap_like", "dumps", "from_consolidated",
        "memmap_refresh_", "consolidate", "make_memmap", "make_memmap_from_tensor"}      # touch the file system


def gen_cases(R):
    rng = R.rng
    names = Lb.public_names()
    unsynth = {}
    cases = []
    combos = []
    for cname in Lb.CLASS_INFO:
        for layout in Lb.LAYOUTS:
            if layout == "legacy" and cname in ("Nest", "SubNest"):
                continue   # the legacy layout is about non-tensor payloads of the class itself
            combos.append((cname, layout))
    for (cname, layout) in combos:
        if not R.quick:
            ns, nvar, ops = names, 20, True
        elif layout == "plain":
            ns, nvar, ops = names, 2, True
        elif cname in ("Dec", "Nest"):
            ns, nvar, ops = [n for n in names if n not in SLOW or cname == "Dec"], 1, True
        else:
            frac = 3 if cname == "Sub" else 10
            ns, nvar, ops = [n for n in rng.sample(names, len(names) // frac) if n not in SLOW], 2, rng.random() < 0.35
        cases += method_cases(cname, layout, ns, nvar, rng, unsynth)
        if ops:
            cases += operator_cases(cname, layout, rng, unsynth, 4 if R.quick else 99)
            cases += torchfn_cases(cname, layout, unsynth)
    # nested in a tensordict
    for (cname, layout) in combos:
        if layout in ("legacy",):
            continue
        full = (cname, layout) in (("Dec", "plain"), ("Nest", "plain"), ("Dec", "lazy"), ("Sub", "plain"))
        if not R.quick:
            ns, nvar = names, 8
        elif full:
            ns, nvar = [n for n in names if n not in SLOW or layout == "plain"], 1
        else:
            ns, nvar = [n for n in rng.sample(names, len(names) // 10) if n not in SLOW], 1
        cases += method_cases(cname, layout, ns, nvar, rng, unsynth, embed="outer")
        if full or not R.quick or rng.random() < 0.3:
            cases += operator_cases(cname, layout, rng, unsynth, 3 if R.quick else 99, embed="outer")
            cases += torchfn_cases(cname, layout, unsynth, embed="outer")
    return cases, unsynth


# ------------------------------------------------------------------------------------------------ execution
def run_chunk(chunk):
    import warnings
    warnings.filterwarnings("ignore")
    import torch
    torch.set_num_threads(1)
    out = []
    for (i, case) in chunk:
        if case.get("stream") in EXTRA:
            try:
                verdict, probs, flags, detail = (c15_deep.run_deep if case["stream"] in DEEP else c15_extra.run_extra)(case)
            except Exception as e:  # noqa: BLE001 -- e.g. a subject that can no longer be constructed: reported, never skipped
                verdict, probs, flags, detail = "fail", [f"the case could not be run: {type(e).__name__}: {str(e)[:160]}"], ["build"], {"msg": str(e)[:200]}
            out.append((i, verdict, probs, flags, detail, {}, None))
            continue
        try:
            o_tc = Lb.invoke(case, "tc")
            o_td = Lb.invoke(case, "td")
            o_td2 = Lb.invoke(case, "td")
            verdict, probs, flags = Lb.judge(case, o_tc, o_td, o_td2)
        except Exception as e:  # noqa: BLE001 -- the machinery must not crash the check; reported, never skipped
            o_tc = o_td = {"status": "harness-error", "exc": type(e).__name__, "msg": str(e)[:200]}
            verdict, probs, flags = "fail", [f"the case could not be run: {type(e).__name__}: {str(e)[:160]}"], ["build"]
        slim = lambda o: {k: (v if k != "post" else None) for k, v in o.items()}  # noqa: E731
        out.append((i, verdict, probs, flags, slim(o_tc) if verdict == "fail" else {"status": o_tc.get("status"), "exc": o_tc.get("exc")},
                    slim(o_td) if verdict == "fail" else {"status": o_td.get("status"), "exc": o_td.get("exc")},
                    Lb.abstract_pair(case, o_tc, o_td) if verdict != "uninformative" else None))
    return out


def run_all(cases, procs=14):
    idx = list(enumerate(cases))
    if len(idx) < 200 or procs <= 1:
        return run_chunk(idx)
    import multiprocessing as mp
    nchunks = procs * 6
    chunks = [idx[k::nchunks] for k in range(nchunks)]
    ctx = mp.get_context("fork")
    with ctx.Pool(procs) as p:
        res = p.map(run_chunk, chunks)
    flat = [r for ch in res for r in ch]
    flat.sort(key=lambda r: r[0])
    return flat


def main(R):
    import warnings
    warnings.filterwarnings("ignore")
    import torch
    torch.set_num_threads(1)
    Lb.T()
    R.rule = ("one case = (class x layout x [alone | nested in a TensorDict]) x (public attribute found by dir(TensorDict) | dunder defined by "
              "the tensordict classes | function registered in TD_HANDLED_FUNCTIONS | pytree map) x argument variant; the same call is issued "
              "on the tensorclass and (twice) on its underlying tensordict; distinct by the JSON of the case; non-trivial = the reference "
              "call succeeded (a case where the tensordict itself raises only checks that the tensorclass raises too)")
    R.assumptions = [
        "matching structure = the keys of the resulting tensordict are fields of the class (the criterion _from_tensordict applies)",
        "where the result leaves the class structure (keys that are not fields) the tensorclass may return the bare result or reject",
        "NonTensorData(v) and the bare value v are the same content (attribute access unwraps)",
        "survival of non-tensor fields is demanded for shape operations, stacking, indexing / indexed assignment, serialisation and copies",
        "values of operations whose reference is not reproducible (empty_like, rand_like ...) are compared by structure only",
        "typed-field semantics (casts, rejection of keys that are not fields, None fields) are checked by the attr stream against the field "
        "declarations, not against the tensordict",
    ]
    R.trusted = ["argument synthesis table harness/c15_lib.py::cand/special (parameter name -> candidate values)",
                 "canonicalisation harness/c15_lib.py::canon/erase"]
    from . import translate, tr_c15  # noqa: F401
    info = None
    try:
        info = translate.run("c15_tables")
        R.extra["translated"] = {"tables": {k: len(v) for k, v in info["tables"].items()}, "install_steps": len(info["steps"]),
                                 "torch_functions_registered": len(info["torch_td"]) + len(info["torch_lazy"])}
    except translate.TranslateError as e:
        R.broken.append(f"translator c15_tables: {e}")
    tr_c15.write_reflection(tr_c15.reflection())
    R.step_prove()
    ok = R.step_driver()
    t0 = time.time()
    cases, unsynth = gen_cases(R)
    cases += c15_extra.gen(R)
    cases += c15_deep.gen(R)
    results = run_all(cases)
    R.extra["impl_wall_s"] = round(time.time() - t0, 1)
    abstracts = []
    for (i, verdict, probs, flags, o_tc, o_td, ab) in results:
        case = cases[i]
        key = json.dumps(case, sort_keys=True)
        nontrivial = verdict != "uninformative" and "both-raise" not in flags
        R.case(key, nontrivial=nontrivial, sample=case if (i % 4001 == 0) else None)
        R.count("stream:" + case.get("stream", "?"))
        R.count("class:" + case["cls"])
        R.count("layout:" + case.get("layout", "-"))
        R.count("verdict:" + verdict)
        for f in flags:
            R.count("flag:" + f)
        if verdict == "fail":
            sig = classify(case, o_tc, o_td, flags, probs)
            R.oracle_fail("differential:" + case.get("stream", "?"), case,
                          {"problems": probs[:4], "tensorclass": o_tc, "tensordict": o_td}, sig)
        if ab is not None:
            abstracts.append((i, ab))
        R.traces += 1
    R.extra["unsynthesised"] = {"count": len(unsynth), "names": dict(sorted(unsynth.items()))}
    R.extra["reflection"] = {"public_attributes": len(Lb.public_names()), "api_dunders": len(Lb.api_dunders()),
                             "torch_functions": len(torchfn_names())}
    if ok:
        from . import c15_model
        c15_model.correspond(R, cases, abstracts, results, info)
        c15_deep.correspond(R, cases, results)


def replay(body):
    import warnings
    warnings.filterwarnings("ignore")
    Lb.T()
    case = body["case"]
    print("case:", json.dumps(case))
    if case.get("stream") in DEEP:
        return c15_deep.replay(case)
    if case.get("stream") in EXTRA:
        return c15_extra.replay(case)
    o_tc = Lb.invoke(case, "tc")
    o_td = Lb.invoke(case, "td")
    o_td2 = Lb.invoke(case, "td")
    verdict, probs, flags = Lb.judge(case, o_tc, o_td, o_td2)
    drop = lambda o: {k: v for k, v in o.items() if k != "post"}  # noqa: E731
    print("tensorclass  :", json.dumps(drop(o_tc))[:1500])
    print("tensordict   :", json.dumps(drop(o_td))[:1500])
    print("oracle       :", verdict, flags)
    for p in probs:
        print("   -", p[:400])
    try:
        from . import c15_model
        c15_model.replay_model(case, o_tc, o_td)
    except Exception as e:  # noqa: BLE001
        print("model        : (not evaluated:", type(e).__name__, str(e)[:100], ")")
    return 0 if verdict != "fail" else 1
