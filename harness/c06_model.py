"""C06 correspondence: histories at the level of the memoised methods, executed on the real code and on the extracted
model (coq/Model/C06_Cache.v via Extract/D_C06.v).  Compared after EVERY op: outcome class, is_locked of every node, the
(method, key) set of every node's _cache (ids canonicalised to address classes), and for every read: hit / miss / bypass and
whether the memoised value still equals a fresh recomputation (hook verdict vs model verdict)."""
import gc
import hashlib
import json
import os

import torch
from tensordict import NonTensorData, TensorDict
from tensordict import utils as td_utils
from tensordict.base import _NESTED_TENSORS_AS_LISTS, _default_is_leaf, _is_leaf_nontensor

from .c06_hist import HOOK, ensure_hook
from .c06_world import DT, Subject, children, exc_enum, is_lazy, is_nt, node_at, walk_leaves, walk_nodes
from .core import Sym, some, sx

PID = "C06"
DTI = {torch.int64: 0, torch.float32: 1, torch.float64: 2, torch.uint8: 3, torch.int32: 4}
KNOWN_OBJS = [(None, 0, 0), (_default_is_leaf, 1, 1), (_is_leaf_nontensor, 2, 7), (_NESTED_TENSORS_AS_LISTS, 3, 1)]


class Numbering:
    def __init__(self, start=1):
        self.m = {}
        self.next = start

    def __call__(self, k):
        if k not in self.m:
            self.m[k] = self.next
            self.next += 1
        return self.m[k]


class MWorld:
    """the real objects of one model-level history plus the numberings that turn them into model values"""

    def __init__(self, spec):
        self.S = Subject(spec)
        self.td = self.S.td
        self.uid = Numbering(10)        # object identities (nodes, leaves, argument objects)
        self.uid_pin = {}               # id(obj) -> obj, keeps numbered objects alive so that id() stays meaningful
        self.stor = Numbering(10)
        self.content = Numbering(1)
        self.payload = Numbering(1)
        self.addr = Numbering(10)       # address classes of temporaries
        for o, a, _ in KNOWN_OBJS:
            self.addr.m[id(o)] = a
        self.nmemmap = 0

    def U(self, obj):
        self.uid_pin.setdefault(id(obj), obj)
        return self.uid(id(obj))

    # ---- encoders
    def leaf_sx(self, v):
        if isinstance(v, torch.Tensor):
            ptr = v.untyped_storage().data_ptr() if v.numel() else ("empty", id(v))
            return [self.U(v), Sym("t"), self.stor(ptr), 0, DTI.get(v.dtype, 9), v.numel(), v.element_size(), type(v).__name__ == "MemoryMappedTensor"]
        if isinstance(v, NonTensorData):
            return [self.U(v), Sym("nd"), 0, self.payload(json.dumps(v.tolist(), default=str)), 0, 0, 0, False]
        return [self.U(v), Sym("ns"), self.stor(("ns", id(v))), 0, 0, 0, 0, False]

    def meta_sx(self, n):
        try:
            names = [str(x) for x in n.names] if n._has_names() else None
        except Exception:  # noqa: BLE001
            names = None
        return [list(n.batch_size), some(names), 0 if n.device is None else 1]

    def path_sx(self, p):
        return [str(k) for k in p]

    def node_sx(self, p, n, byid):
        fl = getattr(n, "_is_locked", None)
        pars = []
        if not is_lazy(n):
            for r in n.__dict__.get("__lock_parents_weakrefs", None) or []:
                o = r()
                if o is not None and id(o) in byid:
                    pars.append(self.path_sx(byid[id(o)]))
        return [self.path_sx(p), self.U(n), Sym("lazy" if is_lazy(n) else "td"), some(bool(fl)) if fl is not None else None, pars,
                bool(n.__dict__.get("_is_memmap", False)) if not is_lazy(n) else False, self.meta_sx(n)]

    def state_sx(self):
        nodes = walk_nodes(self.td)
        byid = {id(n): p for p, n in nodes}
        ns = [self.node_sx(p, n, byid) for p, n in nodes]
        ls, st = [], {}
        for p, v in walk_leaves(self.td):
            l = self.leaf_sx(v)
            ls.append([self.path_sx(p), l])
            if isinstance(v, torch.Tensor):
                st[l[2]] = self.content(tuple(v.detach().reshape(-1).tolist()))
            elif not isinstance(v, NonTensorData):
                st[l[2]] = self.content(json.dumps(v.tolist(), default=str))
        return [ns, ls, [[k, v] for k, v in sorted(st.items())]]

    # ---- observations
    def key_sx(self, k):
        if isinstance(k, tuple):
            return [Sym("t")] + [self.key_sx(x) for x in k]
        if isinstance(k, str):
            return [Sym("s"), k]
        if isinstance(k, bool):
            return int(k)
        if isinstance(k, int):
            if abs(k) > 10 ** 6:
                return [Sym("id"), self.addr.m.get(k, 999999)]
            return k
        if isinstance(k, slice):
            return [Sym("sl"), some(k.start), some(k.stop), some(k.step)]
        if k is Ellipsis:
            return Sym("ell")
        return [Sym("?"), repr(k)]

    def caches(self):
        out = []
        for p, n in walk_nodes(self.td):
            c = n.__dict__.get("_cache")
            ents = []
            if c:
                for m, d in c.items():
                    for k in d:
                        ents.append(json.loads(json.dumps([m, self.key_sx(k[0]), self.key_sx(k[1])])))
            try:
                locked = bool(n.is_locked)
            except Exception:  # noqa: BLE001
                locked = None
            out.append([self.path_sx(p), locked, sorted(ents, key=json.dumps)])
        return out

    def close(self):
        self.S.close()


def norm(x):
    """parsed model sexp -> plain JSON comparable with the harness's own encodings (symbols are already str)"""
    return json.loads(json.dumps(x))


def arg_sx(W, a):
    """(model sexp, python object) of one argument descriptor"""
    k = a[0]
    if k == "s":
        return [Sym("s"), a[1]], a[1]
    if k == "i":
        return a[1], a[1]
    if k == "b":
        return Sym("t" if a[1] else "f"), bool(a[1])
    if k == "none":
        return None, None
    if k == "known":
        o, ad, sem = KNOWN_OBJS[a[1]]
        if o is None:
            return None, None
        return [Sym("obj"), ad, ad, sem], o
    if k == "seq":
        parts = [arg_sx(W, x) for x in a[1]]
        return [Sym("seq")] + [p[0] for p in parts], [p[1] for p in parts]
    if k == "keyseq":   # a list of nested keys (tuples of str / str)
        parts = []
        objs = []
        for key in a[1]:
            if isinstance(key, list):
                parts.append([Sym("seq")] + [[Sym("s"), x] for x in key])
                objs.append(tuple(key))
            else:
                parts.append([Sym("s"), key])
                objs.append(key)
        return [Sym("seq")] + parts, objs
    raise ValueError(a)


def mk_temp(sem):
    if sem == 1:
        return lambda cls: issubclass(cls, torch.Tensor)
    return lambda cls: _is_leaf_nontensor(cls)


READS = [
    ("_nested_keys", [], {"include_nested": ["b", 1], "leaves_only": ["b", 1], "is_leaf": ["none"], "sort": ["b", 0]}),
    ("_nested_keys", [], {"include_nested": ["b", 1], "leaves_only": ["b", 0], "is_leaf": ["none"], "sort": ["b", 0]}),
    ("_nested_keys", [], {"include_nested": ["b", 1], "leaves_only": ["b", 1], "is_leaf": ["known", 2], "sort": ["b", 0]}),
    ("_nested_keys", [], {"include_nested": ["b", 1], "leaves_only": ["b", 1], "is_leaf": ["temp"], "sort": ["b", 0]}),
    ("_values_list", [], {}),
    ("_values_list", [["b", 1], ["b", 1]], {}),
    ("_values_list", [["i", 1], ["i", 1]], {}),
    ("_values_list", [["b", 1]], {"leaves_only": ["b", 1]}),
    ("_values_list", [["b", 1], ["b", 0]], {}),
    ("_values_list", [["b", 1], ["b", 1]], {"is_leaf": ["known", 3]}),
    ("_values_list", [["b", 1], ["b", 1]], {"collapse": ["b", 1], "is_leaf": ["temp"]}),
    ("_values_list", [["b", 1], ["b", 1]], {"collapse": ["b", 1], "is_leaf": ["known", 2]}),
    ("_values_list", [["b", 1], ["b", 1]], {"sorting_keys": ["keyseq-all"]}),
    ("_items_list", [], {}),
    ("_items_list", [["b", 1], ["b", 1]], {}),
    ("_items_list", [["b", 1], ["b", 1]], {"collapse": ["b", 1]}),
    ("_items_list", [["b", 1], ["b", 1]], {"is_leaf": ["known", 3]}),
    ("sorted_keys", None, None),
    ("flatten_keys", [], {}),
    ("flatten_keys", [["s", "."]], {}),
    ("flatten_keys", [["s", ","]], {}),
    ("flatten_keys", [], {"separator": ["s", "."]}),
    ("flatten_keys", [], {"is_leaf": ["known", 2]}),
    ("flatten_keys", [], {"is_leaf": ["temp"]}),
    ("unflatten_keys", [["s", "."]], {}),
    ("unflatten_keys", [], {"separator": ["s", ","]}),
    ("detach", [], {}),
    ("_dtype", [], {}),
    ("_depth", [], {}),
    ("bytes", [], {}),
    ("bytes", [], {"count_duplicates": ["b", 0]}),
    ("param_count", [], {}),
    ("param_count", [], {"count_duplicates": ["b", 0]}),
]
LAZY_READS = [("_key_list", [], {}), ("_has_exclusive_keys", None, None),
              ("_get_str", [["s", "x"]], {}), ("_get_str", [["s", "x"], ["known", 0]], {}), ("_get_str", [["s", "s"], ["known", 0]], {}),
              ("_get_str", [["s", "sub"], ["known", 0]], {})]


class MRunner:
    def __init__(self, prog):
        self.prog = prog
        self.W = MWorld(prog["spec"])
        self.impl = []     # per op: [outcome, readinfo, caches]
        self.ops_sx = []
        self.live_temps = []

    def tensor_leaf_paths(self):
        return [p for p, v in walk_leaves(self.W.td) if isinstance(v, torch.Tensor)]

    def do(self, op):
        W = self.W
        td = W.td
        k = op["op"]
        nodes = walk_nodes(td)
        p, n = nodes[op.get("node", 0) % len(nodes)]
        readinfo = None
        osx = None
        out = "ok"
        try:
            if k == "lock":
                osx = [Sym("lock"), W.path_sx(p)]
                n.lock_()
            elif k == "unlock":
                # a refused unlock formats its error message with repr(self) / repr(parent): below a lazy stack that repr
                # runs memoised reads of its own (outside the model) — only unlocks that a lazy ancestor cannot refuse
                if any(is_lazy(a) and getattr(a, "_is_locked", None) for q, a in nodes if len(q) < len(p) and p[:len(q)] == q):
                    return None
                osx = [Sym("unlock"), W.path_sx(p)]
                n.unlock_()
            elif k == "read":
                cat = LAZY_READS if (is_lazy(n) and op.get("lazy_read")) else READS
                meth, args, kwargs = cat[op["which"] % len(cat)]
                if is_lazy(n) and cat is READS and meth in ("_nested_keys",):
                    meth, args, kwargs = "_key_list", [], {}
                if (not is_lazy(n)) and meth in ("_key_list", "_has_exclusive_keys", "_get_str"):
                    meth, args, kwargs = "sorted_keys", None, None
                osx, readinfo, out = self.read(p, n, meth, args, kwargs, op)
            elif k == "inplace":
                lp = self.tensor_leaf_paths()
                if not lp:
                    return None
                q = lp[op["leaf"] % len(lp)]
                owner = node_at(td, q[:-1])
                cur = dict(children(owner))[q[-1]]
                cur.copy_(torch.full_like(cur, op["v"]))
                osx = [Sym("inplace"), W.path_sx(q), W.content(tuple(cur.detach().reshape(-1).tolist()))]
            elif k in ("set", "setnode", "del"):
                if is_lazy(n):
                    return None
                keys = [kk for kk, _ in children(n)]
                if k == "set":
                    key = f"w{len(self.ops_sx)}" if (op["which"] % 2 == 0 or not keys) else keys[op["leaf"] % len(keys)]
                    val = torch.full(list(n.batch_size), op["v"], dtype=torch.int64)
                    osx_f = lambda: [Sym("set"), W.path_sx(p + (key,)), W.leaf_sx(val)]  # noqa: E731
                    osx = osx_f()
                    n.set(key, val)
                    bound = dict(children(n)).get(key)
                    osx = [Sym("set"), W.path_sx(p + (key,)), W.leaf_sx(bound)]
                elif k == "setnode":
                    key = f"n{len(self.ops_sx)}"
                    new = TensorDict({}, batch_size=n.batch_size)
                    osx = [Sym("setnode"), W.path_sx(p + (key,)), W.U(new), W.meta_sx(new)]
                    n.set(key, new)
                    bound = dict(children(n)).get(key)
                    osx = [Sym("setnode"), W.path_sx(p + (key,)), W.U(bound), W.meta_sx(bound)]
                else:
                    if not keys:
                        return None
                    key = keys[op["leaf"] % len(keys)]
                    osx = [Sym("del"), W.path_sx(p + (key,))]
                    n.del_(key)
            elif k == "promote":
                # only NonTensorData -> NonTensorStack promotion is modelled (a NonTensorStack is a lazy stack with a lock of its own)
                cands = [(q, v) for q, v in walk_leaves(td) if isinstance(v, NonTensorData) and not any(x.startswith("#") for x in q)]
                if not cands:
                    return None
                q, v = cands[op["leaf"] % len(cands)]
                owner = node_at(td, q[:-1])
                if owner.batch_dims == 0:
                    return None
                osx = [Sym("promote"), W.path_sx(q), W.leaf_sx(v)]     # placeholder when the call raises
                owner.set_at_(q[-1], NonTensorData(f"s{op['v']}"), 0)
                bound = dict(children(owner))[q[-1]]
                if bound is v:
                    if isinstance(v, NonTensorData):
                        return None    # same value written: no rebinding happened (is_diff False)
                    # an existing NonTensorStack is modified in place
                    osx = [Sym("inplace"), W.path_sx(q), W.content(json.dumps(v.tolist(), default=str))]
                else:
                    osx = [Sym("promote"), W.path_sx(q), W.leaf_sx(bound)]
            elif k == "makememmap":
                if is_lazy(n):
                    return None
                key = f"m{len(self.ops_sx)}"
                t = torch.full(list(n.batch_size), op["v"], dtype=torch.int64)
                osx = [Sym("makememmap"), W.path_sx(p + (key,)), W.leaf_sx(t)]
                n.make_memmap_from_tensor(key, t)
                bound = dict(children(n)).get(key)
                osx = [Sym("makememmap"), W.path_sx(p + (key,)), W.leaf_sx(bound)]
            elif k == "makememmap_nested":
                # make_memmap_from_tensor with a nested key: _make_memmap_subtd binds a new nested tensordict (no memmap prefix here)
                if is_lazy(n):
                    return None
                k1 = f"q{len(self.ops_sx)}"
                t = torch.full(list(n.batch_size), op["v"], dtype=torch.int64)
                W.uid.next += 1
                osx = [Sym("makememmapnested"), W.path_sx(p + (k1,)), W.uid.next - 1, "x", W.leaf_sx(t)]   # placeholder when the call raises
                n.make_memmap_from_tensor((k1, "x"), t)
                node = dict(children(n)).get(k1)
                bound = dict(children(node)).get("x")
                osx = [Sym("makememmapnested"), W.path_sx(p + (k1,)), W.U(node), "x", W.leaf_sx(bound)]
            elif k == "memmap":
                if any(is_lazy(m) for _, m in walk_nodes(n)):
                    return None
                if W.nmemmap >= 3:
                    return None
                W.nmemmap += 1
                base = max(W.uid.next, W.stor.next) + 1      # ids stay small: the model's ids are unary nat
                old = {q: v for q, v in walk_leaves(n) if isinstance(v, torch.Tensor)}
                oldenc = {q: W.leaf_sx(v) for q, v in old.items()}
                osx = [Sym("memmap"), W.path_sx(p), base]
                n.memmap_()
                for q, v in walk_leaves(n):
                    if q in old and isinstance(v, torch.Tensor):
                        if v is old[q]:
                            if not oldenc[q][7]:
                                raise RuntimeError("machinery: memmap_ kept a plain tensor object")
                            continue
                        W.uid_pin[id(v)] = v
                        W.uid.m[id(v)] = base + oldenc[q][0]
                        W.stor.m[v.untyped_storage().data_ptr() if v.numel() else ("empty", id(v))] = base + oldenc[q][2]
                W.uid.next = max(W.uid.next, 2 * base + 1)
                W.stor.next = max(W.stor.next, 2 * base + 1)
            elif k == "names":
                if n.batch_dims == 0:
                    return None
                if any(ch in str(x) for x in p for ch in ".,"):
                    # a nested node under a key that contains a separator: with names of its own, unflatten_keys(separator) of the
                    # nodes above cannot coerce them ("refine_names") and raises — key splitting is not transcribed by the model
                    return None
                names = [f"d{len(self.ops_sx)}x{i}" for i in range(n.batch_dims)] if op["which"] % 3 else None
                osx = [Sym("names"), W.path_sx(p), some(names)]
                n.names = names
            elif k == "bs":
                if n.batch_dims == 0 or is_lazy(n) or any(x.startswith("#") for x in p):
                    return None
                bs = list(n.batch_size)[:-1]
                if any(len(v.batch_size) < len(bs) or list(v.batch_size[:len(bs)]) != bs for _, v in children(n) if not isinstance(v, torch.Tensor)):
                    # _batch_size_setter would re-assign the batch size of such a nested tensordict as well (an edge case the
                    # model does not transcribe: it arises only after that nested node was shrunk below its parent)
                    return None
                osx = [Sym("bs"), W.path_sx(p), bs]
                n.batch_size = bs
            elif k == "gc":
                self.live_temps = []
                gc.collect()
                return None
            else:
                raise ValueError(k)
        except Exception as e:  # noqa: BLE001
            en = exc_enum(e)
            out = "lock-error" if en == "LockError" else ("machinery:" + repr(e) if "machinery" in str(e) else "other-error")
            if k in ("names", "bs"):
                return "abort"   # a failing metadata setter may have renamed part of the tree: outside the model, stop here
        if osx is None:
            return None
        self.ops_sx.append(osx)
        self.impl.append({"op": dict(op, resolved=sx(osx)[:160]), "out": out, "read": readinfo, "caches": W.caches()})
        return out

    def read(self, p, n, meth, args, kwargs, op):
        W = self.W
        temp = None
        a_sx, a_py, k_sx, k_py = [], [], [], {}
        if args is not None:
            for a in args:
                s_, o_ = arg_sx(W, a)
                a_sx.append(s_)
                a_py.append(o_)
            for kk, a in kwargs.items():
                if a[0] == "temp":
                    sem = 1 if op.get("sem", 0) % 2 == 0 else 7
                    # provoke address reuse: drop earlier temporaries, then create until an address seen before comes back
                    if op.get("reuse", 0) % 2 == 0:
                        self.live_temps = []
                    held, cand = [], None
                    for _ in range(12):
                        f = mk_temp(sem)
                        if id(f) in W.addr.m:
                            cand = f
                            break
                        held.append(f)
                    temp = cand if cand is not None else held[0]
                    del held, cand
                    tuid = W.uid.next       # a fresh identity: never the number of an earlier object at the same address
                    W.uid.next += 1
                    k_sx.append([kk, [Sym("obj"), W.addr(id(temp)), tuid, sem]])
                    k_py[kk] = temp
                elif a[0] == "keyseq-all":
                    keys = sorted(n.keys(True, True), key=str) if not n.is_locked else None
                    if keys is None:
                        # do not touch the memoised key view of the locked subject: read the keys from the walker
                        keys = sorted({(q if len(q) > 1 else q[0]) for q, v in walk_leaves(n) if isinstance(v, torch.Tensor)}, key=str)
                    s_, o_ = arg_sx(W, ["keyseq", [list(x) if isinstance(x, tuple) else x for x in keys]])
                    k_sx.append([kk, s_])
                    k_py[kk] = o_
                else:
                    s_, o_ = arg_sx(W, a)
                    k_sx.append([kk, s_])
                    k_py[kk] = o_
        osx = [Sym("read"), W.path_sx(p), Sym(meth), a_sx, k_sx]
        c = n.__dict__.get("_cache")
        try:
            # the decorator memoises when the node is locked, and (D64) not merely through its members
            locked = bool(n.is_locked) and getattr(n, "_is_locked", True) is not None
        except Exception:  # noqa: BLE001
            locked = False
        key = td_utils._make_cache_key(tuple(a_py), k_py) if args is not None else ((), ())
        was_cached = bool(locked and c and key in c.get(meth, {}))
        HOOK.log.clear()
        HOOK.on = True
        out = "ok"
        try:
            if args is None:
                getattr(n, meth)
            else:
                getattr(n, meth)(*a_py, **k_py)
        except Exception as e:  # noqa: BLE001
            out = "raise:" + exc_enum(e)
        finally:
            HOOK.on = False
        verdict = None
        for (name, sid, ok, detail) in HOOK.log:
            if name == meth and sid == id(n):
                verdict = ok   # the outermost call of this method on this node is logged last
        HOOK.log.clear()
        access = "bypass" if not locked else ("hit" if was_cached else "miss")
        if temp is not None:
            self.live_temps.append(temp)
            if op.get("reuse", 0) % 3 == 0:
                self.live_temps = []
        del temp
        return osx, {"access": access, "fresh_equals_cached": verdict, "call_out": out}, "ok"

    def run(self):
        ensure_hook()
        HOOK.on = False
        try:
            st = self.W.state_sx()
            for op in self.prog["ops"]:
                if self.do(op) == "abort":
                    break
            # Model.repo: the C06 repairs (rebind, metadata, memmap_ under lock, D68, D69) and the C05 lock-graph repairs (D7, D55) applied
            line = sx([Sym("hist"), [True] * 7, True, st, self.ops_sx])
        finally:
            self.W.close()
        return line, self.impl


def gen_mprog(rng, nops):
    """model-level histories over trees of TensorDicts (lazy stacks are covered by the oracle streams and by the Coq witnesses
    replayed there: their traversals issue memoised calls across nodes that the model does not transcribe)"""
    from .c06 import gen_spec
    while True:
        spec = gen_spec(rng, "clean" if rng.random() < 0.6 else "dirty")
        if "lazy" not in json.dumps(spec):
            break
    spec["lock"] = rng.choice(["lock_", "lock_", "lock_", "memmap_", "none"])
    ops = []
    kinds = ["read"] * 12 + ["inplace"] * 3 + ["lock", "unlock", "unlock", "lock", "set", "set", "setnode", "del", "promote", "promote", "makememmap",
                                                 "makememmap_nested", "memmap", "names", "bs", "gc"]
    palette = [rng.randrange(0, 64) for _ in range(rng.choice([3, 5, 8]))]     # few distinct read forms per history: hits happen
    nodes = [0, 0, rng.randrange(0, 7), rng.randrange(0, 7)]
    for _ in range(nops):
        k = rng.choice(kinds)
        ops.append({"op": k, "node": rng.choice(nodes), "which": rng.choice(palette) if k == "read" else rng.randrange(0, 64), "leaf": rng.randrange(0, 9),
                    "v": rng.randrange(1, 9), "sem": rng.randrange(0, 2), "reuse": rng.randrange(0, 6), "lazy_read": False})
    return {"spec": spec, "ops": ops, "stream": "model"}


def gen_lazy_mprog(rng, nops):
    """model-level histories over a lazy stack of TensorDicts: only the lazy stack's own memoised methods are read at the stack
    (names, _key_list, _has_exclusive_keys, _get_str); writes go through the members"""
    from .c06 import gen_spec
    spec = gen_spec(rng, "lazyroot")
    nm = len(spec["root"]["members"])
    ops = []
    for _ in range(nops):
        k = rng.choice(["read"] * 6 + ["inplace", "inplace", "lock", "unlock", "names", "names", "set", "gc"])
        node = rng.choice([0, 0, 0] + list(range(1, 1 + nm))) if k != "read" else 0
        if k == "set":
            node = rng.randrange(1, 1 + nm)
        ops.append({"op": k, "node": node, "which": rng.randrange(0, 64), "leaf": rng.randrange(0, 9), "v": rng.randrange(1, 9), "sem": 0, "reuse": 0,
                    "lazy_read": True})
    return {"spec": spec, "ops": ops, "stream": "model"}


def _run_m(prog):
    import signal
    from .c06 import HistoryTimeout
    torch.set_num_threads(1)

    def _alarm(*_a):
        raise HistoryTimeout()
    old = signal.signal(signal.SIGALRM, _alarm)
    signal.alarm(600)
    try:
        line, impl = MRunner(prog).run()
        return {"prog": prog, "line": line, "impl": impl}
    except HistoryTimeout:
        HOOK.on = False
        return {"prog": prog, "timeout": True}
    except Exception:  # noqa: BLE001
        import traceback
        return {"prog": prog, "crash": traceback.format_exc()[-1500:]}
    finally:
        signal.alarm(0)
        signal.signal(signal.SIGALRM, old)


def compare(prog, impl, model):
    """first disagreement between the implementation's observations and the model's trace, or None"""
    if not isinstance(model, list) or len(model) != len(impl):
        return {"what": "trace length", "model": str(model)[:300], "impl_len": len(impl)}
    for i, (im, mo) in enumerate(zip(impl, model)):
        m_out, m_info, m_caches = mo
        if im["out"] != m_out:
            return {"step": i, "what": "outcome", "op": im["op"], "impl": im["out"], "model": m_out}
        if im["read"] is not None:
            if m_info == "none":
                return {"step": i, "what": "read target", "op": im["op"], "impl": im["read"], "model": m_info}
            acc, cached, fr, _scratch = m_info
            fr = fr[1] if isinstance(fr, list) and fr and fr[0] == "some" else None
            if acc != im["read"]["access"]:
                return {"step": i, "what": "hit/miss", "op": im["op"], "impl": im["read"], "model": acc}
            if acc == "hit" and im["read"]["fresh_equals_cached"] is not None and fr is not None:
                m_ok = norm(cached) == norm(fr)
                if m_ok != im["read"]["fresh_equals_cached"]:
                    return {"step": i, "what": "stale verdict (memoised value == fresh recomputation)", "op": im["op"],
                            "impl": im["read"]["fresh_equals_cached"], "model": m_ok, "model_cached": str(cached)[:400], "model_fresh": str(fr)[:400]}
        mc = [[p, {"t": True, "f": False}.get(l, l), sorted(norm(e), key=json.dumps)] for p, l, e in norm(m_caches)]
        ic = json.loads(json.dumps(im["caches"]))
        mc_d = {json.dumps(p): (l, e) for p, l, e in mc}
        ic_d = {json.dumps(p): (l, e) for p, l, e in ic}
        if set(mc_d) != set(ic_d):
            return {"step": i, "what": "node set", "op": im["op"], "impl": sorted(ic_d), "model": sorted(mc_d)}
        for pth in ic_d:
            if ic_d[pth][0] != mc_d[pth][0]:
                return {"step": i, "what": "is_locked of node " + pth, "op": im["op"], "impl": ic_d[pth][0], "model": mc_d[pth][0]}
            if ic_d[pth][1] != mc_d[pth][1]:
                return {"step": i, "what": "cache keys of node " + pth, "op": im["op"],
                        "impl_only": [e for e in ic_d[pth][1] if e not in mc_d[pth][1]][:6],
                        "model_only": [e for e in mc_d[pth][1] if e not in ic_d[pth][1]][:6]}
    return None


def correspondence(R, procs):
    from .c06 import _pool_map
    n, nops = (160, 24) if R.quick else (2000, 36)
    progs = [gen_mprog(R.rng, nops) for _ in range(n)] + [gen_lazy_mprog(R.rng, 16) for _ in range(n // 4)]
    res = _pool_map(_run_m, progs, procs)
    lines, keep = [], []
    for r in res:
        if "crash" in r:
            raise RuntimeError("model-history runner crashed:\n" + r["crash"])
        if r.get("timeout") or r.get("lost"):
            R.mismatch("C06_Cache.step/read vs tensordict", {"spec": r["prog"]["spec"], "ops": r["prog"]["ops"], "stream": "model"},
                       "history did not finish within 600 s", "terminates")
            continue
        if r["impl"]:
            lines.append(r["line"])
            keep.append(r)
    models = R.model(lines)
    nstale = nhit = 0
    for r, mo in zip(keep, models):
        key = hashlib.sha1(json.dumps(r["prog"], sort_keys=True).encode()).hexdigest()[:16]
        R.case("m" + key, nontrivial=len(r["impl"]) > 2)
        R.traces += 1
        R.count("stream:model-lazy" if r["prog"]["spec"]["root"]["kind"] == "lazy" else "stream:model")
        for im in r["impl"]:
            R.count("mop:" + im["op"]["op"] + ":" + im["out"])
            if im["read"]:
                R.count("mread:" + im["read"]["access"])
                if im["read"]["access"] == "hit":
                    nhit += 1
                    if im["read"]["fresh_equals_cached"] is False:
                        nstale += 1
        d = compare(r["prog"], r["impl"], mo)
        if d is not None:
            # count a disagreement only if it shows again when the same history is run once more (here, in this process):
            # address numbering and garbage collection are not part of the model
            r2 = _run_m(r["prog"])
            d2 = None
            if "crash" not in r2 and not r2.get("timeout") and r2.get("impl"):
                d2 = compare(r["prog"], r2["impl"], R.model([r2["line"]])[0])
            if d2 is None:
                R.extra["model_mismatches_not_reproduced"] = R.extra.get("model_mismatches_not_reproduced", 0) + 1
                continue
            R.mismatch("C06_Cache.step/read vs tensordict", {"spec": r["prog"]["spec"], "ops": r["prog"]["ops"], "stream": "model", "first_difference_at_executed_op": d2.get("step")},
                       {k: v for k, v in d2.items() if k != "model"}, d2.get("model"))
    R.extra["model_hits_compared"] = nhit
    R.extra["model_stale_hits_predicted_and_observed"] = nstale
    R.extra["model_histories"] = len(keep)


def replay(prog):
    from .core import build_driver, run_model
    if prog.get("stream") != "model":
        return
    build_driver(PID)
    r = _run_m(prog)
    if "crash" in r:
        print(r["crash"])
        return
    mo = run_model(PID, [r["line"]])[0]
    print("model/impl first difference:", json.dumps(compare(prog, r["impl"], mo), default=str)[:1500])
