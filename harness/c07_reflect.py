"""C07 reflection stream: fixtures (container kinds x entry layouts), memory observation (storage classes, cell index
maps, written cells), the documentation-derived classification table of the public API and the sentinel oracles
(in-place keeps storage / out-of-place never writes / view shares / copy is fresh).
Nothing in this file depends on the Coq model."""
import inspect
import operator
import random
import shutil
import tempfile

_T = {}


def T():
    """lazy imports (tensordict must be imported after cext.install())"""
    if not _T:
        import torch
        import tensordict
        from tensordict import TensorDict, LazyStackedTensorDict, tensorclass, lazy_stack, TensorDictBase
        from tensordict._td import _SubTensorDict
        from tensordict.base import _is_tensor_collection
        from tensordict.utils import is_non_tensor
        try:
            from tensordict.tensorclass import is_tensorclass
        except Exception:  # noqa: BLE001
            from tensordict import is_tensorclass

        @tensorclass
        class C07TC:
            a: torch.Tensor
            b: torch.Tensor
            n: TensorDict

        C07TC.__module__ = __name__
        globals()["C07TC"] = C07TC
        _T.update(torch=torch, tensordict=tensordict, TD=TensorDict, Lazy=LazyStackedTensorDict, Sub=_SubTensorDict,
                  TC=C07TC, lazy_stack=lazy_stack, is_tc=is_tensorclass, is_coll=_is_tensor_collection,
                  is_nt=is_non_tensor, Base=TensorDictBase)
    return _T


DT = None  # torch.float64, set lazily


def dt():
    return T()["torch"].float64


# =============================================================================================== memory observation
def sptr(t):
    """storage identity of a tensor (None for tensors without cells: nothing can alias them)"""
    if t.numel() == 0:
        return None
    return t.untyped_storage().data_ptr()


def flat(t):
    """1-D view of the whole storage of t (a handle that can always be read and written)"""
    torch = T()["torch"]
    return torch.empty(0, dtype=t.dtype).set_(t.untyped_storage())


def cells(t):
    """storage cell index of every element of t in row-major order (the view's index map)"""
    torch = T()["torch"]
    if t.numel() == 0:
        return []
    n = t.untyped_storage().nbytes() // t.element_size()
    return torch.arange(n).as_strided(tuple(t.shape), tuple(t.stride()), t.storage_offset()).reshape(-1).tolist()


def bits(t):
    torch = T()["torch"]
    t = t.detach()
    if t.dtype == torch.float64:
        return t.contiguous().view(torch.int64)
    if t.dtype == torch.float32:
        return t.contiguous().view(torch.int32)
    if t.dtype == torch.bool:
        return t.to(torch.int64)
    return t.contiguous()


class Universe:
    """every storage the caller can reach before an operation: flat handles + a bit-exact snapshot"""

    def __init__(self):
        self.flats = {}   # ptr -> flat view (keeps the storage alive: no address reuse while we look)
        self.snap = {}
        self.keep = []

    def add(self, t):
        torch = T()["torch"]
        if not isinstance(t, torch.Tensor) or t.is_nested or t.numel() == 0:
            return
        p = sptr(t)
        if p not in self.flats:
            self.flats[p] = flat(t.detach())
            self.keep.append(t)

    def snapshot(self):
        self.snap = {p: bits(f).clone() for p, f in self.flats.items()}

    def written(self):
        """{ptr: [cell indices whose bits changed since the snapshot]}"""
        out = {}
        for p, f in self.flats.items():
            d = (bits(f) != self.snap[p]).nonzero().reshape(-1).tolist()
            if d:
                out[p] = d
        return out

    def __contains__(self, p):
        return p in self.flats


# =============================================================================================== walking containers
def is_tensor(x):
    return isinstance(x, T()["torch"].Tensor)


def unwrap(x):
    t = T()
    if t["is_tc"](x) and not t["is_nt"](x):
        return x._tensordict
    return x


def existing(x, prefix=()):
    """(path, tensor) for every tensor OBJECT the container is built on: members' leaves for a lazy stack ('#i'),
    the source's leaves for a sub-tensordict ('^'), the wrapped tensordict's leaves for a tensorclass"""
    t = T()
    x = unwrap(x)
    if isinstance(x, t["Lazy"]):
        for i, m in enumerate(x.tensordicts):
            yield from existing(m, prefix + (f"#{i}",))
    elif isinstance(x, t["Sub"]):
        yield from existing(x._source, prefix + ("^",))
    elif isinstance(x, t["TD"]):
        for k, v in x._tensordict.items():
            if t["is_nt"](v):
                continue
            if t["is_coll"](type(v)):
                yield from existing(v, prefix + (k,))
            elif is_tensor(v):
                yield prefix + (k,), v
    elif t["is_coll"](type(x)):
        for k, v in x.items():
            if t["is_nt"](v):
                continue
            if t["is_coll"](type(v)):
                yield from existing(v, prefix + (k,))
            elif is_tensor(v):
                yield prefix + (k,), v


def keyset(x):
    """sorted nested key set at the tensordict level (what td.keys(True) reports), as '/'-joined strings"""
    x = unwrap(x)
    try:
        ks = list(x.keys(True, False))
    except Exception as e:  # noqa: BLE001
        return ["<keys raised %s>" % type(e).__name__]
    return sorted("/".join(k) if isinstance(k, tuple) else k for k in ks)


def leafpaths(x):
    x = unwrap(x)
    t = T()
    out = []
    for k in x.keys(True, True):
        k = k if isinstance(k, tuple) else (k,)
        try:
            v = x.get(k)
        except Exception:  # noqa: BLE001
            continue
        if is_tensor(v) and not t["is_nt"](v):
            out.append(k)
    return sorted(out)


def binding(x):
    """{path: (storage ptr, cells, shape)} of the existing tensors: what 'keeps its storage' is judged on"""
    return {p: (sptr(v), cells(v), tuple(v.shape)) for p, v in existing(x)}


def collect_tensors(obj, out, depth=0):
    """every tensor reachable from a result / argument object (tensordicts, tuples, lists, dicts)"""
    t = T()
    if depth > 6:
        return
    if is_tensor(obj):
        if not t["is_nt"](obj):
            out.append(obj)
    elif t["is_nt"](obj):
        return
    elif t["is_coll"](type(obj)) or t["is_tc"](obj):
        for _, v in existing(obj):
            out.append(v)
    elif isinstance(obj, dict):
        for v in obj.values():
            collect_tensors(v, out, depth + 1)
    elif isinstance(obj, (list, tuple)):
        for v in obj:
            collect_tensors(v, out, depth + 1)
    elif inspect.isgenerator(obj) or hasattr(obj, "__next__"):
        try:
            for v in list(obj):
                collect_tensors(v, out, depth + 1)
        except Exception:  # noqa: BLE001
            pass


def collect_direct(obj, out, depth=0):
    """the tensors handed out directly by a read (tensor, or dict / list / tuple / (key, value) pairs of tensors) — not the
    leaves of tensor collections inside the result"""
    t = T()
    if depth > 6:
        return
    if is_tensor(obj):
        if not t["is_nt"](obj):
            out.append(obj)
    elif t["is_nt"](obj) or t["is_coll"](type(obj)) or t["is_tc"](obj):
        return
    elif isinstance(obj, dict):
        for v in obj.values():
            collect_direct(v, out, depth + 1)
    elif isinstance(obj, (list, tuple)):
        for v in obj:
            collect_direct(v, out, depth + 1)


# =============================================================================================== fixtures
KINDS = ["regular", "nested", "lazy", "sub", "tensorclass", "memmap", "shared"]
LAYOUTS = ["contiguous", "offset", "strided", "transposed", "expanded", "zerofeat", "zerobatch", "mixed"]


def contiguous_strides(shape):
    st, acc = [], 1
    for s in reversed(shape):
        st.append(acc)
        acc *= max(s, 1)
    return list(reversed(st))


def make_leaf(shape, layout, seed, half=False):
    """a float64 tensor of the given shape holding distinct small integers of alternating sign and magnitude >= 2
    (x + 0.5 when half), laid out as requested.  Returns the tensor (its storage is the 'base')."""
    torch = T()["torch"]
    shape = list(shape)
    n = 1
    for s in shape:
        n *= s

    def vals(m):
        v = torch.arange(m, dtype=dt()) + 2 + 40 * seed
        v = v * (1 - 2 * (torch.arange(m) % 2)).to(dt())
        if half:
            v = v + 0.5
        return v

    # every entry is carved from a buffer at least twice as large as the entry: a disjoint view of the same buffer (the
    # "sibling row" of a pre-allocated buffer) exists for it, see sibling_of
    if n == 0:
        return vals(0).reshape(shape)
    if layout == "contiguous":
        return vals(2 * n)[:n].reshape(shape)
    if layout == "offset":
        return vals(2 * n + 3)[3:3 + n].reshape(shape)
    if layout == "strided":
        base = vals(4 * n + 2)
        return base.as_strided(shape, [2 * s for s in contiguous_strides(shape)], 1)
    if layout == "transposed":
        if len(shape) < 2:
            return make_leaf(shape, "strided", seed, half)
        rs = [shape[1], shape[0]] + shape[2:]
        return vals(2 * n)[:n].reshape(rs).transpose(0, 1)
    if layout == "expanded":
        # stride 0 along the first dim of size > 1
        for d, s in enumerate(shape):
            if s > 1:
                small = shape[:d] + [1] + shape[d + 1:]
                m = n // s
                return vals(2 * m)[:m].reshape(small).expand(shape)
        return vals(2 * n)[:n].reshape(shape)
    raise ValueError(layout)


def leaf_layout(layout, rng):
    if layout == "mixed":
        return rng.choice(["contiguous", "offset", "strided", "transposed", "expanded"])
    if layout in ("zerofeat", "zerobatch"):
        return "contiguous"
    return layout


def nested_source(bs, layout, rng, half=False, seed0=0, deep=True):
    """{a: bs, b: bs+[2], n: {c: bs+[3], m: {d: bs}}} as nested python dicts of tensors"""
    zf = layout == "zerofeat"
    fa, fb, fc = ([], [0] if zf else [2], [3])
    s = seed0
    src = {"a": make_leaf(list(bs) + fa, leaf_layout(layout, rng), s, half),
           "b": make_leaf(list(bs) + fb, leaf_layout(layout, rng), s + 1, half)}
    if deep:
        src["n"] = {"c": make_leaf(list(bs) + fc, leaf_layout(layout, rng), s + 2, half),
                    "m": {"d": make_leaf(list(bs), leaf_layout(layout, rng), s + 3, half)}}
    return src


def to_td(src, bs, device=None):
    """device="cpu" selects the code paths taken when the tensordict has a device (e.g. _clone_recurse)"""
    TD = T()["TD"]
    return TD({k: (to_td(v, bs, device) if isinstance(v, dict) else v) for k, v in src.items()}, batch_size=list(bs), device=device)


class Fx:
    def __init__(self, spec):
        self.spec = spec
        self.tmp = []
        self.roots = []   # containers whose key sets / bindings are watched (the handle under test first)
        self.td = None
        self.extra_handles = []

    def close(self):
        for d in self.tmp:
            shutil.rmtree(d, ignore_errors=True)
        self.tmp = []


def build_fixture(spec):
    """spec = {"kind", "layout", "bs", "v": variant int, "half": bool}"""
    t = T()
    rng = random.Random(f"fx/{spec['v']}")
    kind, layout = spec["kind"], spec["layout"]
    bs = list(spec["bs"])
    half = bool(spec.get("half"))
    if layout == "zerobatch":
        bs = [0] + bs[1:] if bs else bs
    fx = Fx(spec)
    dev = "cpu" if spec["v"] % 2 == 1 else None
    if kind == "regular":
        fx.td = to_td(nested_source(bs, layout, rng, half, deep=False), bs, dev)
    elif kind == "nested":
        fx.td = to_td(nested_source(bs, layout, rng, half), bs, dev)
    elif kind == "tensorclass":
        src = nested_source(bs, layout, rng, half)
        fx.td = t["TC"](a=src["a"], b=src["b"], n=to_td(src["n"], bs, dev), batch_size=bs, device=dev)
    elif kind == "lazy":
        sd = spec["v"] % (len(bs)) if bs else 0
        if not bs:
            bs = [2]
        nm = bs[sd]
        mbs = bs[:sd] + bs[sd + 1:]
        if nm == 0:
            nm, bs = 2, bs[:sd] + [2] + bs[sd + 1:]
        # member counts 1..3(4): a third of the stacks have ONE member — built so, or left with one member by a view-producing
        # operation on a larger stack (lazy[k:k+1] on the stack dim, split(1, sd)[k], chunk(n, sd)[k]) — seeded change C07-4
        form = (spec["v"] // 3) % 6
        if form == 0:
            nm, bs = 1, bs[:sd] + [1] + bs[sd + 1:]
        members = [to_td(nested_source(mbs, layout, rng, half, seed0=5 * i), mbs, dev) for i in range(nm)]
        full = t["lazy_stack"](members, sd)
        fx.td = full
        fx.lazy_form = "built:%d" % nm
        if form in (1, 2, 3) and nm >= 2:
            k = spec["v"] % nm
            if form == 1:
                fx.td = full[(slice(None),) * sd + (slice(k, k + 1),)]
            elif form == 2:
                fx.td = full.split(1, sd)[k]
            else:
                fx.td = full.chunk(nm, sd)[k]
            fx.lazy_form = ["", "slice", "split", "chunk"][form] + ":1-of-%d" % nm
            if not isinstance(fx.td, t["Lazy"]):
                fx.td, fx.lazy_form = full, "built:%d" % nm
        fx.extra_handles = members
    elif kind == "sub":
        # the source has one more row than the window; windows: int / slice / (slice, int) / integer list / mask
        pbs = [bs[0] + 2] + bs[1:] if bs else [3]
        parent = to_td(nested_source(pbs, layout, rng, half), pbs, dev)
        form = ["slice", "int", "list", "mask", "tuple"][spec["v"] % 5]
        torch = t["torch"]
        if form == "slice":
            idx = slice(1, 1 + (bs[0] if bs else 1))
        elif form == "int":
            idx = 1
        elif form == "list":
            n = bs[0] if bs else 1
            idx = torch.tensor([(2 * i + 1) % pbs[0] for i in range(n)][::-1] if n else [], dtype=torch.int64)
            if n > 1 and len(set(idx.tolist())) < n:
                idx = torch.arange(n).flip(0)
        elif form == "mask":
            n = bs[0] if bs else 1
            m = [i % 2 == 0 for i in range(pbs[0])]
            idx = torch.tensor(m)
        else:
            idx = (slice(None, None, 2),) + ((0,) if len(pbs) > 1 and pbs[1] > 0 else ())
        fx.td = parent._get_sub_tensordict(idx)
        fx.extra_handles = [parent]
        fx.sub_form = form
    elif kind in ("memmap", "shared"):
        td = to_td(nested_source(bs, layout, rng, half), bs, dev)
        if kind == "memmap":
            d = tempfile.mkdtemp(prefix="c07-")
            fx.tmp.append(d)
            td = td.memmap_(d)
        else:
            td = td.share_memory_()
        fx.td = td
    else:
        raise ValueError(kind)
    fx.roots = [fx.td] + list(fx.extra_handles)
    return fx


# =============================================================================================== argument synthesis
def td_bs(td):
    return list(unwrap(td).batch_size)


def fresh_like(t, base):
    """fresh contiguous float64 tensor of t's shape holding distinct integers base+1, base+2, ... (never equal to
    fixture content, which is below 1000 in magnitude)"""
    torch = T()["torch"]
    n = t.numel()
    return (torch.arange(n, dtype=dt()) + base + 1).reshape(tuple(t.shape))


def own_order(td):
    """leaf paths in the receiver's own iteration order (the ternary family pairs operands by position: C09's D18)"""
    out = []
    for k in unwrap(td).keys(True, True):
        k = k if isinstance(k, tuple) else (k,)
        if k in set(leafpaths(td)):
            out.append(k)
    return out


def src_for(td, paths, base, as_dict=False, order_rev=False):
    """a source tensordict (or nested dict) with the given td-level leaf paths, fresh values, td's batch size"""
    TD = T()["TD"]
    paths = list(paths)
    if order_rev:
        paths = paths[::-1]
    d = {}
    vals = {}
    for i, p in enumerate(paths):
        v = fresh_like(unwrap(td).get(p), base + 50 * i)
        vals[p] = v
        cur = d
        for k in p[:-1]:
            cur = cur.setdefault(k, {})
        cur[p[-1]] = v
    if as_dict:
        return d, vals
    return TD(d, batch_size=td_bs(td)), vals


def gen_index(bs, rng, adv):
    """an index over the leading batch dims (no Ellipsis: td[..., i] and leaf[..., i] mean different dims).
    adv: False = basic items only; True = at least one advanced item.  Returns (index, is_basic)."""
    torch = T()["torch"]
    if not bs:
        return None, True
    k = rng.randint(1, len(bs))
    items, used_adv = [], False
    for d in range(k):
        s = bs[d]
        kinds = ["slice", "slice", "int"] if s > 0 else ["slice"]
        if adv and not used_adv and (d == k - 1 or rng.random() < 0.5):
            kinds = ["list", "tensor", "mask"]
        c = rng.choice(kinds)
        if c == "int":
            items.append(rng.randrange(-s, s))
        elif c == "slice":
            items.append(rng.choice([slice(None), slice(0, max(s - 1, 1)), slice(1, None), slice(None, None, 2),
                                     slice(s // 2, None), slice(None, None, 1)]))
        elif c == "list":
            n = rng.randint(1, max(s, 1)) if s else 0
            items.append(rng.sample(range(s), n) if s else [])
            used_adv = True
        elif c == "tensor":
            n = rng.randint(1, max(s, 1)) if s else 0
            items.append(torch.tensor(rng.sample(range(s), n) if s else [], dtype=torch.int64))
            used_adv = True
        else:
            m = [rng.random() < 0.6 for _ in range(s)]
            if s and not any(m):
                m[0] = True
            items.append(torch.tensor(m, dtype=torch.bool))
            used_adv = True
    if not adv and rng.random() < 0.2:
        items.insert(rng.randrange(0, len(items) + 1), None)
    idx = tuple(items)
    if len(idx) == 1 and rng.random() < 0.5:
        idx = idx[0]
    return idx, not used_adv


class Call:
    def __init__(self, run, desc, args=(), expect=None, exact=True, rule=None, affected=None, existing_only=False, flags=None,
                 alias=None):
        self.flags = dict(flags or {})
        self.alias = alias      # ([(dest, value)], torch reference op): the value aliases the destination's storage
        self.run, self.desc, self.args = run, desc, list(args)
        self.expect, self.exact, self.rule, self.affected = expect, exact, rule, affected
        self.existing_only = existing_only


class Op:
    def __init__(self, name, method, cls, make, doc=None):
        self.name, self.method, self.cls, self.make = name, method, cls, make
        self.doc = doc


OPS = []


def op(name, method, cls):
    def deco(f):
        OPS.append(Op(name, method, cls, f))
        return f
    return deco


# ---------------------------------------------------------------------------------------------- in-place family
UNARY_EXACT = ["abs_", "neg_", "sign_", "ceil_", "floor_", "round_", "trunc_"]
UNARY_INEXACT = ["acos_", "asin_", "atan_", "cos_", "cosh_", "erf_", "erfc_", "exp_", "expm1_", "frac_", "lgamma_",
                 "log_", "log10_", "log1p_", "log2_", "reciprocal_", "sigmoid_", "sin_", "sinh_", "sqrt_", "tan_", "tanh_"]


def _mk_unary(name, exact):
    def make(td, rng):
        f = getattr(T()["torch"].Tensor, name)
        return Call(lambda x: getattr(x, name)(), {"m": name}, expect=lambda p, v: f(v.clone()), exact=exact)
    OPS.append(Op(name, name, "inplace", make))


for _n in UNARY_EXACT:
    _mk_unary(_n, True)
for _n in UNARY_INEXACT:
    _mk_unary(_n, False)

BINARY = {"add_": [3.0, -2.0], "sub_": [3.0], "mul_": [2.0, -1.0], "div_": [2.0, -1.0], "pow_": [2.0],
          "maximum_": None, "minimum_": None, "clamp_max_": [5.0], "clamp_min_": [-5.0]}


# pow / div round differently on vectorised (contiguous clone) and strided code paths once the values are no longer exactly
# representable (histories of pow_ reach 1e17): compared with rtol 1e-6 like the transcendental kernels, never bit-exactly
ROUNDING_BINARY = {"pow_", "div_"}


def _mk_binary(name):
    def make_scalar(td, rng):
        c = rng.choice(BINARY[name])
        f = getattr(T()["torch"].Tensor, name)
        return Call(lambda x: getattr(x, name)(c), {"m": name, "other": c}, expect=lambda p, v: f(v.clone(), c),
                    exact=name not in ROUNDING_BINARY)

    def make_td(td, rng):
        paths = leafpaths(td)
        if not paths:
            return None
        other, vals = src_for(td, paths, 2, order_rev=rng.random() < 0.5)
        if name == "div_":
            for v in vals.values():
                v.fill_(rng.choice([2.0, -1.0, 4.0]))
        if name == "pow_":
            for v in vals.values():
                v.fill_(2.0)
        if T()["is_tc"](td):
            try:
                other = type(td).from_tensordict(other)
            except Exception:  # noqa: BLE001
                pass
        torch = T()["torch"]
        f = getattr(torch.Tensor, name, None) or (lambda a, b: getattr(torch, name[:-1])(a, b))
        return Call(lambda x: getattr(x, name)(other), {"m": name, "other": "td"}, args=[other],
                    expect=lambda p, v: f(v.clone(), vals[p]), exact=name not in ROUNDING_BINARY)

    if BINARY[name] is not None:
        OPS.append(Op(name + ":scalar", name, "inplace", make_scalar))
    OPS.append(Op(name + ":td", name, "inplace", make_td))


for _n in BINARY:
    _mk_binary(_n)

AUG = {"__iadd__": (operator.iadd, "add_", 3.0), "__isub__": (operator.isub, "sub_", 3.0),
       "__imul__": (operator.imul, "mul_", 2.0), "__itruediv__": (operator.itruediv, "div_", 2.0),
       "__ipow__": (operator.ipow, "pow_", 2.0)}


def _mk_aug(name):
    fop, tname, c = AUG[name]

    def make(td, rng):
        f = getattr(T()["torch"].Tensor, tname)
        return Call(lambda x: fop(x, c), {"m": name, "other": c}, expect=lambda p, v: f(v.clone(), c),
                    exact=tname not in ROUNDING_BINARY)
    OPS.append(Op(name, name, "inplace", make))


for _n in AUG:
    _mk_aug(_n)


@op("addcmul_", "addcmul_", "inplace")
def _addcmul_(td, rng):
    paths = own_order(td)
    if not paths:
        return None
    o1, v1 = src_for(td, paths, 2)
    o2, v2 = src_for(td, paths, 7)
    return Call(lambda x: x.addcmul_(o1, o2, value=2), {"m": "addcmul_"}, args=[o1, o2],
                expect=lambda p, v: v.clone().addcmul_(v1[p], v2[p], value=2))


@op("addcdiv_", "addcdiv_", "inplace")
def _addcdiv_(td, rng):
    paths = own_order(td)
    if not paths:
        return None
    o1, v1 = src_for(td, paths, 2)
    o2, v2 = src_for(td, paths, 7)
    for v in v2.values():
        v.fill_(2.0)
    return Call(lambda x: x.addcdiv_(o1, o2, value=2), {"m": "addcdiv_"}, args=[o1, o2],
                expect=lambda p, v: v.clone().addcdiv_(v1[p], v2[p], value=2))


@op("lerp_", "lerp_", "inplace")
def _lerp_(td, rng):
    paths = own_order(td)
    if not paths:
        return None
    o1, v1 = src_for(td, paths, 2)
    return Call(lambda x: x.lerp_(o1, 1.0), {"m": "lerp_"}, args=[o1], expect=lambda p, v: v.clone().lerp_(v1[p], 1.0))


@op("zero_", "zero_", "inplace")
def _zero_(td, rng):
    return Call(lambda x: x.zero_(), {"m": "zero_"}, expect=lambda p, v: v.clone().zero_())


@op("fill_", "fill_", "inplace")
def _fill_(td, rng):
    paths = leafpaths(td)
    if not paths:
        return None
    p0 = rng.choice(paths)
    key = p0 if len(p0) > 1 else p0[0]
    if len(p0) > 1 and rng.random() < 0.3:
        # a nested node: every leaf below it is filled
        key = p0[:-1] if len(p0) > 2 else p0[0]
        pre = p0[:-1]
        return Call(lambda x: x.fill_(key, 777.0), {"m": "fill_", "key": list(pre), "node": True},
                    expect=lambda p, v: v.clone().fill_(777.0) if p[:len(pre)] == pre else v.clone())
    return Call(lambda x: x.fill_(key, 777.0), {"m": "fill_", "key": list(p0)},
                expect=lambda p, v: v.clone().fill_(777.0) if p == p0 else v.clone())


@op("masked_fill_", "masked_fill_", "inplace")
def _masked_fill_(td, rng):
    torch = T()["torch"]
    bs = td_bs(td)
    n = 1
    for s in bs:
        n *= s
    mask = torch.tensor([rng.random() < 0.5 for _ in range(n)], dtype=torch.bool).reshape(bs)
    if n:
        mask.view(-1)[0] = True

    def exp(p, v):
        v = v.clone()
        m = mask
        while m.dim() < v.dim():
            m = m.unsqueeze(-1)
        return v.masked_fill_(m.expand_as(v), 555.0)
    return Call(lambda x: x.masked_fill_(mask, 555.0), {"m": "masked_fill_", "mask": mask.reshape(-1).tolist()},
                args=[mask], expect=exp)


@op("apply_:new", "apply_", "inplace")
def _apply_new(td, rng):
    return Call(lambda x: x.apply_(lambda t: t * 2 + 1), {"m": "apply_", "fn": "t*2+1"}, expect=lambda p, v: v * 2 + 1)


@op("apply_:inplace-fn", "apply_", "inplace")
def _apply_inpl(td, rng):
    return Call(lambda x: x.apply_(lambda t: t.add_(4.0)), {"m": "apply_", "fn": "t.add_(4)"}, expect=lambda p, v: v + 4)


@op("set_", "set_", "inplace")
def _set_(td, rng):
    paths = leafpaths(td)
    if not paths:
        return None
    p0 = rng.choice(paths)
    key = p0 if len(p0) > 1 else p0[0]
    val = fresh_like(unwrap(td).get(p0), 1000)
    return Call(lambda x: x.set_(key, val), {"m": "set_", "key": list(p0)}, args=[val],
                expect=lambda p, v: val.clone() if p == p0 else v.clone())


@op("set_:node", "set_", "inplace")
def _set_node(td, rng):
    paths = [p for p in leafpaths(td) if len(p) > 1]
    if not paths:
        return None
    pre = rng.choice(paths)[:1]
    sub = [p for p in leafpaths(td) if p[:1] == pre]
    TD = T()["TD"]
    d, vals = {}, {}
    for i, p in enumerate(sub):
        v = fresh_like(unwrap(td).get(p), 1100 + 50 * i)
        vals[p] = v
        cur = d
        for k in p[1:-1]:
            cur = cur.setdefault(k, {})
        cur[p[-1]] = v
    try:
        nbs = list(unwrap(td).get(pre[0]).batch_size)
    except Exception:  # noqa: BLE001
        return None
    val = TD(d, batch_size=nbs)
    return Call(lambda x: x.set_(pre[0], val), {"m": "set_", "key": list(pre), "node": True}, args=[val],
                expect=lambda p, v: vals[p].clone() if p in vals else v.clone())


@op("set:inplace=True", "set", "inplace")
def _set_inpl(td, rng):
    paths = leafpaths(td)
    if not paths:
        return None
    p0 = rng.choice(paths)
    key = p0 if len(p0) > 1 else p0[0]
    val = fresh_like(unwrap(td).get(p0), 1200)
    return Call(lambda x: x.set(key, val, inplace=True), {"m": "set", "key": list(p0), "inplace": True}, args=[val],
                expect=lambda p, v: val.clone() if p == p0 else v.clone())


def _subset(paths, rng):
    k = rng.randint(1, len(paths))
    return sorted(rng.sample(paths, k))


@op("update_", "update_", "inplace")
def _update_(td, rng):
    paths = leafpaths(td)
    if not paths:
        return None
    sel = _subset(paths, rng)
    as_dict = rng.random() < 0.3
    src, vals = src_for(td, sel, 1300, as_dict=as_dict, order_rev=rng.random() < 0.5)
    clone = rng.random() < 0.3
    return Call(lambda x: x.update_(src, clone=clone), {"m": "update_", "keys": [list(p) for p in sel], "dict": as_dict, "clone": clone},
                args=[src], expect=lambda p, v: vals[p].clone() if p in vals else v.clone())


@op("update_:keys_to_update", "update_", "inplace")
def _update_ktu(td, rng):
    paths = leafpaths(td)
    if not paths:
        return None
    sel = _subset(paths, rng)
    ktu = _subset(sel, rng)
    src, vals = src_for(td, sel, 1400)
    return Call(lambda x: x.update_(src, keys_to_update=[p if len(p) > 1 else p[0] for p in ktu]),
                {"m": "update_", "keys": [list(p) for p in sel], "keys_to_update": [list(p) for p in ktu]},
                args=[src], expect=lambda p, v: vals[p].clone() if p in ktu else v.clone())


@op("copy_", "copy_", "inplace")
def _copy_(td, rng):
    paths = leafpaths(td)
    if not paths:
        return None
    src, vals = src_for(td, paths, 1500)
    return Call(lambda x: x.copy_(src), {"m": "copy_"}, args=[src], expect=lambda p, v: vals[p].clone())


@op("update:inplace=True", "update", "inplace")
def _update_inpl(td, rng):
    paths = leafpaths(td)
    if not paths:
        return None
    sel = _subset(paths, rng)
    src, vals = src_for(td, sel, 1600)
    return Call(lambda x: x.update(src, inplace=True), {"m": "update", "inplace": True, "keys": [list(p) for p in sel]},
                args=[src], expect=lambda p, v: vals[p].clone() if p in vals else v.clone())


def _at_expect(idx, value_of):
    def exp(p, v):
        v = v.clone()
        v[idx] = value_of(p)
        return v
    return exp


def _index_for_write(td, rng):
    """an index without repeated positions (torch leaves duplicate-position writes unspecified)"""
    bs = td_bs(td)
    if not bs:
        return None
    idx, basic = gen_index(bs, rng, adv=rng.random() < 0.4)
    if isinstance(unwrap(td), T()["Lazy"]):
        # the placement of indexed writes on a lazy stack with None in the index is C08's subject (finding D35)
        if isinstance(idx, tuple):
            idx = tuple(i for i in idx if i is not None) or slice(None)
            if isinstance(idx, tuple) and len(idx) == 1:
                idx = idx[0]
        elif idx is None:
            idx = slice(None)
    return idx


def _desc_idx(idx):
    torch = T()["torch"]

    def one(i):
        if isinstance(i, slice):
            return ["slice", i.start, i.stop, i.step]
        if isinstance(i, torch.Tensor):
            return ["tensor", str(i.dtype).split(".")[-1], i.tolist()]
        return i
    return [one(i) for i in idx] if isinstance(idx, tuple) else one(idx)


@op("set_at_", "set_at_", "inplace")
def _set_at_(td, rng):
    paths = leafpaths(td)
    idx = _index_for_write(td, rng)
    if not paths or idx is None:
        return None
    p0 = rng.choice(paths)
    key = p0 if len(p0) > 1 else p0[0]
    try:
        val = fresh_like(unwrap(td).get(p0)[idx], 1700)
    except Exception:  # noqa: BLE001
        return None
    return Call(lambda x: x.set_at_(key, val, idx), {"m": "set_at_", "key": list(p0), "idx": _desc_idx(idx)}, args=[val],
                expect=lambda p, v: _at_expect(idx, lambda q: val)(p, v) if p == p0 else v.clone())


def _src_at(td, sel, idx, base):
    TD = T()["TD"]
    d, vals = {}, {}
    bs_i = None
    for i, p in enumerate(sel):
        v = fresh_like(unwrap(td).get(p)[idx], base + 50 * i)
        vals[p] = v
        cur = d
        for k in p[:-1]:
            cur = cur.setdefault(k, {})
        cur[p[-1]] = v
    torch = T()["torch"]
    bs_i = list(torch.zeros(td_bs(td))[idx].shape)
    return TD(d, batch_size=bs_i), vals


@op("update_at_", "update_at_", "inplace")
def _update_at_(td, rng):
    paths = leafpaths(td)
    idx = _index_for_write(td, rng)
    if not paths or idx is None:
        return None
    sel = _subset(paths, rng)
    try:
        src, vals = _src_at(td, sel, idx, 1800)
    except Exception:  # noqa: BLE001
        return None
    m = rng.choice(["update_at_", "copy_at_"])
    return Call(lambda x: getattr(x, m)(src, idx), {"m": m, "keys": [list(p) for p in sel], "idx": _desc_idx(idx)}, args=[src],
                expect=lambda p, v: _at_expect(idx, lambda q: vals[q])(p, v) if p in vals else v.clone())


@op("__setitem__:index", "__setitem__", "inplace")
def _setitem_idx(td, rng):
    paths = leafpaths(td)
    idx = _index_for_write(td, rng)
    if not paths or idx is None:
        return None
    kind = rng.choice(["scalar", "td"])
    torch = T()["torch"]
    bare = (isinstance(idx, list) or (isinstance(idx, torch.Tensor) and idx.dtype == torch.int64)
            or (isinstance(idx, tuple) and len(idx) == 1 and (isinstance(idx[0], list) or (isinstance(idx[0], torch.Tensor) and idx[0].dtype == torch.int64))))
    fl = {"bare_int_array_index": bool(bare)}
    if kind == "scalar":
        v888 = torch.tensor(888.0, dtype=dt())
        return Call(lambda x: x.__setitem__(idx, v888), {"m": "__setitem__", "idx": _desc_idx(idx), "value": 888.0},
                    expect=_at_expect(idx, lambda q: 888.0), flags=fl)
    try:
        src, vals = _src_at(td, paths, idx, 1900)
    except Exception:  # noqa: BLE001
        return None
    return Call(lambda x: x.__setitem__(idx, src), {"m": "__setitem__", "idx": _desc_idx(idx), "value": "td"}, args=[src],
                expect=_at_expect(idx, lambda q: vals[q]), flags=fl)


@op("set_:missing-key", "set_", "inplace")
def _set_missing(td, rng):
    """set_ on a key that does not exist (directly, below an existing node, below a missing node): whatever the outcome, the
    key set must stay what it was"""
    bs = td_bs(td)
    p0 = rng.choice([("zz",), ("n", "zz"), ("qq", "zz"), ("qq", "rr", "zz")])
    have = set(keyset(td))
    missing_parent = len(p0) > 1 and "/".join(p0[:-1]) not in have
    val = fresh_like(T()["torch"].zeros(bs + [2]), 2600)
    return Call(lambda x: x.set_(p0 if len(p0) > 1 else p0[0], val), {"m": "set_", "key": list(p0), "missing": True}, args=[val],
                flags={"missing_intermediate_node": missing_parent})


# ---------------------------------------------------------------------------------------------- in-place writes whose VALUE aliases the destination
def extent(t):
    c = cells(t)
    return (min(c), max(c) - min(c) + 1) if c else (0, 0)


def sibling_of(t, how="sibling"):
    """a view of the SAME storage as t with t's shape: 'sibling' = disjoint cells (the next row of the buffer), 'overlap' = shifted by
    one cell (partially overlapping), 'same' = t itself, 'expanded' = one row of the sibling expanded to t's shape,
    'expanded-self' = t's own first row expanded over t.  None when the storage has no room for it."""
    if t.numel() == 0:
        return None
    if how == "same":
        return t
    lo, span = extent(t)
    total = t.untyped_storage().nbytes() // t.element_size()
    if how == "sibling":
        off = t.storage_offset() + span
    elif how == "overlap":
        off = t.storage_offset() + 1
    elif how in ("expanded", "expanded-self"):
        if t.dim() == 0 or t.shape[0] < 2:
            return None
        base = sibling_of(t, "sibling") if how == "expanded" else t
        return None if base is None else base[:1].expand_as(t)
    else:
        raise ValueError(how)
    if lo - t.storage_offset() + off + span > total:
        return None
    return t.as_strided(tuple(t.shape), tuple(t.stride()), off)


ALIAS_HOWS = ["sibling", "sibling", "same", "overlap", "expanded", "expanded-self"]


def twin_reference(pairs, refop):
    """what torch leaves in the storage when `refop(dest, value)` runs on plain tensors laid out exactly like the real ones
    (same storage content, same views).  pairs: [(dest, value)], value in dest's storage or in its own.
    Returns {storage ptr of dest: expected flat content} or the exception class name torch raised."""
    torch = T()["torch"]
    twins = {}

    def tw(x):
        p = sptr(x)
        if p not in twins:
            twins[p] = flat(x).clone()
        return twins[p].as_strided(tuple(x.shape), tuple(x.stride()), x.storage_offset())
    try:
        import warnings
        with warnings.catch_warnings():
            warnings.simplefilter("ignore")
            for d, v in pairs:
                refop(tw(d), tw(v) if isinstance(v, torch.Tensor) and v.numel() else v)
    except Exception as e:  # noqa: BLE001
        return type(e).__name__
    return {sptr(d): twins[sptr(d)] for d, _ in pairs}


def _own_leaf(td, p):
    """the td-level entry when it is (a view of) a tensor the container is built on, else None (lazy stacks stack copies)"""
    try:
        d = unwrap(td).get(p)
    except Exception:  # noqa: BLE001
        return None
    if not is_tensor(d) or d.numel() == 0:
        return None
    own = {sptr(v) for _, v in existing(td)}
    return d if sptr(d) in own else None


def _alias_value(td, p, rng, how=None):
    d = _own_leaf(td, p)
    if d is None:
        return None, None, None
    how = how or rng.choice(ALIAS_HOWS)
    v = sibling_of(d, how)
    if v is None:
        how, v = "same", d
    return d, v, how


@op("set_:alias", "set_", "inplace")
def _set_alias(td, rng):
    paths = leafpaths(td)
    if not paths:
        return None
    p0 = rng.choice(paths)
    d, v, how = _alias_value(td, p0, rng)
    if d is None:
        return None
    key = p0 if len(p0) > 1 else p0[0]
    m = rng.choice(["set_", "set(inplace=True)"])
    f = (lambda x: x.set_(key, v)) if m == "set_" else (lambda x: x.set(key, v, inplace=True))
    return Call(f, {"m": m, "key": list(p0), "value": "alias:" + how}, args=[v], flags={"alias": how},
                alias=([(d, v)], lambda a, b: a.copy_(b)))


@op("set_:alias-other-key", "set_", "inplace")
def _set_alias_other_key(td, rng):
    """the value is the ENTRY OF ANOTHER KEY carved from the same buffer (obs <- next_obs of one pre-allocated buffer)"""
    paths = [p for p in leafpaths(td) if len(p) == 1]
    if not paths or unwrap(td).is_locked or isinstance(unwrap(td), T()["Sub"]):
        return None
    p0 = rng.choice(paths)
    d = _own_leaf(td, p0)
    v = sibling_of(d, "sibling") if d is not None else None
    if v is None:
        return None
    try:
        td.set("zsibling", v)          # set-up (before the snapshot): a second key bound to the sibling view
    except Exception:  # noqa: BLE001
        return None
    return Call(lambda x: x.set_(p0[0], x.get("zsibling")), {"m": "set_", "key": list(p0), "value": "alias:entry-of-another-key"},
                args=[v], flags={"alias": "other-key"}, alias=([(d, v)], lambda a, b: a.copy_(b)))


@op("update_:alias", "update_", "inplace")
def _update_alias(td, rng):
    paths = leafpaths(td)
    if not paths:
        return None
    sel = _subset(paths, rng)
    how = rng.choice(ALIAS_HOWS)
    pairs, d_ = [], {}
    for p in sel:
        d, v, _ = _alias_value(td, p, rng, how)
        if d is None:
            return None
        pairs.append((d, v))
        cur = d_
        for k in p[:-1]:
            cur = cur.setdefault(k, {})
        cur[p[-1]] = v
    try:
        src = T()["TD"](d_, batch_size=td_bs(td))
    except Exception:  # noqa: BLE001
        return None
    m = rng.choice(["update_", "copy_" if len(sel) == len(paths) else "update_", "update(inplace=True)"])
    f = {"update_": lambda x: x.update_(src), "copy_": lambda x: x.copy_(src), "update(inplace=True)": lambda x: x.update(src, inplace=True)}[m]
    # the order of the writes is the receiver's key order for update_/copy_ and the source's for update; with disjoint entries it is immaterial
    return Call(f, {"m": m, "keys": [list(p) for p in sel], "value": "alias:" + how}, args=[src], flags={"alias": how},
                alias=(pairs, lambda a, b: a.copy_(b)))


@op("apply_:alias", "apply_", "inplace")
def _apply_alias(td, rng):
    paths = leafpaths(td)
    if not paths:
        return None
    how = rng.choice(["sibling", "sibling", "overlap", "expanded"])
    pairs = []
    for p in paths:
        d, v, _ = _alias_value(td, p, rng, how)
        if d is None:
            return None
        pairs.append((d, v))

    def fn(t):
        v = sibling_of(t, how)
        return t if v is None else v
    return Call(lambda x: x.apply_(fn), {"m": "apply_", "fn": "alias:" + how}, flags={"alias": how},
                alias=(pairs, lambda a, b: a.copy_(b)))


@op("set_at_:alias", "set_at_", "inplace")
def _set_at_alias(td, rng):
    paths = leafpaths(td)
    idx = _index_for_write(td, rng)
    if not paths or idx is None:
        return None
    p0 = rng.choice(paths)
    d, v, how = _alias_value(td, p0, rng, rng.choice(["sibling", "sibling", "same", "overlap"]))
    if d is None:
        return None
    try:
        vi = v[idx]
    except Exception:  # noqa: BLE001
        return None
    key = p0 if len(p0) > 1 else p0[0]
    return Call(lambda x: x.set_at_(key, vi, idx), {"m": "set_at_", "key": list(p0), "idx": _desc_idx(idx), "value": "alias:" + how},
                args=[vi], flags={"alias": how}, alias=([(d, v)], lambda a, b: a.__setitem__(idx, b[idx])))


@op("add_:alias", "add_", "inplace")
def _add_alias(td, rng):
    paths = own_order(td)
    if not paths:
        return None
    how = rng.choice(["sibling", "sibling", "same", "expanded"])
    pairs, d_ = [], {}
    for p in paths:
        d, v, _ = _alias_value(td, p, rng, how)
        if d is None:
            return None
        pairs.append((d, v))
        cur = d_
        for k in p[:-1]:
            cur = cur.setdefault(k, {})
        cur[p[-1]] = v
    try:
        src = T()["TD"](d_, batch_size=td_bs(td))
        if T()["is_tc"](td):
            src = type(td).from_tensordict(src)
    except Exception:  # noqa: BLE001
        return None
    name = rng.choice(["add_", "mul_", "sub_"])
    return Call(lambda x: getattr(x, name)(src), {"m": name, "other": "alias:" + how}, args=[src], flags={"alias": how},
                alias=(pairs, lambda a, b: getattr(a, name)(b)))


# ---------------------------------------------------------------------------------------------- out-of-place: fresh results
UNARY_OOP = [n[:-1] for n in UNARY_EXACT + UNARY_INEXACT]


def _mk_oop_unary(name):
    def make(td, rng):
        return Call(lambda x: getattr(x, name)(), {"m": name})
    OPS.append(Op(name, name, "copy", make))


for _n in UNARY_OOP + ["__neg__", "__abs__", "isfinite", "isnan", "isneginf", "isposinf", "isreal", "float", "int", "half",
                       "bool", "float32", "int64", "bfloat16"]:
    _mk_oop_unary(_n)


def _mk_oop_binary(name):
    base = name[:-1]

    def make_scalar(td, rng):
        c = rng.choice(BINARY[name] or [3.0])
        return Call(lambda x: getattr(x, base)(c), {"m": base, "other": c})

    def make_td(td, rng):
        paths = leafpaths(td)
        if not paths:
            return None
        other, vals = src_for(td, paths, 2)
        if T()["is_tc"](td):
            try:
                other = type(td).from_tensordict(other)
            except Exception:  # noqa: BLE001
                pass
        return Call(lambda x: getattr(x, base)(other), {"m": base, "other": "td"}, args=[other])
    if BINARY[name] is not None:
        OPS.append(Op(base + ":scalar", base, "copy", make_scalar))
    OPS.append(Op(base + ":td", base, "copy", make_td))


for _n in BINARY:
    _mk_oop_binary(_n)

for _dn, _f in [("__add__", lambda x: x + 3.0), ("__radd__", lambda x: 3.0 + x), ("__sub__", lambda x: x - 3.0),
                ("__rsub__", lambda x: 3.0 - x), ("__mul__", lambda x: x * 2.0), ("__rmul__", lambda x: 2.0 * x),
                ("__truediv__", lambda x: x / 2.0), ("__pow__", lambda x: x ** 2.0),
                ("__eq__", lambda x: x == 2.0), ("__ne__", lambda x: x != 2.0), ("__lt__", lambda x: x < 2.0),
                ("__le__", lambda x: x <= 2.0), ("__gt__", lambda x: x > 2.0), ("__ge__", lambda x: x >= 2.0)]:
    OPS.append(Op(_dn, _dn, "copy", (lambda f, n: (lambda td, rng: Call(f, {"m": n})))(_f, _dn)))


@op("addcmul", "addcmul", "copy")
def _addcmul(td, rng):
    paths = own_order(td)
    if not paths:
        return None
    o1, _ = src_for(td, paths, 2)
    o2, _ = src_for(td, paths, 7)
    return Call(lambda x: x.addcmul(o1, o2, value=2), {"m": "addcmul"}, args=[o1, o2])


@op("addcdiv", "addcdiv", "copy")
def _addcdiv(td, rng):
    paths = own_order(td)
    if not paths:
        return None
    o1, _ = src_for(td, paths, 2)
    o2, _ = src_for(td, paths, 7)
    return Call(lambda x: x.addcdiv(o1, o2, value=2), {"m": "addcdiv"}, args=[o1, o2])


@op("lerp", "lerp", "copy")
def _lerp(td, rng):
    paths = own_order(td)
    if not paths:
        return None
    o1, _ = src_for(td, paths, 2)
    return Call(lambda x: x.lerp(o1, 0.5), {"m": "lerp"}, args=[o1])


@op("clamp", "clamp", "copy")
def _clamp(td, rng):
    return Call(lambda x: x.clamp(-3.0, 3.0), {"m": "clamp"})


@op("clone", "clone", "copy")
def _clone(td, rng):
    return Call(lambda x: x.clone(), {"m": "clone"})


@op("to_tensordict", "to_tensordict", "copy")
def _to_tensordict(td, rng):
    return Call(lambda x: x.to_tensordict(), {"m": "to_tensordict"})


@op("densify:lazy", "densify", "copy")
def _densify(td, rng):
    if not isinstance(unwrap(td), T()["Lazy"]):
        return None
    return Call(lambda x: x.densify(), {"m": "densify"})


@op("masked_fill", "masked_fill", "copy")
def _masked_fill(td, rng):
    c = _masked_fill_(td, rng)
    mask = c.args[0]
    return Call(lambda x: x.masked_fill(mask, 555.0), {"m": "masked_fill"}, args=[mask])


@op("masked_select", "masked_select", "copy")
def _masked_select(td, rng):
    c = _masked_fill_(td, rng)
    mask = c.args[0]
    return Call(lambda x: x.masked_select(mask), {"m": "masked_select"}, args=[mask])


@op("where", "where", "copy")
def _where(td, rng):
    c = _masked_fill_(td, rng)
    mask = c.args[0]
    paths = leafpaths(td)
    if not paths:
        return None
    other, _ = src_for(td, paths, 2)
    if rng.random() < 0.5:
        return Call(lambda x: x.where(mask, 0.0), {"m": "where", "other": 0.0}, args=[mask])
    return Call(lambda x: x.where(mask, other), {"m": "where", "other": "td"}, args=[mask, other])


@op("apply:new", "apply", "copy")
def _apply(td, rng):
    return Call(lambda x: x.apply(lambda t: t * 2 + 1), {"m": "apply", "fn": "t*2+1"})


@op("named_apply:new", "named_apply", "copy")
def _named_apply(td, rng):
    return Call(lambda x: x.named_apply(lambda n, t: t * 2 + 1, nested_keys=True), {"m": "named_apply", "fn": "t*2+1"})


def _mk_reduce(name):
    def make(td, rng):
        bs = td_bs(td)
        if not bs or rng.random() < 0.3:
            return Call(lambda x: getattr(x, name)(), {"m": name})
        d = rng.randrange(len(bs))
        return Call(lambda x: getattr(x, name)(dim=d), {"m": name, "dim": d})
    OPS.append(Op(name, name, "copy", make))


for _n in ["sum", "mean", "prod", "nansum", "nanmean", "std", "var", "amax", "amin", "max", "min", "norm", "logsumexp"]:
    _mk_reduce(_n)


@op("cummax", "cummax", "copy")
def _cummax(td, rng):
    bs = td_bs(td)
    if not bs:
        return None
    d = rng.randrange(len(bs))
    m = rng.choice(["cummax", "cummin"])
    return Call(lambda x: getattr(x, m)(dim=d), {"m": m, "dim": d})


@op("softmax", "softmax", "copy")
def _softmax(td, rng):
    bs = td_bs(td)
    if not bs:
        return None
    d = rng.randrange(len(bs))
    return Call(lambda x: x.softmax(dim=d), {"m": "softmax", "dim": d})


@op("gather", "gather", "copy")
def _gather(td, rng):
    torch = T()["torch"]
    bs = td_bs(td)
    if not bs or 0 in bs:
        return None
    d = rng.randrange(len(bs))
    index = torch.zeros(bs, dtype=torch.int64)
    return Call(lambda x: x.gather(d, index), {"m": "gather", "dim": d}, args=[index])


@op("repeat", "repeat", "copy")
def _repeat(td, rng):
    bs = td_bs(td)
    if not bs:
        return None
    reps = [rng.choice([1, 2]) for _ in bs]
    if all(r == 1 for r in reps):
        reps[0] = 2
    return Call(lambda x: x.repeat(*reps), {"m": "repeat", "reps": reps})


@op("repeat_interleave", "repeat_interleave", "copy")
def _repeat_interleave(td, rng):
    bs = td_bs(td)
    if not bs:
        return None
    d = rng.randrange(len(bs))
    return Call(lambda x: x.repeat_interleave(2, dim=d), {"m": "repeat_interleave", "dim": d})


@op("torch.stack", "stack", "copy")
def _stack(td, rng):
    torch = T()["torch"]
    d = rng.randrange(len(td_bs(td)) + 1)
    return Call(lambda x: torch.stack([x, x], d), {"m": "torch.stack", "dim": d})


@op("torch.cat", "cat", "copy")
def _cat(td, rng):
    torch = T()["torch"]
    bs = td_bs(td)
    if not bs:
        return None
    d = rng.randrange(len(bs))
    return Call(lambda x: torch.cat([x, x], d), {"m": "torch.cat", "dim": d})


@op("new_zeros", "new_zeros", "copy")
def _new_zeros(td, rng):
    m = rng.choice(["new_zeros", "new_ones"])
    return Call(lambda x: getattr(x, m)(2, 2), {"m": m})


@op("new_full", "new_full", "copy")
def _new_full(td, rng):
    return Call(lambda x: x.new_full((2,), 3.0), {"m": "new_full"})


@op("consolidate", "consolidate", "copy")
def _consolidate(td, rng):
    return Call(lambda x: x.consolidate(), {"m": "consolidate"})


@op("__getitem__:advanced", "__getitem__", "copy")
def _getitem_adv(td, rng):
    bs = td_bs(td)
    if not bs:
        return None
    idx, basic = gen_index(bs, rng, adv=True)
    if basic:
        return None
    return Call(lambda x: x[idx], {"m": "__getitem__", "idx": _desc_idx(idx)}, rule=lambda leaf: leaf[idx])


OPS[-1].cls = "rule"   # judged by what torch does with the same index on the leaf (always a copy for these indices)


# ---------------------------------------------------------------------------------------------- out-of-place: views
@op("__getitem__:basic", "__getitem__", "view")
def _getitem_basic(td, rng):
    bs = td_bs(td)
    if not bs:
        return None
    idx, basic = gen_index(bs, rng, adv=False)
    return Call(lambda x: x[idx], {"m": "__getitem__", "idx": _desc_idx(idx)})


@op("get", "get", "view")
def _get(td, rng):
    ks = [k for k in keyset(td)]
    if not ks:
        return None
    k = tuple(rng.choice(ks).split("/"))
    return Call(lambda x: x.get(k), {"m": "get", "key": list(k)})


@op("__getitem__:key", "__getitem__", "view")
def _getitem_key(td, rng):
    ks = [k for k in keyset(td)]
    if not ks:
        return None
    k = tuple(rng.choice(ks).split("/"))
    return Call(lambda x: x[k if len(k) > 1 else k[0]], {"m": "__getitem__", "key": list(k)})


@op("get_at:basic", "get_at", "view")
def _get_at(td, rng):
    bs = td_bs(td)
    paths = leafpaths(td)
    if not bs or not paths:
        return None
    idx, _ = gen_index(bs, rng, adv=False)
    p0 = rng.choice(paths)
    return Call(lambda x: x.get_at(p0 if len(p0) > 1 else p0[0], idx), {"m": "get_at", "key": list(p0), "idx": _desc_idx(idx)})


@op("items/values", "values", "view")
def _values(td, rng):
    m = rng.choice(["values", "items"])
    return Call(lambda x: list(getattr(x, m)(True, True)), {"m": m})


@op("permute", "permute", "view")
def _permute(td, rng):
    bs = td_bs(td)
    dims = list(range(len(bs)))
    rng.shuffle(dims)
    if rng.random() < 0.5:
        return Call(lambda x: x.permute(dims), {"m": "permute", "dims": dims})
    return Call(lambda x: x.permute(*dims), {"m": "permute", "dims": dims})


@op("transpose", "transpose", "view")
def _transpose(td, rng):
    bs = td_bs(td)
    if len(bs) < 1:
        return None
    d0, d1 = rng.randrange(len(bs)), rng.randrange(len(bs))
    return Call(lambda x: x.transpose(d0, d1), {"m": "transpose", "dims": [d0, d1]})


@op("squeeze", "squeeze", "view")
def _squeeze(td, rng):
    bs = td_bs(td)
    if not bs or rng.random() < 0.3:
        return Call(lambda x: x.squeeze(), {"m": "squeeze"})
    d = rng.randrange(len(bs))
    return Call(lambda x: x.squeeze(d), {"m": "squeeze", "dim": d})


@op("unsqueeze", "unsqueeze", "view")
def _unsqueeze(td, rng):
    bs = td_bs(td)
    d = rng.randrange(-len(bs) - 1, len(bs) + 1)
    return Call(lambda x: x.unsqueeze(d), {"m": "unsqueeze", "dim": d})


@op("expand", "expand", "view")
def _expand(td, rng):
    bs = td_bs(td)
    shape = [2] + bs
    m = rng.choice(["expand", "expand_as"])
    if m == "expand_as":
        other = T()["TD"]({"x": T()["torch"].zeros(shape)}, batch_size=shape)
        return Call(lambda x: x.expand_as(other), {"m": m, "shape": shape})
    return Call(lambda x: x.expand(*shape), {"m": m, "shape": shape})


@op("view", "view", "view")
def _view(td, rng):
    bs = td_bs(td)
    n = 1
    for s in bs:
        n *= s
    shape = rng.choice([[n], [-1], [1, n], bs + [1]]) if bs else [1]
    return Call(lambda x: x.view(*shape), {"m": "view", "shape": shape}, rule=lambda leaf, nb=len(bs): leaf.view(*[s for s in shape], *leaf.shape[nb:]))


OPS[-1].cls = "view-or-reject"   # torch's view either aliases or raises; a lazy stack may have to densify (then: rule of the leaf)


@op("unflatten", "unflatten", "view")
def _unflatten(td, rng):
    bs = td_bs(td)
    if not bs:
        return None
    d = rng.randrange(len(bs))
    return Call(lambda x: x.unflatten(d, (1, bs[d])), {"m": "unflatten", "dim": d})


@op("unbind", "unbind", "view")
def _unbind(td, rng):
    bs = td_bs(td)
    if not bs:
        return None
    d = rng.randrange(len(bs))
    return Call(lambda x: x.unbind(d), {"m": "unbind", "dim": d})


@op("split", "split", "view")
def _split(td, rng):
    bs = td_bs(td)
    if not bs:
        return None
    d = rng.randrange(len(bs))
    if bs[d] == 0:
        return None
    if rng.random() < 0.5:
        s = rng.randint(1, max(bs[d], 1))
        return Call(lambda x: x.split(s, d), {"m": "split", "size": s, "dim": d})
    a = rng.randint(0, bs[d])
    sizes = [a, bs[d] - a]
    return Call(lambda x: x.split(sizes, d), {"m": "split", "size": sizes, "dim": d})


@op("chunk", "chunk", "view")
def _chunk(td, rng):
    bs = td_bs(td)
    if not bs:
        return None
    d = rng.randrange(len(bs))
    if bs[d] == 0:
        return None
    c = rng.randint(1, 3)
    return Call(lambda x: x.chunk(c, d), {"m": "chunk", "chunks": c, "dim": d})


@op("__iter__", "__iter__", "view")
def _iter(td, rng):
    if not td_bs(td):
        return None
    return Call(lambda x: list(iter(x)), {"m": "__iter__"})


def _some_keys(td, rng):
    ks = keyset(td)
    if not ks:
        return []
    k = rng.randint(1, len(ks))
    out = []
    for s in rng.sample(ks, k):
        p = tuple(s.split("/"))
        out.append(p if len(p) > 1 else p[0])
    return out


@op("select", "select", "view")
def _select(td, rng):
    ks = _some_keys(td, rng)
    return Call(lambda x: x.select(*ks), {"m": "select", "keys": [list(k) if isinstance(k, tuple) else [k] for k in ks]})


@op("exclude", "exclude", "view")
def _exclude(td, rng):
    ks = _some_keys(td, rng)
    return Call(lambda x: x.exclude(*ks), {"m": "exclude", "keys": [list(k) if isinstance(k, tuple) else [k] for k in ks]})


@op("copy", "copy", "view")
def _copy(td, rng):
    m = rng.choice(["copy", "clone(False)"])
    if m == "copy":
        return Call(lambda x: x.copy(), {"m": m})
    return Call(lambda x: x.clone(False), {"m": m})


@op("flatten_keys", "flatten_keys", "view")
def _flatten_keys(td, rng):
    sep = rng.choice([".", "_", "/"])
    return Call(lambda x: x.flatten_keys(sep), {"m": "flatten_keys", "sep": sep})


@op("unflatten_keys", "unflatten_keys", "view")
def _unflatten_keys(td, rng):
    return Call(lambda x: x.flatten_keys(".").unflatten_keys("."), {"m": "flatten_keys+unflatten_keys"})


@op("data", "data", "view")
def _data(td, rng):
    m = rng.choice(["data", "detach"])
    if m == "data":
        return Call(lambda x: x.data, {"m": m})
    return Call(lambda x: x.detach(), {"m": m})


@op("to_dict", "to_dict", "view")
def _to_dict(td, rng):
    return Call(lambda x: x.to_dict(), {"m": "to_dict"})


@op("replace", "replace", "view")
def _replace(td, rng):
    paths = leafpaths(td)
    if not paths:
        return None
    p0 = rng.choice(paths)
    v = fresh_like(unwrap(td).get(p0), 2100)
    return Call(lambda x: x.replace({(p0 if len(p0) > 1 else p0[0]): v}), {"m": "replace", "key": list(p0)}, args=[v])


@op("split_keys", "split_keys", "view")
def _split_keys(td, rng):
    ks = _some_keys(td, rng)
    return Call(lambda x: x.split_keys(ks), {"m": "split_keys"})


@op("empty", "empty", "view")
def _empty(td, rng):
    r = rng.random() < 0.5
    return Call(lambda x: x.empty(recurse=r), {"m": "empty", "recurse": r})


@op("_get_sub_tensordict", "__getitem__", "view")
def _get_sub(td, rng):
    bs = td_bs(td)
    if not bs:
        return None
    idx, _ = gen_index(bs, rng, adv=False)
    return Call(lambda x: x._get_sub_tensordict(idx), {"m": "_get_sub_tensordict", "idx": _desc_idx(idx)})


# ---------------------------------------------------------------------------------------------- rule = what torch does on the leaf
@op("contiguous", "contiguous", "rule")
def _contiguous(td, rng):
    return Call(lambda x: x.contiguous(), {"m": "contiguous"}, rule=lambda leaf: leaf.contiguous())


@op("reshape", "reshape", "rule")
def _reshape(td, rng):
    bs = td_bs(td)
    n = 1
    for s in bs:
        n *= s
    shape = rng.choice([[n], [-1], [1, n], bs + [1], list(reversed(bs))]) if bs else [1]
    nb = len(bs)
    return Call(lambda x: x.reshape(*shape), {"m": "reshape", "shape": shape},
                rule=lambda leaf: leaf.reshape(*shape, *leaf.shape[nb:]))


@op("flatten", "flatten", "rule")
def _flatten(td, rng):
    bs = td_bs(td)
    if len(bs) < 2:
        return None
    a = rng.randrange(0, len(bs) - 1)
    b = rng.randrange(a + 1, len(bs))
    return Call(lambda x: x.flatten(a, b), {"m": "flatten", "dims": [a, b]}, rule=lambda leaf: leaf.flatten(a, b))


@op("to:same", "to", "rule")
def _to_same(td, rng):
    torch = T()["torch"]
    m = rng.choice(["to(float64)", "double", "cpu", "to(cpu)", "float64"])
    f = {"to(float64)": lambda x: x.to(torch.float64), "double": lambda x: x.double(), "cpu": lambda x: x.cpu(),
         "to(cpu)": lambda x: x.to("cpu"), "float64": lambda x: x.float64()}[m]
    return Call(f, {"m": m}, rule=lambda leaf: leaf.to(torch.float64))


@op("apply:identity", "apply", "rule")
def _apply_id(td, rng):
    return Call(lambda x: x.apply(lambda t: t), {"m": "apply", "fn": "identity"}, rule=lambda leaf: leaf)


@op("__getitem__:any", "__getitem__", "rule")
def _getitem_any(td, rng):
    bs = td_bs(td)
    if not bs:
        return None
    idx, basic = gen_index(bs, rng, adv=rng.random() < 0.5)
    return Call(lambda x: x[idx], {"m": "__getitem__", "idx": _desc_idx(idx)}, rule=lambda leaf: leaf[idx])


def _c03():
    from . import c03
    return c03


def c03_index(bs, rng):
    """an index of the C03 grammar (ints, slices, None, Ellipsis, bare range / list / numpy array / integer tensor / 0-dim tensor /
    boolean mask, alone and in tuples).  Returns (index for the tensordict, index for an entry, descriptors, single)."""
    c03 = _c03()
    descs = c03.gen_index(rng, tuple(bs))
    if not descs:
        descs = [rng.choice([["range", min(2, bs[0])], ["list", [0]], ["sl", None, None, None]])] if bs else [["non"]]
    if rng.random() < 0.25 and bs and bs[0] > 0:
        # the bare array-like forms, alone
        n = bs[0]
        descs = [rng.choice([["range", rng.randint(1, n)], ["list", rng.sample(range(n), rng.randint(1, n))],
                             ["np", rng.sample(range(n), rng.randint(1, n))], ["ten", rng.sample(range(n), rng.randint(1, n))],
                             ["mask", [rng.random() < 0.6 for _ in range(n)]]])]
    single = len(descs) == 1 and rng.random() < 0.7
    py = c03.to_py(descs)
    idx = py[0] if single else py
    leaf_idx = c03.along_batch(idx, descs, len(bs))
    return idx, leaf_idx, descs, single


@op("__getitem__:c03-grammar", "__getitem__", "rule")
def _getitem_c03(td, rng):
    """every index form, classified by what TORCH does with the same index on the entry: the result shares memory with the
    source iff torch's does"""
    bs = td_bs(td)
    if not bs:
        return None
    idx, leaf_idx, descs, single = c03_index(bs, rng)
    return Call(lambda x: x[idx], {"m": "__getitem__", "index": descs, "single": single}, rule=lambda leaf: leaf[leaf_idx],
                flags={"index_forms": sorted({d[0] for d in descs})})


# ---------------------------------------------------------------------------------------------- structure / metadata: no cell is written
@op("set:rebind", "set", "struct")
def _set_rebind(td, rng):
    paths = leafpaths(td)
    new = rng.random() < 0.4 or not paths
    if new:
        bs = td_bs(td)
        p0 = rng.choice([("z",), ("n", "z"), ("q", "r")])
        v = fresh_like(T()["torch"].zeros(bs + [2]), 2200)
    else:
        p0 = rng.choice(paths)
        v = fresh_like(unwrap(td).get(p0), 2200)
    key = p0 if len(p0) > 1 else p0[0]
    m = rng.choice(["set", "__setitem__"])
    if m == "set":
        return Call(lambda x: x.set(key, v), {"m": "set", "key": list(p0), "new": new}, args=[v])
    return Call(lambda x: x.__setitem__(key, v), {"m": "__setitem__", "key": list(p0), "new": new}, args=[v])


@op("update:rebind", "update", "struct")
def _update_rebind(td, rng):
    paths = leafpaths(td)
    if not paths:
        return None
    sel = _subset(paths, rng)
    src, vals = src_for(td, sel, 2300, as_dict=rng.random() < 0.3)
    clone = rng.random() < 0.3
    return Call(lambda x: x.update(src, clone=clone), {"m": "update", "keys": [list(p) for p in sel], "clone": clone}, args=[src])


@op("setdefault", "setdefault", "struct")
def _setdefault(td, rng):
    paths = leafpaths(td)
    bs = td_bs(td)
    if paths and rng.random() < 0.5:
        p0 = rng.choice(paths)
        v = fresh_like(unwrap(td).get(p0), 2400)
    else:
        p0 = ("zz",)
        v = fresh_like(T()["torch"].zeros(bs + [2]), 2400)
    return Call(lambda x: x.setdefault(p0 if len(p0) > 1 else p0[0], v), {"m": "setdefault", "key": list(p0)}, args=[v])


@op("del_", "del_", "struct")
def _del_(td, rng):
    ks = keyset(td)
    if not ks:
        return None
    k = tuple(rng.choice(ks).split("/"))
    key = k if len(k) > 1 else k[0]
    m = rng.choice(["del_", "pop", "__delitem__"])
    if m == "del_":
        return Call(lambda x: x.del_(key), {"m": m, "key": list(k)})
    if m == "pop":
        return Call(lambda x: x.pop(key), {"m": m, "key": list(k)})
    return Call(lambda x: x.__delitem__(key), {"m": m, "key": list(k)})


@op("rename_key_", "rename_key_", "struct")
def _rename_key_(td, rng):
    ks = [k for k in keyset(td) if "/" not in k]
    if not ks:
        return None
    k = rng.choice(ks)
    return Call(lambda x: x.rename_key_(k, k + "_r"), {"m": "rename_key_", "key": k})


@op("select:inplace", "select", "struct")
def _select_inpl(td, rng):
    ks = _some_keys(td, rng)
    m = rng.choice(["select", "exclude"])
    return Call(lambda x: getattr(x, m)(*ks, inplace=True), {"m": m, "inplace": True})


@op("flatten_keys:inplace", "flatten_keys", "struct")
def _flatten_keys_inpl(td, rng):
    return Call(lambda x: x.flatten_keys(".", inplace=True), {"m": "flatten_keys", "inplace": True})


@op("create_nested", "create_nested", "struct")
def _create_nested(td, rng):
    return Call(lambda x: x.create_nested("fresh_node"), {"m": "create_nested"})


@op("lock_/unlock_", "lock_", "struct")
def _lock(td, rng):
    def f(x):
        was = x.is_locked
        x.lock_()
        if not was:
            x.unlock_()
        return None
    return Call(f, {"m": "lock_/unlock_"})


@op("names", "rename_", "struct")
def _names(td, rng):
    bs = td_bs(td)
    if not bs:
        return None
    names = [f"d{i}" for i in range(len(bs))]
    m = rng.choice(["names=", "refine_names", "rename"])
    if m == "names=":
        def f(x):
            x.names = names
            x.names = [None] * len(names)
        return Call(f, {"m": m})
    if m == "refine_names":
        def g(x):
            r = x.refine_names(*names)
            x.names = [None] * len(names)
            return r
        return Call(g, {"m": m})
    return Call(lambda x: x.rename(*names), {"m": m})


@op("batch_size=", "batch_size", "struct")
def _batch_size(td, rng):
    bs = td_bs(td)
    if not bs:
        return None

    def f(x):
        x.batch_size = bs[:-1]
        x.batch_size = bs
    return Call(f, {"m": "batch_size="})


@op("auto_batch_size_", "auto_batch_size_", "struct")
def _auto_bs(td, rng):
    bs = td_bs(td)

    def f(x):
        x.auto_batch_size_(len(bs))
    return Call(f, {"m": "auto_batch_size_"})


@op("cat_tensors", "cat_tensors", "struct")
def _cat_tensors(td, rng):
    paths = [p for p in leafpaths(td) if len(p) == 1]
    if len(paths) < 1:
        return None
    m = rng.choice(["cat_tensors", "stack_tensors"])
    keep = rng.random() < 0.5
    ks = [p[0] for p in paths if unwrap(td).get(p).shape == unwrap(td).get(paths[0]).shape]
    return Call(lambda x: getattr(x, m)(*ks, out_key="catted", keep_entries=keep, dim=0 if not td_bs(td) else len(td_bs(td)) - 1),
                {"m": m, "keys": ks, "keep": keep})


@op("filter_empty_", "filter_empty_", "struct")
def _filter_empty_(td, rng):
    return Call(lambda x: x.filter_empty_(), {"m": "filter_empty_"})


@op("detach_", "detach_", "struct")
def _detach_(td, rng):
    return Call(lambda x: x.detach_(), {"m": "detach_"})


@op("requires_grad_", "requires_grad_", "struct")
def _requires_grad_(td, rng):
    return Call(lambda x: x.requires_grad_(False), {"m": "requires_grad_"})


# ---------------------------------------------------------------------------------------------- pure getters / predicates
PURE_NOARG = ["all", "any", "batch_dims", "batch_size", "bytes", "depth", "device", "dim", "dtype", "is_contiguous", "is_cpu",
              "is_cuda", "is_empty", "is_floating_point", "is_locked", "is_memmap", "is_shared", "is_consolidated", "keys",
              "names", "ndim", "ndimension", "numel", "param_count", "requires_grad", "shape", "size", "sorted_keys", "tolist",
              "numpy", "state_dict", "__len__", "__repr__", "__bool__:skip", "data_ptr", "grad", "non_tensor_items",
              "to_namedtuple", "to_pytree", "filter_non_tensor_data", "densify", "as_tensor", "to_struct_array", "__invert__:skip",
              "saved_path:skip", "entry_class:key", "get_item_shape:key", "__contains__:key", "cat_from_tensordict", "stack_from_tensordict",
              "to_padded_tensor", "zero_grad", "clear_refs_for_compile_", "__getstate__", "__reduce__"]


def _mk_pure(spec):
    name, _, how = spec.partition(":")
    if how == "skip":
        return

    def make(td, rng):
        if how == "key":
            ks = keyset(td)
            if not ks:
                return None
            k = tuple(rng.choice(ks).split("/"))
            return Call(lambda x: getattr(x, name)(k if len(k) > 1 else k[0]), {"m": name, "key": list(k)})
        a = inspect.getattr_static(type(unwrap(td)), name, None)
        if isinstance(a, property):
            return Call(lambda x: getattr(x, name), {"m": name})
        return Call(lambda x: getattr(x, name)(), {"m": name})
    OPS.append(Op(name, name, "pure", make))


for _s in PURE_NOARG:
    _mk_pure(_s)

SKIPPED = {
    "io": ["save", "dumps", "load", "load_", "load_memmap", "load_memmap_", "to_h5", "from_h5", "memmap_refresh_", "memmap",
           "memmap_", "memmap_like", "make_memmap", "make_memmap_from_storage", "make_memmap_from_tensor", "load_state_dict"],
    "distributed / multi-process (C12)": ["send", "recv", "isend", "irecv", "reduce", "gather_and_stack", "map", "map_iter"],
    "accelerator only": ["cuda", "pin_memory", "pin_memory_", "record_stream"],
    "constructors (no receiver state)": ["from_any", "from_consolidated", "from_dataclass", "from_dict", "from_dict_instance",
                                         "from_module", "from_modules", "from_namedtuple", "from_pytree", "from_struct_array", "from_tuple",
                                         "fromkeys", "lazy_stack", "maybe_dense_stack", "new_tensor"],
    "module swap (C13)": ["to_module"],
    "changes where storage lives by design": ["share_memory_", "clear_device_", "auto_device_"],
    "dtype families with no float64 source semantics (quantised/complex/unsigned casts)": [
        "qint32", "qint8", "quint4x2", "quint8", "complex128", "complex32", "complex64", "uint16", "uint32", "uint64", "uint8",
        "int16", "int32", "int8", "float16", "type", "bitwise_and", "logical_and", "__and__", "__or__", "__xor__", "__rand__",
        "__ror__", "__rxor__", "__invert__"],
    "context manager protocol (C17)": ["__enter__", "__exit__"],
    "non-tensor entries (C16)": ["set_non_tensor", "get_non_tensor"],
    "python object protocol": ["__class__", "__class_getitem__", "__delattr__", "__dir__", "__format__", "__getattribute__", "__init__",
                               "__init_subclass__", "__new__", "__reduce_ex__", "__setattr__", "__setstate__", "__sizeof__", "__str__",
                               "__subclasshook__", "__torch_function__", "__bool__", "__rpow__", "__rtruediv__", "__getitems__",
                               "__abstractmethods__", "__annotations__", "__dict__", "__doc__", "__hash__", "__module__", "__slots__",
                               "__weakref__", "__getstate__", "__reduce__", "__repr__", "__len__", "__contains__"],
    "needs state this harness does not build (key lists with semantics of their own, nested-tensor entries, saved paths)": [
        "clear", "popitem", "separates", "is_meta", "saved_path", "to_padded_tensor", "densify", "to_struct_array", "logsumexp"],
}


# =============================================================================================== running one case
S1, S2 = -12345.0, -54321.0
LAZY_READS = {"get", "__getitem__:key", "get_at:basic", "items/values", "to_dict"}
# reading a LEAF of a lazy stack stacks the members' entries: a fresh tensor by design, whatever the number of members — judged
# as a copy on the tensors handed out directly (nested results are stacks of the members' own nodes: views).  get_at may answer
# with a view of one member's entry (basic index on the stack dim): not demanded
LAZY_FRESH_READS = {"get", "__getitem__:key", "items/values", "to_dict"}
# a lazy stack never is contiguous (is_contiguous() is False): contiguous() / densify() must deep-copy like clone / to_tensordict
LAZY_STRICT_COPY = {"contiguous", "densify:lazy"}
# documented as returning fresh tensors (clone, to_tensordict, advanced indexing, contiguous on non-contiguous data are
# judged by the 'copy' / 'rule' oracles); every other out-of-place computation is only required to leave held tensors
# untouched -- whether its result is fresh is recorded as an observation (compared with the model), not demanded
STRICT_COPY = {"clone", "to_tensordict", "densify:lazy"}
# layout-dependent results not named by the property: observed and compared with the model, not demanded
WEAK_RULE = {"reshape", "flatten", "to:same", "apply:identity"}
LAZY_MATERIALISING = {"expand", "flatten_keys", "unflatten_keys", "split_keys"}
VALUES_LIST_FAMILY = set(UNARY_EXACT) | set(UNARY_INEXACT) | set(BINARY) | set(AUG) | {"addcmul_", "addcdiv_", "lerp_", "zero_", "fill_"}
SUB_INPLACE_BY_DESIGN = {"set:rebind", "update:rebind", "replace", "setdefault", "cat_tensors"}
OPS_BY_NAME = {o.name: o for o in OPS}


def footprint(td):
    fp = {}
    for _, v in existing(td):
        p = sptr(v)
        if p is not None:
            fp.setdefault(p, set()).update(cells(v))
    return fp


def has_overlap(td):
    for _, v in existing(td):
        c = cells(v)
        if len(set(c)) < len(c):
            return True
    return False


def _sub_adv(fx):
    return fx.spec["kind"] == "sub" and getattr(fx, "sub_form", "") in ("list", "mask")


def eff_class(opx, fx):
    """class used for the oracle on this fixture (documented special cases)"""
    kind = fx.spec["kind"]
    cls = opx.cls
    if (cls == "copy" and opx.name not in STRICT_COPY) or opx.name in WEAK_RULE:
        cls = "fresh?"
    if kind == "lazy":
        if opx.name in LAZY_STRICT_COPY:
            return "copy"
        if opx.name in LAZY_FRESH_READS:
            return "lazy-read"  # a fresh tensor by design: judged as a copy on the tensors handed out directly
        if opx.name in LAZY_READS:
            return "pure"
        if cls in ("rule", "view-or-reject"):
            return "pure"       # the stacked td-level leaf is never the caller's tensor; members are judged by C08
    if kind == "sub":
        if opx.name in SUB_INPLACE_BY_DESIGN:
            return "skip"       # _SubTensorDict._inplace_set: set/update write through to the source by design
        if _sub_adv(fx) and cls in ("view", "view-or-reject"):
            return "pure"       # the window source[idx] of an advanced index is a copy by torch's rule
    return cls


def run_case(case):
    """case = {"fx": spec, "hist": [[opname, v], ...], "op": opname, "v": int}.
    Returns dict(status, fails=[(label, detail, sig)], ...)."""
    fx = build_fixture(case["fx"])
    try:
        return _run_case(case, fx)
    finally:
        fx.close()


def _exc(e):
    return type(e).__name__


def _run_case(case, fx):
    torch = T()["torch"]
    td = fx.td
    keep = []
    hist_log = []
    for (hn, hv) in case.get("hist", []):
        ho = OPS_BY_NAME[hn]
        if eff_class(ho, fx) == "skip":
            hist_log.append("n/a")
            continue
        try:
            c = ho.make(td, random.Random(f"h/{hv}"))
            if c is None:
                hist_log.append("n/a")
                continue
            keep.append(c.args)
            keep.append(c.run(td))
            hist_log.append("ok")
        except Exception as e:  # noqa: BLE001
            hist_log.append(_exc(e))
    opx = OPS_BY_NAME[case["op"]]
    cls = eff_class(opx, fx)
    out = {"status": None, "fails": [], "cls": cls, "hist": hist_log, "desc": None, "method": opx.method, "obs": {}}
    if cls == "skip":
        out["status"] = "n/a"
        return out
    try:
        call = opx.make(td, random.Random(f"o/{case['v']}"))
    except Exception as e:  # noqa: BLE001
        out["status"] = "make-raised:" + _exc(e)
        return out
    if call is None:
        out["status"] = "n/a"
        return out
    out["desc"] = call.desc
    # ---- before
    U = Universe()
    for root in fx.roots:
        for _, t_ in existing(root):
            U.add(t_)
    held = []
    collect_tensors(keep, held)
    collect_tensors(call.args, held)
    for t_ in held:
        U.add(t_)
    fp0 = footprint(td)
    overlap = has_overlap(td)
    k0 = [keyset(r) for r in fx.roots]
    b0 = [binding(r) for r in fx.roots]
    seen0 = None
    if cls == "inplace":
        try:
            seen0 = {p: unwrap(td).get(p).clone() for p in leafpaths(td)}
        except Exception as e:  # noqa: BLE001
            out["status"] = "seen-raised:" + _exc(e)
            return out
    U.snapshot()
    alias_exp = twin_reference(call.alias[0], call.alias[1]) if call.alias is not None else None
    # ---- the call
    try:
        res = call.run(td)
        status = "ok"
    except Exception as e:  # noqa: BLE001
        res = None
        status = "raised:" + _exc(e)
    out["status"] = status
    written = U.written()
    sig0 = {"op": opx.name, "method": opx.method, "cls": cls, "kind": fx.spec["kind"], "layout": fx.spec["layout"],
            "sub_index_advanced": _sub_adv(fx),
            # the in-place families that run a kernel on self._values_list / self.get(key) (not through _set_str / _set_at_str)
            "values_list_family": opx.method in VALUES_LIST_FAMILY,
            "lazy_materialising_op": fx.spec["kind"] == "lazy" and opx.method in LAZY_MATERIALISING,
            "sub_select_exclude": fx.spec["kind"] == "sub" and opx.method in ("select", "exclude"),
            # exclude(inplace=True) is accepted on a locked tensordict (C05's D8) and leaves the memoised value lists stale
            "locked_inplace_key_removal_in_history": fx.spec["kind"] in ("memmap", "shared")
            and any(h[0] == "select:inplace" for h in case.get("hist", []))}

    if fx.spec["kind"] == "lazy":
        sig0["lazy_form"] = getattr(fx, "lazy_form", None)
    sig0.update(call.flags)

    def fail(label, detail, **sig):
        if not out["fails"]:
            out["fails"].append((label, detail, dict(sig0, check=label, **sig)))

    if cls == "inplace":
        k1 = [keyset(r) for r in fx.roots]
        b1 = [binding(r) for r in fx.roots]
        if k1 != k0:
            fail("inplace:key-set-changed", {"before": k0, "after": k1})
        for i, (x0, x1) in enumerate(zip(b0, b1)):
            for p in x0:
                if p in x1 and (x0[p][0] != x1[p][0] or x0[p][1] != x1[p][1]):
                    fail("inplace:storage-rebound", {"root": i, "path": list(p), "same_storage": x0[p][0] == x1[p][0],
                                                     "same_cells": x0[p][1] == x1[p][1]}, nested_key=len(p) > 1)
                    break
        for p_, cs in written.items():
            if p_ not in fp0 or not set(cs) <= fp0[p_]:
                fail("inplace:wrote-outside-own-entries", {"cells": cs[:10], "in_own_storage": p_ in fp0})
                break
        out["obs"]["legit_reject"] = overlap
        if call.alias is not None:
            # the value aliases the destination's storage: the held tensors must hold exactly what torch's own in-place
            # kernel leaves when it runs on plain tensors laid out the same way
            out["obs"]["alias_reference"] = "ok" if isinstance(alias_exp, dict) else alias_exp
            if isinstance(alias_exp, dict) and status == "ok":
                for (d_, v_) in call.alias[0]:
                    want, have = alias_exp[sptr(d_)], flat(d_)
                    if not torch.equal(bits(want), bits(have)):
                        tw = want.as_strided(tuple(d_.shape), tuple(d_.stride()), d_.storage_offset())
                        fail("inplace:existing-tensor-does-not-hold-new-value",
                             {"value": call.desc, "want": tw.reshape(-1).tolist()[:12], "have": d_.reshape(-1).tolist()[:12]})
                        break
            elif isinstance(alias_exp, dict):
                out["obs"]["alias_rejected_although_torch_accepts"] = True
        if status == "ok" and not overlap:
            try:
                for p in leafpaths(td):
                    if p not in seen0:
                        continue
                    want = call.expect(p, seen0[p]) if call.expect else seen0[p]
                    if torch.equal(bits(want), bits(seen0[p])):
                        continue        # entry not concerned by this call (which entries are concerned is C04/C09's subject)
                    have = unwrap(td).get(p)
                    # same torch kernel on a clone: equal up to layout-dependent vectorisation of transcendental kernels
                    rtol = 0.0 if call.exact else 1e-6
                    if tuple(want.shape) != tuple(have.shape) or not torch.allclose(want, have, rtol=rtol, atol=0.0, equal_nan=True):
                        fail("inplace:existing-tensor-does-not-hold-new-value",
                             {"path": list(p), "want": want.reshape(-1).tolist()[:12], "have": have.reshape(-1).tolist()[:12]})
                        break
            except Exception as e:  # noqa: BLE001
                out["status"] = status + "+effect-check-raised:" + _exc(e)
        # sentinel: what the tensordict reads now still comes from the storages the caller holds
        if status == "ok" and not out["fails"]:
            try:
                for f in U.flats.values():
                    f.fill_(S1)
                for p in leafpaths(td):
                    v = unwrap(td).get(p)
                    if v.numel() and not bool((v == S1).all()):
                        fail("inplace:sentinel-not-seen-through-tensordict", {"path": list(p)})
                        break
            except Exception as e:  # noqa: BLE001
                out["status"] = status + "+sentinel-raised:" + _exc(e)
        return out

    # ---- every other class: no cell of any tensor the caller holds is written
    if written:
        fail("out-of-place:wrote-into-held-tensor", {"cells": {str(i): cs[:8] for i, cs in enumerate(written.values())},
                                                    "own_entry": [p_ in fp0 for p_ in written]})
    if status != "ok" or cls in ("struct", "pure") or out["fails"]:
        return out
    rts = []
    collect_tensors(res, rts)
    rts = [r for r in rts if isinstance(r, torch.Tensor) and not r.is_nested and r.numel() > 0]
    if cls == "fresh?":
        out["obs"]["result_shares"] = any(sptr(r) in U for r in rts)
        return out
    want_share = {}   # id(r) -> bool
    if cls == "lazy-read":
        rts = []
        collect_direct(res, rts)
        rts = [r for r in rts if not r.is_nested and r.numel() > 0]
        cls = "copy"
    if cls == "copy":
        for r in rts:
            want_share[id(r)] = False
    elif cls == "view":
        for r in rts:
            want_share[id(r)] = True
    elif cls in ("rule", "view-or-reject"):
        rts2 = []
        try:
            ru = unwrap(res)
            rpaths = leafpaths(ru) if T()["is_coll"](type(ru)) else []
        except Exception:  # noqa: BLE001
            rpaths = []
        src_paths = set(leafpaths(td))
        for p in rpaths:
            if p not in src_paths:
                continue
            try:
                exp_t = call.rule(unwrap(td).get(p))
            except Exception:  # noqa: BLE001
                continue
            r = ru.get(p)
            if r.numel() == 0:
                continue
            rts2.append(r)
            want_share[id(r)] = sptr(exp_t) in U
        rts = rts2
    out["obs"]["result_shares"] = [sptr(r) in U for r in rts]
    for r in rts:
        p_ = sptr(r)
        shares = p_ in U
        if shares != want_share[id(r)]:
            fail("view:result-does-not-share" if want_share[id(r)] else "copy:result-shares-memory",
                 {"shape": list(r.shape), "expected_shares": want_share[id(r)]})
            break
        if shares and p_ in fp0 and not set(cells(r)) <= fp0[p_]:
            fail("view:result-outside-source-cells", {"shape": list(r.shape)})
            break
    if out["fails"]:
        return out
    # ---- sentinel, both directions
    try:
        for f in U.flats.values():
            f.fill_(S1)
        for r in rts:
            sees = bool((r == S1).all())
            none = not bool((r == S1).any())
            if want_share[id(r)] and not sees:
                fail("view:sentinel-written-through-source-not-seen", {"shape": list(r.shape)})
                break
            if not want_share[id(r)] and not none:
                fail("copy:sentinel-written-through-source-seen", {"shape": list(r.shape)})
                break
        U.snapshot()
        for r in rts:
            c = cells(r)
            if len(set(c)) < len(c):
                continue
            try:
                r.detach().fill_(S2)
            except Exception:  # noqa: BLE001
                continue
        w = U.written()
        for r in rts:
            c = cells(r)
            if len(set(c)) < len(c):
                continue
            p_ = sptr(r)
            if want_share[id(r)]:
                if p_ not in w or not set(c) <= set(w[p_]):
                    fail("view:sentinel-written-through-result-not-seen-in-source", {"shape": list(r.shape)})
                    break
        if not any(want_share.values()) and w:
            fail("copy:sentinel-written-through-result-reached-held-tensor", {})
    except Exception as e:  # noqa: BLE001
        out["status"] = status + "+sentinel-raised:" + _exc(e)
    return out
