"""C12, thread pools: a deterministic executor installed in the harness process in place of ThreadPoolExecutor.

A *schedule* is (eager, order): the tasks whose submission index is in `eager` run inside submit() (a worker that is
faster than the submitting thread); the others stay pending until the submitting thread waits (Future.result(),
concurrent.futures.wait, executor shutdown) and then run in the order given by the permutation `order` of their
submission indices (indices beyond the permutation run last, in submission order).  Every task runs exactly once, in
the harness thread, so a run is reproducible from its schedule."""
import concurrent.futures as cf
import contextlib
import itertools

import tensordict.base as TB
import tensordict._td as TT
import tensordict._lazy as TL

_REAL_WAIT = cf.wait
_REAL_TPE = cf.ThreadPoolExecutor


class Schedule:
    def __init__(self, order=(), eager=()):
        self.order = list(order)
        self.eager = set(eager)
        self.rank = {i: r for r, i in enumerate(self.order)}
        self.ran = []          # submission indices in execution order (all executors of the run, in creation order)
        self.never_run = 0
        self.count = 0

    def key(self, idx):
        return (0, self.rank[idx]) if idx in self.rank else (1, idx)


_current = None


class PermFuture(cf.Future):
    _ex = None

    def result(self, timeout=None):
        if not self.done() and self._ex is not None:
            self._ex.drain()
        return super().result(0)

    def exception(self, timeout=None):
        if not self.done() and self._ex is not None:
            self._ex.drain()
        return super().exception(0)


class PermExecutor:
    instances = []

    def __init__(self, max_workers=None, *a, **k):
        self.sched = _current
        self.pending = []
        PermExecutor.instances.append(self)

    def _run(self, task):
        idx, fut, fn, args, kwargs = task
        self.sched.ran.append(idx)
        if not fut.set_running_or_notify_cancel():
            return
        try:
            r = fn(*args, **kwargs)
        except BaseException as e:  # noqa: BLE001 -- what a worker thread does: the exception is stored in the future
            fut.set_exception(e)
        else:
            fut.set_result(r)

    def submit(self, fn, *args, **kwargs):
        fut = PermFuture()
        fut._ex = self
        idx = self.sched.count
        self.sched.count += 1
        task = (idx, fut, fn, args, kwargs)
        if idx in self.sched.eager:
            self._run(task)
        else:
            self.pending.append(task)
        return fut

    def drain(self):
        while self.pending:
            batch = sorted(self.pending, key=lambda t: self.sched.key(t[0]))
            self.pending = []
            for t in batch:
                self._run(t)

    def shutdown(self, wait=True, **k):
        if wait:
            self.drain()

    def __enter__(self):
        return self

    def __exit__(self, *a):
        self.shutdown(wait=True)
        return False


def perm_wait(fs, timeout=None, return_when=cf.ALL_COMPLETED):
    fs = list(fs)
    for f in fs:
        if isinstance(f, PermFuture) and not f.done():
            f._ex.drain()
    return _REAL_WAIT(fs, timeout=0, return_when=return_when)


@contextlib.contextmanager
def scheduled(order=(), eager=()):
    """run tensordict code with its thread pools replaced by the deterministic executor following one schedule"""
    global _current
    s = Schedule(order, eager)
    s.count = 0
    old = (_current, TB.ThreadPoolExecutor, TT.ThreadPoolExecutor, TL.ThreadPoolExecutor, TB.wait, TT.wait, cf.wait)
    _current = s
    PermExecutor.instances = []
    TB.ThreadPoolExecutor = TT.ThreadPoolExecutor = TL.ThreadPoolExecutor = PermExecutor
    TB.wait = TT.wait = perm_wait
    cf.wait = perm_wait
    try:
        yield s
    finally:
        (_current, TB.ThreadPoolExecutor, TT.ThreadPoolExecutor, TL.ThreadPoolExecutor, TB.wait, TT.wait, cf.wait) = old
        for ex in PermExecutor.instances:
            s.never_run += len(ex.pending)
            ex.pending = []
        PermExecutor.instances = []


def schedules(k, rng, exhaustive_upto=5, nrandom=6):
    """schedules for k tasks: every permutation (no eager task) when k <= exhaustive_upto, plus all-eager, plus a few
    mixed ones; random permutations beyond"""
    out = []
    if k <= exhaustive_upto:
        for p in itertools.permutations(range(k)):
            out.append((list(p), []))
    else:
        out.append((list(range(k)), []))
        out.append((list(range(k - 1, -1, -1)), []))
        for _ in range(nrandom):
            out.append((rng.sample(range(k), k), []))
    out.append(([], list(range(k + 4))))
    for _ in range(2):
        eager = [i for i in range(k) if rng.random() < 0.5]
        rest = [i for i in range(k) if i not in eager]
        out.append((rng.sample(rest, len(rest)), eager))
    return out
