"""C03 — indexing reads and writes select exactly what torch indexing selects (DESIGN.md §4 C03)."""
import itertools
import json

import numpy as np
import torch
from tensordict import TensorDict

from .core import Sym, some, sx

EXC = Exception


def call(f):
    try:
        return ("ok", f())
    except EXC as e:  # noqa: BLE001
        return ("raise", type(e).__name__)


# ------------------------------------------------------------------ index generation
# every generated item is (python object, descriptor); the descriptor is JSON-able and rebuilds the object

def build_item(d):
    k = d[0]
    if k == "int":
        return d[1]
    if k == "sl":
        return slice(d[1], d[2], d[3])
    if k == "non":
        return None
    if k == "ell":
        return Ellipsis
    if k == "list":
        return list(d[1])
    if k == "range":
        return range(d[1])
    if k == "np":
        return np.array(d[1], dtype=np.int64)
    if k == "ten":
        return torch.tensor(d[1], dtype=torch.int64)
    if k == "ten0":
        return torch.tensor(d[1], dtype=torch.int64)
    if k == "mask":
        return torch.tensor(d[1], dtype=torch.bool)
    if k == "npmask":
        return np.array(d[1], dtype=bool)
    raise ValueError(d)


def shape_of(nested):
    sh = []
    x = nested
    while isinstance(x, list):
        sh.append(len(x))
        x = x[0] if x else None
    return sh


def item_sx(d):
    k = d[0]
    if k == "int":
        return [Sym("int"), d[1]]
    if k == "sl":
        return [Sym("sl"), some(d[1]), some(d[2]), some(d[3])]
    if k == "non":
        return Sym("non")
    if k == "ell":
        return Sym("ell")
    if k == "list":
        return [Sym("adv"), [len(d[1])]]
    if k == "range":
        return [Sym("adv"), [d[1]]]
    if k in ("np", "ten"):
        return [Sym("adv"), shape_of(d[1])]
    if k == "ten0":
        return Sym("adv0")
    if k in ("mask", "npmask"):
        flat = np.array(d[1]).reshape(-1)
        return [Sym("mask"), shape_of(d[1]), int(flat.sum())]
    raise ValueError(d)


def rand_adv_values(rng, n, shape, bad=False):
    """index values for a dim of size n with the given shape (nested lists)"""
    def val():
        if bad:
            return n + 1
        return rng.randrange(-n, n) if n else 0
    if len(shape) == 1:
        return [val() for _ in range(shape[0])]
    return [[val() for _ in range(shape[1])] for _ in range(shape[0])]


def rand_mask(rng, shape):
    kind = rng.choice(["mixed", "mixed", "all", "none"])
    tot = int(np.prod(shape)) if shape else 1
    if kind == "all":
        flat = [True] * tot
    elif kind == "none":
        flat = [False] * tot
    else:
        flat = [rng.random() < 0.5 for _ in range(tot)]
    return np.array(flat, dtype=bool).reshape(shape).tolist()


def gen_index(rng, bs, malformed=False):
    """a structured, mostly valid index tuple for batch shape bs; returns list of descriptors"""
    rank = len(bs)
    n_items = rng.choice([0, 1, 1, 2, 2, 3, 3, 4]) if rank else rng.choice([0, 1, 1, 2])
    items = []
    cur = 0
    used_ell = False
    n_adv = 0
    for _ in range(n_items):
        dim = bs[cur] if cur < rank else rng.choice([1, 2, 3])
        beyond = cur >= rank
        kinds = ["int", "int", "sl", "sl", "sl", "non", "adv", "adv", "mask"]
        if not used_ell:
            kinds += ["ell"]
        if rank:
            kinds += ["ten0"]
        k = rng.choice(kinds)
        if beyond and k in ("int", "sl", "adv", "mask", "ten0") and not malformed and rng.random() < 0.85:
            k = rng.choice(["non", "non", "ell"] if not used_ell else ["non"])
        if k == "int":
            v = rng.randrange(-dim, dim) if dim and not (malformed and rng.random() < 0.5) else rng.choice([dim, -dim - 1, 4])
            items.append(["int", v])
            cur += 1
        elif k == "ten0":
            v = rng.randrange(-dim, dim) if dim else 0
            if dim == 0:
                items.append(["sl", None, None, None])
            else:
                items.append(["ten0", v])
            cur += 1
        elif k == "sl":
            vals = [None, None, -2, -1, 0, 1, 2, 3]
            st = rng.choice([None, None, 1, 1, 2, 3] + ([0, -1] if malformed else []))
            items.append(["sl", rng.choice(vals), rng.choice(vals), st])
            cur += 1
        elif k == "non":
            items.append(["non"])
        elif k == "ell":
            items.append(["ell"])
            used_ell = True
            # the ellipsis swallows dims: jump the cursor so that following items index trailing dims
            rest = rng.randrange(0, 2)
            cur = max(cur, rank - rest)
        elif k == "adv":
            if n_adv >= 2 and rng.random() < 0.7:
                items.append(["non"])
                continue
            sh = rng.choice([[1], [2], [2], [3], [2, 2], [1, 2], [0]])
            if n_adv and rng.random() < 0.7:
                sh = rng.choice([[2], [1], [2, 2]])  # broadcast-compatible most of the time
            bad = malformed and rng.random() < 0.5
            if dim == 0 and not bad:
                sh = [0]
            vals = rand_adv_values(rng, dim, sh, bad) if sh != [0] else []
            form = rng.choice(["list", "range", "np", "ten", "ten"])
            if len(sh) == 2:
                form = rng.choice(["np", "ten"])
            if form == "range":
                m = min(sh[0], dim)
                items.append(["range", m])
            elif form == "list":
                items.append(["list", vals])
            else:
                items.append([form, vals])
            n_adv += 1
            cur += 1
        elif k == "mask":
            k2 = rng.choice([1, 1, 2])
            shape = list(bs[cur:cur + k2])
            if len(shape) < k2 or (malformed and rng.random() < 0.5):
                shape = [rng.choice([1, 2, 3]) for _ in range(k2)]
            if n_adv and rng.random() < 0.6:
                items.append(["non"])
                continue
            # numpy boolean masks only at rank 1: torch counts a numpy mask as ONE specified dim when it expands an
            # Ellipsis (its own quirk), so rank-2 numpy masks next to an Ellipsis are rejected by torch itself
            items.append([rng.choice(["mask", "mask", "npmask"]) if k2 == 1 else "mask", rand_mask(rng, shape)])
            n_adv += 1
            cur += k2
    return items


def along_batch(idx, descs, rank):
    """the same index applied 'along the batch dims' of an entry with trailing feature dims: the Ellipsis stands for
    the batch dims it covers in the batch shape (rank - consumed), not for the entry's trailing dims"""
    if not any(d[0] == "ell" for d in descs):
        return idx
    cons = 0
    for d in descs:
        if d[0] in ("non", "ell"):
            continue
        cons += len(shape_of(d[1])) if d[0] in ("mask", "npmask") else 1
    out = []
    for o, d in zip(idx if isinstance(idx, tuple) else (idx,), descs):
        if d[0] == "ell":
            out.extend([slice(None)] * max(rank - cons, 0))
        else:
            out.append(o)
    return tuple(out)


def to_py(descs, scalar_ok=True):
    objs = [build_item(d) for d in descs]
    return tuple(objs)


# ------------------------------------------------------------------ subject
def make_td(bs, named, flat=False):
    n = int(np.prod(bs)) if bs else 1
    if flat:
        b = torch.arange(n, dtype=torch.int64).reshape(*bs) * 3 + 100 if bs else torch.tensor(100)
        td = TensorDict({"b": b, "b2": b + 50000}, batch_size=list(bs))
        if named and bs:
            td.names = [f"d{i}" for i in range(len(bs))]
        return td
    a = torch.arange(n * 2, dtype=torch.int64).reshape(*bs, 2) + 1
    b = torch.arange(n, dtype=torch.int64).reshape(*bs) * 3 + 100 if bs else torch.tensor(100)
    c = torch.arange(n * 6, dtype=torch.int64).reshape(*bs, 2, 3) + 1000
    td = TensorDict({"a": a, "b": b, "n": TensorDict({"c": c}, batch_size=[*bs, 2])}, batch_size=list(bs))
    if named and bs:
        td.names = [f"d{i}" for i in range(len(bs))]
    return td


def observe_td(x):
    out = {"bs": list(x.batch_size), "names": list(x.names) if x._has_names() else None, "leaves": {}}
    for k, v in x.items(True, True):
        out["leaves"]["/".join(k) if isinstance(k, tuple) else k] = [list(v.shape), v.reshape(-1).tolist()]
    n = x.get("n", None)
    out["nested_bs"] = list(n.batch_size) if n is not None else None
    return out


def shares(t, src):
    return t.numel() > 0 and t.untyped_storage().data_ptr() == src.untyped_storage().data_ptr()


SHAPES = [s for r in range(0, 4) for s in itertools.product([0, 1, 2, 3], repeat=r)]


def classify(descs, bs):
    """decidable patterns used as finding signatures / partial-theorem exclusions"""
    cons = 0
    for d in descs:
        if d[0] in ("non", "ell"):
            continue
        if d[0] in ("mask", "npmask"):
            cons += len(shape_of(d[1]))
        else:
            cons += 1
    return {"consumes_more_than_rank": cons > len(bs)}


def check_reads(R, cases):
    lines = []
    for (bs, named, descs, single) in cases:
        idx_sx = [item_sx(d) for d in descs]
        lines.append(sx([Sym("torch-shape"), list(bs), idx_sx]))
        lines.append(sx([Sym("getitem-bs"), list(bs), idx_sx]))
    m = R.model(lines)
    spec_bad = 0
    for ci, (bs, named, descs, single) in enumerate(cases):
        spec, mod_bs = m[2 * ci], m[2 * ci + 1]
        case = {"op": "getitem", "bs": list(bs), "named": named, "index": descs, "single": single}
        sig = classify(descs, bs)
        py = to_py(descs)
        idx = py[0] if (single and len(py) == 1) else py
        proxy = call(lambda: list(torch.zeros(bs)[idx].shape))
        n_ell = sum(1 for d in descs if d[0] == "ell")
        in_grammar = n_ell <= 1
        # (0) my spec against real torch (machinery self-check; values of advanced indices are a side condition)
        spec_o = spec[1] if isinstance(spec, list) and spec[0] == "some" else None
        if in_grammar:
            if proxy[0] == "ok" and spec_o != proxy[1]:
                spec_bad += 1
                print(f"SPEC-MISMATCH TorchIndex bs={bs} idx={descs}: torch {proxy[1]} spec {spec_o}")
            if proxy[0] != "ok" and spec_o is not None and not any(d[0] in ("list", "np", "ten", "ten0", "range") for d in descs):
                spec_bad += 1
                print(f"SPEC-MISMATCH TorchIndex bs={bs} idx={descs}: torch rejects, spec {spec_o}")
        td = make_td(bs, named)
        got = call(lambda: td[idx])
        R.case(("get", tuple(bs), named, json.dumps(descs), single), nontrivial=len(descs) > 0,
               sample=case if ci % 3001 == 0 else None)
        R.count("read:" + ("torch-accepts" if proxy[0] == "ok" else "torch-rejects"))
        for d in descs:
            R.count("item:" + d[0])
        if not in_grammar:
            continue
        if isinstance(got[1], TensorDict) or got[0] == "raise":
            pass
        else:
            R.oracle_fail("getitem:type", case, {"got": repr(type(got[1]))}, dict(sig, call="__getitem__"))
            continue
        # (1) oracle on the implementation
        if proxy[0] == "ok":
            if got[0] != "ok":
                R.oracle_fail("getitem:valid-index-rejected", case, {"torch": proxy[1], "tensordict": got[1]},
                              dict(sig, call="__getitem__", kind="valid-rejected"))
            else:
                r = got[1]
                o = observe_td(r)
                detail = None
                if o["bs"] != proxy[1]:
                    detail = {"what": "batch_size", "torch": proxy[1], "tensordict": o["bs"]}
                else:
                    for key, leaf in (("a", td.get("a")), ("b", td.get("b")), ("n/c", td.get(("n", "c")))):
                        want = leaf[along_batch(idx, descs, len(bs))]
                        if o["leaves"][key] != [list(want.shape), want.reshape(-1).tolist()]:
                            detail = {"what": "leaf " + key, "torch": [list(want.shape), want.reshape(-1).tolist()][0],
                                      "tensordict": o["leaves"][key][0]}
                            break
                        g = r.get(tuple(key.split("/")))
                        if shares(g, leaf) != shares(want, leaf):
                            detail = {"what": "memory sharing of leaf " + key, "torch_shares": shares(want, leaf),
                                      "tensordict_shares": shares(g, leaf)}
                            break
                    if detail is None and o["nested_bs"] != proxy[1] + [2]:
                        detail = {"what": "nested batch_size", "want": proxy[1] + [2], "tensordict": o["nested_bs"]}
                    if detail is None and o["names"] is not None and len(o["names"]) != len(o["bs"]):
                        detail = {"what": "names length", "names": o["names"], "batch_size": o["bs"]}
                        sig = dict(sig, kind="names-length", mask_in_tuple=any(d[0] in ("mask", "npmask") for d in descs) and not (single and len(descs) == 1))
                if detail is not None:
                    R.oracle_fail("getitem:result", case, detail, dict(sig, call="__getitem__", what=detail["what"].split(" ")[0]))
        else:
            if sig["consumes_more_than_rank"] and got[0] != "ok":
                # every entry of this variant has feature dims: nothing but the batch-size bookkeeping can reject
                td2 = make_td(bs, named)
                td2.del_("b")
                got = call(lambda: td2[idx])
                case = dict(case, variant="entries-with-feature-dims-only")
            if got[0] == "ok":
                R.oracle_fail("getitem:invalid-index-accepted", case,
                              {"torch": "raises " + proxy[1], "tensordict_batch_size": list(got[1].batch_size)},
                              dict(sig, call="__getitem__", kind="invalid-accepted", leafless=False))
        # (2) correspondence with the model: batch size or rejection of the bookkeeping itself
        if proxy[0] == "ok" and got[0] == "ok":
            mo = mod_bs[1] if isinstance(mod_bs, list) else "reject"
            if mo != list(got[1].batch_size):
                R.mismatch("getitem-bs", case, list(got[1].batch_size), mo)
        R.traces += 1
    return spec_bad


def check_writes(R, cases):
    for ci, (bs, named, descs, single) in enumerate(cases):
        descs = writable(R.rng, bs, descs)
        single = single and len(descs) == 1
        py = to_py(descs)
        idx = py[0] if (single and len(py) == 1) else py
        if sum(1 for d in descs if d[0] == "ell") > 1:
            continue
        proxy = call(lambda: list(torch.zeros(bs)[idx].shape))
        if proxy[0] != "ok":
            continue
        tshape = proxy[1]
        vkind = R.rng.choice(["scalar", "tensor0", "tensor", "td", "td-bcast", "dict", "td-newkey"])
        case = {"op": "setitem", "bs": list(bs), "named": named, "index": descs, "single": single, "value": vkind}
        flat = vkind == "tensor"
        td = make_td(bs, named, flat=flat)
        if flat:
            ref = {k: td.get(k).clone() for k in ("b", "b2")}
            feats = {"b": [], "b2": []}
        else:
            ref = {k: td.get(k).clone() for k in ("a", "b", ("n", "c"))}
            feats = {"a": [2], "b": [], ("n", "c"): [2, 3]}

        def mk(shape, base):
            n = int(np.prod(shape)) if shape else 1
            return (torch.arange(n, dtype=torch.int64).reshape(shape) if shape else torch.tensor(0)) - base
        sig = dict(classify(descs, bs), call="__setitem__", value=vkind)
        if vkind == "dict":
            # a dict value cannot state the batch size of its nested part: the nested value gets the indexed batch size
            # [tshape] while the destination's nested node has [tshape + [2]]; the left-expansion rule then misfires
            # exactly when [tshape] is also a suffix of [tshape + [2]]  (finding D30)
            sig["nested_value_batch_ambiguous"] = (tshape + [2])[len(tshape + [2]) - len(tshape):] == tshape
        if vkind == "td-newkey":
            sig["bare_list_index"] = bool(single and len(descs) == 1 and descs[0][0] == "list")
        R.case(("set", tuple(bs), json.dumps(descs), single, vkind), nontrivial=len(descs) > 0, sample=case if ci % 2503 == 0 else None)
        R.count("write:" + vkind)
        if vkind == "scalar":
            got = call(lambda: td.__setitem__(idx, -7))
            exp = {}
            for k in ref:
                exp[k] = call(lambda: ref[k].__setitem__(along_batch(idx, descs, len(bs)), -7))
        elif vkind in ("tensor", "tensor0"):
            # the literal rule of the property: entry[idx] = value for every entry (tensor0: 0-dim value, broadcasts
            # into every entry; tensor: a value of the indexed batch shape on entries without feature dims)
            v = mk(tshape, 5000) if vkind == "tensor" else torch.tensor(-9)
            got = call(lambda: td.__setitem__(idx, v))
            exp = {}
            for k in ref:
                exp[k] = call(lambda: ref[k].__setitem__(along_batch(idx, descs, len(bs)), v))
        else:
            lead = tshape
            if vkind == "td-bcast" and len(tshape) >= 1:
                lead = tshape[1:]
            vals = {k: mk(lead + feats[k], 7000 + 100 * i) for i, k in enumerate(ref)}
            src = {"a": vals["a"], "b": vals["b"], "n": {"c": vals[("n", "c")]}}
            if vkind == "td-newkey":
                src["z"] = mk(lead + [2], 9000)
            if vkind == "dict":
                v = src
            else:
                v = TensorDict({"a": src["a"], "b": src["b"], "n": TensorDict({"c": src["n"]["c"]}, batch_size=lead + [2]),
                                **({"z": src["z"]} if "z" in src else {})}, batch_size=lead)
            got = call(lambda: td.__setitem__(idx, v))
            exp = {}
            for k in ref:
                exp[k] = call(lambda: ref[k].__setitem__(along_batch(idx, descs, len(bs)), vals[k]))
        # oracle: every leaf equals the torch-assigned reference; the write is rejected iff torch rejects it
        ok_t = all(e[0] == "ok" for e in exp.values())
        if ok_t and got[0] != "ok":
            # dict values go through from_dict_instance with the indexed batch size: same rule
            R.oracle_fail("setitem:valid-write-rejected", case, {"tensordict": got[1]}, dict(sig, kind="valid-rejected"))
        elif got[0] == "ok" and ok_t:
            for k in ref:
                have = td.get(k)
                if have.shape != ref[k].shape or not torch.equal(have, ref[k]):
                    R.oracle_fail("setitem:content", case, {"leaf": str(k), "want": ref[k].reshape(-1).tolist()[:24],
                                                            "have": have.reshape(-1).tolist()[:24]}, dict(sig, kind="content"))
                    break
            else:
                if vkind == "td-newkey":
                    z = td.get("z", None)
                    if z is None or list(z.shape) != list(bs) + [2] or not torch.equal(z[along_batch(idx, descs, len(bs))], src["z"].expand(tshape + [2])):
                        R.oracle_fail("setitem:new-key", case, {"z": None if z is None else list(z.shape)}, dict(sig, kind="new-key"))
        elif got[0] == "ok" and not ok_t:
            R.oracle_fail("setitem:invalid-write-accepted", case, {"torch": {str(k): e for k, e in exp.items()}},
                          dict(sig, kind="invalid-accepted"))
        R.traces += 1


def consumption(d):
    if d[0] in ("non", "ell"):
        return 0
    if d[0] in ("mask", "npmask"):
        return len(shape_of(d[1]))
    return 1


def writable(rng, bs, descs):
    """for writes: at most one advanced index and no repeated target position (torch leaves the result of an indexed
    write with duplicate positions unspecified)"""
    rank = len(bs)
    cons = [consumption(d) for d in descs]
    pos, cur, after_ell = [], 0, False
    for i, d in enumerate(descs):
        if d[0] == "ell":
            after_ell = True
        pos.append(rank - sum(cons[i:]) if after_ell else cur)
        cur += cons[i]
    out, seen_adv = [], False
    for d, p in zip(descs, pos):
        k = d[0]
        if k in ("list", "np", "ten", "range", "mask", "npmask"):
            dim = bs[p] if 0 <= p < rank else 1
            if seen_adv:
                out.extend([["sl", None, None, None]] * consumption(d))
                continue
            seen_adv = True
            if k in ("list", "np", "ten"):
                sh = shape_of(d[1])
                tot = int(np.prod(sh)) if sh else 0
                if tot > dim:
                    sh, tot = [dim], dim
                vals = rng.sample(range(dim), tot) if tot else []
                vals = [v - dim if rng.random() < 0.3 else v for v in vals]
                nested = np.array(vals, dtype=np.int64).reshape(sh).tolist() if sh else []
                if k == "list" and len(sh) != 1:
                    k = "ten"
                out.append([k, nested])
            else:
                out.append(d)
        else:
            out.append(d)
    return out


def gen_cases(R, n, malformed_frac=0.12):
    rng = R.rng
    cases = []
    for _ in range(n):
        bs = rng.choice(SHAPES)
        if rng.random() < 0.5:
            bs = rng.choice([s for s in SHAPES if 0 not in s])
        named = rng.random() < 0.3
        mal = rng.random() < malformed_frac
        descs = gen_index(rng, bs, malformed=mal)
        if rng.random() < 0.04:
            # over-long stream: more dim-consuming items than batch dims (torch rejects these for the batch shape)
            while sum(consumption(d) for d in descs) <= len(bs):
                descs.append(rng.choice([["int", 0], ["sl", None, None, None], ["int", -1], ["list", [0]]]))
            R.count("stream:overlong")
        single = len(descs) == 1 and rng.random() < 0.5
        R.count("stream:" + ("malformed" if mal else "valid"))
        cases.append((tuple(bs), named, descs, single))
    return cases


def small_grid():
    """exhaustive small scope: every tuple of <= 2 items from a fixed alphabet on shapes of rank <= 2 over {1,2,3}"""
    alpha = [["int", 0], ["int", -1], ["int", 2], ["sl", None, None, None], ["sl", 1, None, None], ["sl", None, -1, 2], ["non"], ["ell"],
             ["list", [0, 1]], ["ten", [[0, 0], [0, 0]]], ["ten0", 0], ["range", 1]]
    out = []
    for bs in [(), (2,), (3, 2), (2, 1), (2, 3, 2)]:
        for k in range(0, 4 if len(bs) >= 2 else 3):
            for tup in itertools.product(alpha, repeat=k):
                out.append((bs, False, [list(t) for t in tup], False))
    return out


def main(R):
    torch.set_num_threads(1)
    R.rule = ("index tuples generated item by item with a dimension cursor (ints, slices, None, Ellipsis, lists, ranges, numpy arrays, "
              "integer tensors rank 0..2, boolean masks rank 1..2 sized from the dims at the cursor; ~12% malformed stream: out-of-range "
              "ints/values, wrong mask shapes, step<=0) over all batch shapes of rank 0..3 with dims in {0,1,2,3}, plus an exhaustive small "
              "grid; reads and writes (scalar/tensor/tensordict/broadcast/dict/new-key values); distinct by (shape, names, index, value kind); "
              "non-trivial = non-empty index")
    R.assumptions = ["which elements tensor[idx] selects is torch's behaviour (trusted); leaves hold distinct integers so selection is visible",
                     "Spec/C03_TorchIndex is validated against real torch on every generated case of this run"]
    R.trusted = ["Spec/C03_TorchIndex.v (torch's two-stage indexing shape rule) — re-validated against torch in this run"]
    R.step_prove()
    ok = R.step_driver()
    if not ok:
        return
    n = 20000 if R.quick else 250000
    cases = small_grid() if not R.quick else small_grid()[::7]
    cases += gen_cases(R, n)
    spec_bad = check_reads(R, cases)
    wcases = gen_cases(R, 8000 if R.quick else 100000, malformed_frac=0.05)
    check_writes(R, wcases)
    check_leafless(R)
    if spec_bad:
        raise RuntimeError(f"{spec_bad} SPEC-MISMATCH lines (machinery bug: Spec/C03_TorchIndex disagrees with torch)")


def check_leafless(R):
    """tensordicts without any tensor entry: there is no entry to reject an index torch rejects"""
    for bs in [(3,), (2, 2), (0,), ()]:
        for descs in [[["int", 5]], [["int", -4]], [["int", 0], ["int", 0], ["int", 0]], [["list", [7]]], [["sl", None, None, 0]],
                      [["int", 0]], [["sl", 1, None, None]]]:
            for kind in ("empty", "nested-empty"):
                td = TensorDict({}, list(bs)) if kind == "empty" else TensorDict({"n": TensorDict({}, list(bs))}, list(bs))
                py = to_py(descs)
                proxy = call(lambda: list(torch.zeros(bs)[py].shape))
                got = call(lambda: td[py])
                case = {"op": "getitem-leafless", "bs": list(bs), "index": descs, "kind": kind}
                R.case(("leafless", bs, json.dumps(descs), kind), nontrivial=True)
                R.count("read:leafless")
                if proxy[0] != "ok" and got[0] == "ok":
                    R.oracle_fail("getitem:invalid-index-accepted", case, {"torch": "raises " + proxy[1],
                                  "tensordict_batch_size": list(got[1].batch_size)},
                                  {"call": "__getitem__", "kind": "invalid-accepted", "leafless": True})
                elif proxy[0] == "ok" and (got[0] != "ok" or list(got[1].batch_size) != proxy[1]):
                    R.oracle_fail("getitem:result", case, {"torch": proxy[1], "tensordict": repr(got)},
                                  {"call": "__getitem__", "what": "batch_size", "leafless": True})


def replay(body):
    case = body["case"]
    bs, descs = tuple(case["bs"]), case["index"]
    py = to_py(descs)
    idx = py[0] if (case.get("single") and len(py) == 1) else py
    print("index:", idx)
    print("torch on proxy:", call(lambda: list(torch.zeros(bs)[idx].shape)))
    td = make_td(bs, case.get("named", False))
    if case["op"] == "getitem":
        r = call(lambda: td[idx])
        print("tensordict:", r[0], observe_td(r[1]) if r[0] == "ok" else r[1])
    from .core import run_model, build_driver
    build_driver("C03")
    idx_sx = [item_sx(d) for d in descs]
    print("model:", run_model("C03", [sx([Sym("index-bs"), list(bs), idx_sx]), sx([Sym("torch-shape"), list(bs), idx_sx])]))
    print(json.dumps(body.get("detail"), default=str))
    return 0
