"""C03 — indexing reads and writes select exactly what torch indexing selects (DESIGN.md §4 C03)."""
import itertools
import json

import numpy as np
import torch
from tensordict import TensorDict

from .core import Sym, some, sx

EXC = Exception


def call(f):
    try:
        return ("ok", f())
    except EXC as e:  # noqa: BLE001
        return ("raise", type(e).__name__)


# ------------------------------------------------------------------ index generation
# every generated item is (python object, descriptor); the descriptor is JSON-able and rebuilds the object

def build_item(d):
    k = d[0]
    if k == "int":
        return d[1]
    if k == "sl":
        return slice(d[1], d[2], d[3])
    if k == "non":
        return None
    if k == "ell":
        return Ellipsis
    if k == "list":
        return list(d[1])
    if k == "range":
        return range(d[1])
    if k == "np":
        return np.array(d[1], dtype=np.int64)
    if k == "ten":
        return torch.tensor(d[1], dtype=torch.int64)
    if k == "ten0":
        return torch.tensor(d[1], dtype=torch.int64)
    if k == "mask":
        return torch.tensor(d[1], dtype=torch.bool)
    if k == "npmask":
        return np.array(d[1], dtype=bool)
    raise ValueError(d)


def shape_of(nested):
    sh = []
    x = nested
    while isinstance(x, list):
        sh.append(len(x))
        x = x[0] if x else None
    return sh


def item_sx(d):
    k = d[0]
    if k == "int":
        return [Sym("int"), d[1]]
    if k == "sl":
        return [Sym("sl"), some(d[1]), some(d[2]), some(d[3])]
    if k == "non":
        return Sym("non")
    if k == "ell":
        return Sym("ell")
    if k == "list":
        return [Sym("adv"), [len(d[1])]]
    if k == "range":
        return [Sym("adv"), [d[1]]]
    if k in ("np", "ten"):
        return [Sym("adv"), shape_of(d[1])]
    if k == "ten0":
        return Sym("adv0")
    if k in ("mask", "npmask"):
        flat = np.array(d[1]).reshape(-1)
        return [Sym("mask"), shape_of(d[1]), int(flat.sum())]
    raise ValueError(d)


def vitem_sx(d):
    """the item WITH its values (Spec/C03_TorchSel.vitem): index arrays as shape + row-major values, masks as the list of
    their True positions in row-major order"""
    k = d[0]
    if k in ("int", "sl", "non", "ell"):
        return item_sx(d)
    if k == "list":
        return [Sym("adv"), [len(d[1])], [int(v) for v in d[1]]]
    if k == "range":
        return [Sym("adv"), [d[1]], list(range(d[1]))]
    if k in ("np", "ten"):
        return [Sym("adv"), shape_of(d[1]), [int(v) for v in np.array(d[1], dtype=np.int64).reshape(-1).tolist()]]
    if k == "ten0":
        return [Sym("adv0"), int(d[1])]
    if k in ("mask", "npmask"):
        m = np.array(d[1], dtype=bool).reshape(shape_of(d[1]))
        return [Sym("mask"), shape_of(d[1]), [[int(x) for x in p] for p in np.argwhere(m).tolist()]]
    raise ValueError(d)


def names_pattern(bs, named, ci):
    """source-dim numbers used as dim names (None = unnamed dim); partially named patterns for a third of the named cases"""
    if not named or not bs:
        return None
    nm = list(range(len(bs)))
    if len(bs) >= 2 and ci % 3 == 0:
        nm[ci % len(bs)] = None
    return nm


def offsets_of(sel, bs):
    """model's sel-all result -> flat row-major offsets in a tensor of shape bs (None where the model gives no element)"""
    if not (isinstance(sel, list) and sel and sel[0] == "some"):
        return None
    out = []
    for e in sel[1]:
        if not (isinstance(e, list) and e and e[0] == "some") or len(e[1]) != len(bs):
            out.append(None)
            continue
        off = 0
        for c, n in zip(e[1], bs):
            if not (0 <= c < n):
                off = None
                break
            off = off * n + c
        out.append(off)
    return out


def rand_adv_values(rng, n, shape, bad=False):
    """index values for a dim of size n with the given shape (nested lists)"""
    def val():
        if bad:
            return n + 1
        return rng.randrange(-n, n) if n else 0
    if len(shape) == 1:
        return [val() for _ in range(shape[0])]
    return [[val() for _ in range(shape[1])] for _ in range(shape[0])]


def rand_mask(rng, shape):
    kind = rng.choice(["mixed", "mixed", "all", "none"])
    tot = int(np.prod(shape)) if shape else 1
    if kind == "all":
        flat = [True] * tot
    elif kind == "none":
        flat = [False] * tot
    else:
        flat = [rng.random() < 0.5 for _ in range(tot)]
    return np.array(flat, dtype=bool).reshape(shape).tolist()


def gen_index(rng, bs, malformed=False):
    """a structured, mostly valid index tuple for batch shape bs; returns list of descriptors"""
    rank = len(bs)
    n_items = rng.choice([0, 1, 1, 2, 2, 3, 3, 4]) if rank else rng.choice([0, 1, 1, 2])
    items = []
    cur = 0
    used_ell = False
    n_adv = 0
    for _ in range(n_items):
        dim = bs[cur] if cur < rank else rng.choice([1, 2, 3])
        beyond = cur >= rank
        kinds = ["int", "int", "sl", "sl", "sl", "non", "adv", "adv", "mask"]
        if not used_ell:
            kinds += ["ell"]
        if rank:
            kinds += ["ten0"]
        k = rng.choice(kinds)
        if beyond and k in ("int", "sl", "adv", "mask", "ten0") and not malformed and rng.random() < 0.85:
            k = rng.choice(["non", "non", "ell"] if not used_ell else ["non"])
        if k == "int":
            v = rng.randrange(-dim, dim) if dim and not (malformed and rng.random() < 0.5) else rng.choice([dim, -dim - 1, 4])
            items.append(["int", v])
            cur += 1
        elif k == "ten0":
            v = rng.randrange(-dim, dim) if dim else 0
            if dim == 0:
                items.append(["sl", None, None, None])
            else:
                items.append(["ten0", v])
            cur += 1
        elif k == "sl":
            vals = [None, None, -2, -1, 0, 1, 2, 3]
            st = rng.choice([None, None, 1, 1, 2, 3] + ([0, -1] if malformed else []))
            items.append(["sl", rng.choice(vals), rng.choice(vals), st])
            cur += 1
        elif k == "non":
            items.append(["non"])
        elif k == "ell":
            items.append(["ell"])
            used_ell = True
            # the ellipsis swallows dims: jump the cursor so that following items index trailing dims
            rest = rng.randrange(0, 2)
            cur = max(cur, rank - rest)
        elif k == "adv":
            if n_adv >= 2 and rng.random() < 0.7:
                items.append(["non"])
                continue
            sh = rng.choice([[1], [2], [2], [3], [2, 2], [1, 2], [0]])
            if n_adv and rng.random() < 0.7:
                sh = rng.choice([[2], [1], [2, 2]])  # broadcast-compatible most of the time
            bad = malformed and rng.random() < 0.5
            if dim == 0 and not bad:
                sh = [0]
            vals = rand_adv_values(rng, dim, sh, bad) if sh != [0] else []
            form = rng.choice(["list", "range", "np", "ten", "ten"])
            if len(sh) == 2:
                form = rng.choice(["np", "ten"])
            if form == "range":
                m = min(sh[0], dim)
                items.append(["range", m])
            elif form == "list":
                items.append(["list", vals])
            else:
                items.append([form, vals])
            n_adv += 1
            cur += 1
        elif k == "mask":
            k2 = rng.choice([1, 1, 2])
            shape = list(bs[cur:cur + k2])
            if len(shape) < k2 or (malformed and rng.random() < 0.5):
                shape = [rng.choice([1, 2, 3]) for _ in range(k2)]
            if n_adv and rng.random() < 0.6:
                items.append(["non"])
                continue
            # numpy boolean masks only at rank 1: torch counts a numpy mask as ONE specified dim when it expands an
            # Ellipsis (its own quirk), so rank-2 numpy masks next to an Ellipsis are rejected by torch itself
            items.append([rng.choice(["mask", "mask", "npmask"]) if k2 == 1 else "mask", rand_mask(rng, shape)])
            n_adv += 1
            cur += k2
    return items


def along_batch(idx, descs, rank):
    """the same index applied 'along the batch dims' of an entry with trailing feature dims: the Ellipsis stands for
    the batch dims it covers in the batch shape (rank - consumed), not for the entry's trailing dims"""
    if not any(d[0] == "ell" for d in descs):
        return idx
    cons = 0
    for d in descs:
        if d[0] in ("non", "ell"):
            continue
        cons += len(shape_of(d[1])) if d[0] in ("mask", "npmask") else 1
    out = []
    for o, d in zip(idx if isinstance(idx, tuple) else (idx,), descs):
        if d[0] == "ell":
            out.extend([slice(None)] * max(rank - cons, 0))
        else:
            out.append(o)
    return tuple(out)


def to_py(descs, scalar_ok=True):
    objs = [build_item(d) for d in descs]
    return tuple(objs)


# ------------------------------------------------------------------ subject
def make_td(bs, named, flat=False):
    n = int(np.prod(bs)) if bs else 1
    if flat:
        b = torch.arange(n, dtype=torch.int64).reshape(*bs) * 3 + 100 if bs else torch.tensor(100)
        td = TensorDict({"b": b, "b2": b + 50000}, batch_size=list(bs))
        if named and bs:
            td.names = [f"d{i}" for i in range(len(bs))]
        return td
    a = torch.arange(n * 2, dtype=torch.int64).reshape(*bs, 2) + 1
    b = torch.arange(n, dtype=torch.int64).reshape(*bs) * 3 + 100 if bs else torch.tensor(100)
    c = torch.arange(n * 6, dtype=torch.int64).reshape(*bs, 2, 3) + 1000
    td = TensorDict({"a": a, "b": b, "n": TensorDict({"c": c}, batch_size=[*bs, 2])}, batch_size=list(bs))
    if named and bs:
        td.names = [f"d{i}" for i in range(len(bs))]
    return td


def observe_td(x):
    out = {"bs": list(x.batch_size), "names": list(x.names) if x._has_names() else None, "leaves": {}}
    for k, v in x.items(True, True):
        out["leaves"]["/".join(k) if isinstance(k, tuple) else k] = [list(v.shape), v.reshape(-1).tolist()]
    n = x.get("n", None)
    out["nested_bs"] = list(n.batch_size) if n is not None else None
    return out


def shares(t, src):
    return t.numel() > 0 and t.untyped_storage().data_ptr() == src.untyped_storage().data_ptr()


SHAPES = [s for r in range(0, 4) for s in itertools.product([0, 1, 2, 3], repeat=r)]


def classify(descs, bs):
    """decidable patterns used as finding signatures / partial-theorem exclusions"""
    cons = 0
    for d in descs:
        if d[0] in ("non", "ell"):
            continue
        if d[0] in ("mask", "npmask"):
            cons += len(shape_of(d[1]))
        else:
            cons += 1
    return {"consumes_more_than_rank": cons > len(bs)}


def check_reads(R, cases):
    lines = []
    for ci, (bs, named, descs, single) in enumerate(cases):
        idx_sx = [item_sx(d) for d in descs]
        lines.append(sx([Sym("torch-shape"), list(bs), idx_sx]))
        lines.append(sx([Sym("getitem-bs"), list(bs), idx_sx]))
        lines.append(sx([Sym("sel-all"), list(bs), [vitem_sx(d) for d in descs]]))
        lines.append(sx([Sym("is-view"), idx_sx]))
        nm = names_pattern(bs, named, ci)
        lines.append(sx([Sym("getitem-names"), some([some(i) for i in nm]) if nm is not None else None, list(bs), idx_sx,
                         all(d[0] != "npmask" for d in descs)]))
        lines.append(sx([Sym("handed"), list(bs), idx_sx]))
        lines.append(sx([Sym("nested-names"), some([some(i) for i in nm]) if nm is not None else None, list(bs), [2], idx_sx,
                         all(d[0] != "npmask" for d in descs)]))
    m = R.model(lines)
    spec_bad = 0
    for ci, (bs, named, descs, single) in enumerate(cases):
        spec, mod_bs, mod_sel, mod_view, mod_names, mod_handed, mod_nnames = m[7 * ci:7 * ci + 7]
        nm = names_pattern(bs, named, ci)
        case = {"op": "getitem", "bs": list(bs), "named": named, "index": descs, "single": single}
        sig = classify(descs, bs)
        py = to_py(descs)
        idx = py[0] if (single and len(py) == 1) else py
        proxy = call(lambda: list(torch.zeros(bs)[idx].shape))
        n_ell = sum(1 for d in descs if d[0] == "ell")
        in_grammar = n_ell <= 1
        # (0) my spec against real torch (machinery self-check; values of advanced indices are a side condition)
        spec_o = spec[1] if isinstance(spec, list) and spec[0] == "some" else None
        if in_grammar:
            if proxy[0] == "ok" and spec_o != proxy[1]:
                spec_bad += 1
                print(f"SPEC-MISMATCH TorchIndex bs={bs} idx={descs}: torch {proxy[1]} spec {spec_o}")
            if proxy[0] != "ok" and spec_o is not None and not any(d[0] in ("list", "np", "ten", "ten0", "range") for d in descs):
                spec_bad += 1
                print(f"SPEC-MISMATCH TorchIndex bs={bs} idx={descs}: torch rejects, spec {spec_o}")
        # (0b) the element map of the spec against real torch on an arange proxy: every element of the result
        offs = None
        if in_grammar and proxy[0] == "ok":
            nel = int(np.prod(bs)) if bs else 1
            src = torch.arange(nel, dtype=torch.int64).reshape(bs)
            want_offs = src[idx].reshape(-1).tolist()
            offs = offsets_of(mod_sel, bs)
            if offs != want_offs:
                spec_bad += 1
                print(f"SPEC-MISMATCH TorchSel bs={bs} idx={descs}: torch {want_offs[:12]} spec {None if offs is None else offs[:12]}")
                offs = None
            else:
                R.count("sel:validated-elements", len(want_offs))
                if len(want_offs) > 1:
                    R.count("sel:validated-cases-with->1-element")
            # view vs copy of the spec against torch (a result without elements shares nothing observable)
            if want_offs and bs and nel and (mod_view == "t") != shares(src[idx], src):
                spec_bad += 1
                print(f"SPEC-MISMATCH is_view bs={bs} idx={descs}: torch shares {shares(src[idx], src)} spec {mod_view}")
        td = make_td(bs, named)
        if nm is not None:
            td.names = [None if i is None else f"d{i}" for i in nm]
        got = call(lambda: td[idx])
        R.case(("get", tuple(bs), named, json.dumps(descs), single), nontrivial=len(descs) > 0,
               sample=case if ci % 3001 == 0 else None)
        R.count("read:" + ("torch-accepts" if proxy[0] == "ok" else "torch-rejects"))
        for d in descs:
            R.count("item:" + d[0])
        if not in_grammar:
            continue
        if isinstance(got[1], TensorDict) or got[0] == "raise":
            pass
        else:
            R.oracle_fail("getitem:type", case, {"got": repr(type(got[1]))}, dict(sig, call="__getitem__"))
            continue
        # (1) oracle on the implementation
        if proxy[0] == "ok":
            if got[0] != "ok":
                R.oracle_fail("getitem:valid-index-rejected", case, {"torch": proxy[1], "tensordict": got[1]},
                              dict(sig, call="__getitem__", kind="valid-rejected"))
            else:
                r = got[1]
                o = observe_td(r)
                detail = None
                if o["bs"] != proxy[1]:
                    detail = {"what": "batch_size", "torch": proxy[1], "tensordict": o["bs"]}
                else:
                    for key, leaf in (("a", td.get("a")), ("b", td.get("b")), ("n/c", td.get(("n", "c")))):
                        want = leaf[along_batch(idx, descs, len(bs))]
                        if o["leaves"][key] != [list(want.shape), want.reshape(-1).tolist()]:
                            detail = {"what": "leaf " + key, "torch": [list(want.shape), want.reshape(-1).tolist()][0],
                                      "tensordict": o["leaves"][key][0]}
                            break
                        g = r.get(tuple(key.split("/")))
                        if shares(g, leaf) != shares(want, leaf):
                            detail = {"what": "memory sharing of leaf " + key, "torch_shares": shares(want, leaf),
                                      "tensordict_shares": shares(g, leaf)}
                            break
                    if detail is None and o["nested_bs"] != proxy[1] + [2]:
                        detail = {"what": "nested batch_size", "want": proxy[1] + [2], "tensordict": o["nested_bs"]}
                    if detail is None and o["names"] is not None and len(o["names"]) != len(o["bs"]):
                        detail = {"what": "names length", "names": o["names"], "batch_size": o["bs"]}
                        sig = dict(sig, kind="names-length", mask_in_tuple=any(d[0] in ("mask", "npmask") for d in descs) and not (single and len(descs) == 1))
                if detail is not None:
                    R.oracle_fail("getitem:result", case, detail, dict(sig, call="__getitem__", what=detail["what"].split(" ")[0]))
        else:
            if sig["consumes_more_than_rank"] and got[0] != "ok":
                # every entry of this variant has feature dims: nothing but the batch-size bookkeeping can reject
                td2 = make_td(bs, named)
                td2.del_("b")
                got = call(lambda: td2[idx])
                case = dict(case, variant="entries-with-feature-dims-only")
            if got[0] == "ok":
                R.oracle_fail("getitem:invalid-index-accepted", case,
                              {"torch": "raises " + proxy[1], "tensordict_batch_size": list(got[1].batch_size)},
                              dict(sig, call="__getitem__", kind="invalid-accepted", leafless=False))
        # (2) correspondence with the model: batch size or rejection of the bookkeeping itself
        if proxy[0] == "ok" and got[0] == "ok":
            mo = mod_bs[1] if isinstance(mod_bs, list) else "reject"
            if mo != list(got[1].batch_size):
                R.mismatch("getitem-bs", case, list(got[1].batch_size), mo)
            # names of the result (base.py::_get_names_idx) vs the model, as source-dim numbers
            if nm is not None:
                r = got[1]
                have = [None if x is None else int(x[1:]) for x in r.names] if r._has_names() else None
                want = "reject" if not isinstance(mod_names, list) else (None if mod_names[1] == "none" else
                                                                         [None if e == "none" else e[1] for e in mod_names[1][1]])
                if have != want:
                    R.mismatch("getitem-names", dict(case, names=nm), have, want)
                R.count("names:" + ("none" if have is None else "some"))
                # the nested node (batch size bs + [2], names + [None]) is indexed with the same dispatched index
                rn = r.get("n")
                have_n = [None if x is None else int(x[1:]) for x in rn.names] if rn._has_names() else None
                want_n = "reject" if not isinstance(mod_nnames, list) else (None if mod_nnames[1] == "none" else
                                                                           [None if e == "none" else e[1] for e in mod_nnames[1][1]])
                if have == want and have_n != want_n:
                    R.mismatch("getitem-names:nested", dict(case, names=nm), have_n, want_n)
            # which object reaches the leaves: the tensordict itself, or leaf[idx'] with the dispatched index
            lib_self = got[1] is td
            if lib_self != (mod_handed == "self"):
                R.mismatch("getitem-dispatch", case, "self" if lib_self else "indexed", mod_handed)
            if offs is not None and not sig["consumes_more_than_rank"]:
                # element by element: leaf b (no feature dims) holds 3 * offset + 100, leaf a (feature dims [2]) holds
                # 2 * offset + f + 1: the model's sel, and sel (bs ++ feat) (r ++ f) = sel bs r ++ f
                r = got[1]
                hb = call(lambda: [(v - 100) // 3 for v in r.get("b").reshape(-1).tolist()])
                ha = call(lambda: [v - 1 for v in r.get("a").reshape(-1).tolist()])
                if hb != ("ok", offs):
                    R.mismatch("getitem-sel:b", case, hb[1] if hb[0] == "raise" else hb[1][:24], offs[:24])
                elif ha != ("ok", [2 * o + f for o in offs for f in range(2)]):
                    R.mismatch("getitem-sel:a(feature dims)", case, ha[1] if ha[0] == "raise" else ha[1][:24], offs[:24])
                # memory sharing: the model's classification of the index vs what the library's result does
                if offs and bs:
                    lib_shares = shares(r.get("b"), td.get("b"))
                    if lib_shares != (mod_view == "t"):
                        R.mismatch("getitem-view", case, lib_shares, mod_view)
                    R.count("view:" + ("view" if mod_view == "t" else "copy"))
        R.traces += 1
    return spec_bad


def check_writes(R, cases):
    frame = []
    for ci, (bs, named, descs, single) in enumerate(cases):
        descs = writable(R.rng, bs, descs)
        single = single and len(descs) == 1
        py = to_py(descs)
        idx = py[0] if (single and len(py) == 1) else py
        if sum(1 for d in descs if d[0] == "ell") > 1:
            continue
        proxy = call(lambda: list(torch.zeros(bs)[idx].shape))
        if proxy[0] != "ok":
            continue
        tshape = proxy[1]
        vkind = R.rng.choice(["scalar", "tensor0", "tensor", "td", "td-bcast", "dict", "td-newkey"])
        case = {"op": "setitem", "bs": list(bs), "named": named, "index": descs, "single": single, "value": vkind}
        flat = vkind == "tensor"
        td = make_td(bs, named, flat=flat)
        if flat:
            ref = {k: td.get(k).clone() for k in ("b", "b2")}
            feats = {"b": [], "b2": []}
        else:
            ref = {k: td.get(k).clone() for k in ("a", "b", ("n", "c"))}
            feats = {"a": [2], "b": [], ("n", "c"): [2, 3]}

        def mk(shape, base):
            n = int(np.prod(shape)) if shape else 1
            return (torch.arange(n, dtype=torch.int64).reshape(shape) if shape else torch.tensor(0)) - base
        sig = dict(classify(descs, bs), call="__setitem__", value=vkind)
        if vkind == "dict":
            # a dict value cannot state the batch size of its nested part: the nested value gets the indexed batch size
            # [tshape] while the destination's nested node has [tshape + [2]]; the left-expansion rule then misfires
            # exactly when [tshape] is also a suffix of [tshape + [2]]  (finding D30)
            sig["nested_value_batch_ambiguous"] = (tshape + [2])[len(tshape + [2]) - len(tshape):] == tshape
        if vkind == "td-newkey":
            sig["bare_list_index"] = bool(single and len(descs) == 1 and descs[0][0] == "list")
        R.case(("set", tuple(bs), json.dumps(descs), single, vkind), nontrivial=len(descs) > 0, sample=case if ci % 2503 == 0 else None)
        R.count("write:" + vkind)
        if vkind == "scalar":
            got = call(lambda: td.__setitem__(idx, -7))
            exp = {}
            for k in ref:
                exp[k] = call(lambda: ref[k].__setitem__(along_batch(idx, descs, len(bs)), -7))
        elif vkind in ("tensor", "tensor0"):
            # the literal rule of the property: entry[idx] = value for every entry (tensor0: 0-dim value, broadcasts
            # into every entry; tensor: a value of the indexed batch shape on entries without feature dims)
            v = mk(tshape, 5000) if vkind == "tensor" else torch.tensor(-9)
            got = call(lambda: td.__setitem__(idx, v))
            exp = {}
            for k in ref:
                exp[k] = call(lambda: ref[k].__setitem__(along_batch(idx, descs, len(bs)), v))
        else:
            lead = tshape
            if vkind == "td-bcast" and len(tshape) >= 1:
                lead = tshape[1:]
            vals = {k: mk(lead + feats[k], 7000 + 100 * i) for i, k in enumerate(ref)}
            src = {"a": vals["a"], "b": vals["b"], "n": {"c": vals[("n", "c")]}}
            if vkind == "td-newkey":
                src["z"] = mk(lead + [2], 9000)
            if vkind == "dict":
                v = src
            else:
                v = TensorDict({"a": src["a"], "b": src["b"], "n": TensorDict({"c": src["n"]["c"]}, batch_size=lead + [2]),
                                **({"z": src["z"]} if "z" in src else {})}, batch_size=lead)
            got = call(lambda: td.__setitem__(idx, v))
            exp = {}
            for k in ref:
                exp[k] = call(lambda: ref[k].__setitem__(along_batch(idx, descs, len(bs)), vals[k]))
        # oracle: every leaf equals the torch-assigned reference; the write is rejected iff torch rejects it
        ok_t = all(e[0] == "ok" for e in exp.values())
        if ok_t and got[0] != "ok":
            # dict values go through from_dict_instance with the indexed batch size: same rule
            R.oracle_fail("setitem:valid-write-rejected", case, {"tensordict": got[1]}, dict(sig, kind="valid-rejected"))
        elif got[0] == "ok" and ok_t:
            if vkind in ("scalar", "tensor0") and not flat and not sig["consumes_more_than_rank"]:
                # frame, against the model: the batch positions of leaf b that changed (every old value differs from the new one)
                nel = int(np.prod(bs)) if bs else 1
                old = (torch.arange(nel, dtype=torch.int64).reshape(bs) * 3 + 100) if bs else torch.tensor(100)
                changed = sorted(torch.nonzero((td.get("b") != old).reshape(-1)).reshape(-1).tolist())
                changed_a = sorted(torch.nonzero((td.get("a") != (torch.arange(nel * 2, dtype=torch.int64).reshape(*bs, 2) + 1)).reshape(-1)).reshape(-1).tolist())
                frame.append((case, bs, descs, changed, changed_a))
            for k in ref:
                have = td.get(k)
                if have.shape != ref[k].shape or not torch.equal(have, ref[k]):
                    R.oracle_fail("setitem:content", case, {"leaf": str(k), "want": ref[k].reshape(-1).tolist()[:24],
                                                            "have": have.reshape(-1).tolist()[:24]}, dict(sig, kind="content"))
                    break
            else:
                if vkind == "td-newkey":
                    z = td.get("z", None)
                    if z is None or list(z.shape) != list(bs) + [2] or not torch.equal(z[along_batch(idx, descs, len(bs))], src["z"].expand(tshape + [2])):
                        R.oracle_fail("setitem:new-key", case, {"z": None if z is None else list(z.shape)}, dict(sig, kind="new-key"))
        elif got[0] == "ok" and not ok_t:
            R.oracle_fail("setitem:invalid-write-accepted", case, {"torch": {str(k): e for k, e in exp.items()}},
                          dict(sig, kind="invalid-accepted"))
        R.traces += 1
    # the written positions = the image of the model's sel (and (image) x (all feature positions) for leaf a)
    m = R.model([sx([Sym("sel-all"), list(bs), [vitem_sx(d) for d in descs]]) for (_, bs, descs, _, _) in frame])
    for (case, bs, descs, changed, changed_a), mod_sel in zip(frame, m):
        offs = offsets_of(mod_sel, bs)
        want = None if offs is None or None in offs else sorted(set(offs))
        R.count("write:frame-compared")
        if want != changed:
            R.mismatch("setitem-frame:b", case, changed[:24], None if want is None else want[:24])
        elif changed_a != sorted(2 * o + f for o in want for f in range(2)):
            R.mismatch("setitem-frame:a(feature dims)", case, changed_a[:24], want[:24])


# ------------------------------------------------------------------ writes: model of __setitem__ (shapes and keys)
def tree_sx(x):
    """shape skeleton of a tensordict / nested dict of tensors as the model's vtree"""
    if isinstance(x, torch.Tensor):
        return [Sym("leaf"), list(x.shape)]
    if isinstance(x, dict):
        return [Sym("node"), [], [[k, tree_sx(v)] for k, v in x.items()]]
    return [Sym("node"), list(x.batch_size), [[k, tree_sx(v)] for k, v in x.items()]]


def tree_obs(x):
    if isinstance(x, torch.Tensor):
        return ["leaf", list(x.shape)]
    return ["node", list(x.batch_size), sorted([k, tree_obs(v)] for k, v in x.items())]


def tree_of_model(t):
    if t[0] == "leaf":
        return ["leaf", list(t[1])]
    return ["node", list(t[1]), sorted([k, tree_of_model(c)] for k, c in t[2])]


def perturb(rng, sh):
    sh = list(sh)
    k = rng.choice(["dim", "drop", "add", "one"])
    if k == "dim" and sh:
        i = rng.randrange(len(sh))
        sh[i] = sh[i] + 1
    elif k == "drop" and sh:
        del sh[rng.randrange(len(sh))]
    elif k == "one" and sh:
        sh[rng.randrange(len(sh))] = 1
    else:
        sh.insert(rng.randrange(len(sh) + 1), rng.choice([1, 2]))
    return sh


def gen_write_value(rng, bs, T):
    """(kind, python value or None when it cannot be built, model sexp)"""
    kind = rng.choice(["scalar", "tensor", "tensor", "td", "td", "td", "td", "dict", "dict"])
    if kind == "scalar":
        return kind, -7, Sym("scalar")
    if kind == "tensor":
        vsh = rng.choice([T, T, T[1:], [1] + T, T + [2], [1, 1] + T[-1:], perturb(rng, T), []])
        if int(np.prod(vsh)) > 4096:
            vsh = T
        return kind, torch.zeros(vsh, dtype=torch.int64) - 3, [Sym("tensor"), list(vsh)]
    r = rng.random()
    if r < 0.45:
        vbs = list(T)
    elif r < 0.7:
        vbs = list(T[rng.randrange(0, len(T) + 1):])
    elif r < 0.8:
        vbs = []
    else:
        vbs = perturb(rng, T)

    def lead():
        q = rng.random()
        return list(vbs) if q < 0.8 else (list(T) if q < 0.9 else perturb(rng, vbs))
    keys = [k for k in ("a", "b", "n", "z", "m") if rng.random() < (0.6 if k in ("a", "b", "n") else 0.35)] or ["b"]
    feats = {"a": [2], "b": [], "z": [2]}
    src = {}
    for k in keys:
        if k in feats:
            src[k] = torch.zeros(lead() + (feats[k] if rng.random() < 0.93 else perturb(rng, feats[k])), dtype=torch.int64) - 5
        elif k == "n":
            l = lead()
            inner = {"c": torch.zeros(l + [2, 3], dtype=torch.int64) - 5}
            if rng.random() < 0.25:
                inner["w"] = torch.zeros(l + [2], dtype=torch.int64) - 5      # key missing from the nested destination
            src[k] = (inner, rng.choice([l + [2], l + [2], l, []]))
        else:
            l = lead()
            src[k] = ({"x": torch.zeros(l + [3], dtype=torch.int64) - 5}, rng.choice([l, l, l + [3], []]))
    if kind == "td" and rng.random() < 0.15:
        # a nested node without content (its batch size is reset, not checked, when the value's batch size is reset)
        src["e"] = ({}, rng.choice([lead(), perturb(rng, vbs), []]))
    if kind == "dict":
        v = {k: (x[0] if isinstance(x, tuple) else x) for k, x in src.items()}
        return kind, v, [Sym("dict"), tree_sx(v)]
    try:
        v = TensorDict({k: (TensorDict(x[0], batch_size=x[1]) if isinstance(x, tuple) else x) for k, x in src.items()}, batch_size=vbs)
    except EXC:
        return kind, None, None
    return kind, v, [Sym("td"), tree_sx(v)]


def check_setitem_model(R, cases):
    """td[idx] = value on generated value SHAPES (exact / broadcastable / wrong), existing and missing keys, nested nodes:
    accepted or rejected, and the shape skeleton of the destination afterwards, against Model/C03_SetItem.setitem"""
    lines, todo, spec_bad = [], [], 0
    for (bs, named, descs, single) in cases:
        py = to_py(descs)
        idx = py[0] if (single and len(py) == 1) else py
        if sum(1 for d in descs if d[0] == "ell") > 1:
            continue
        proxy = call(lambda: list(torch.zeros(bs)[idx].shape))
        if proxy[0] != "ok":
            continue
        T = proxy[1]
        kind, v, vsx = gen_write_value(R.rng, list(bs), T)
        if vsx is None:
            R.count("wmodel:value-not-constructible")
            continue
        flat = R.rng.random() < 0.2
        td = make_td(bs, False, flat=flat)
        idx_sx = [item_sx(d) for d in descs]
        lines.append(sx([Sym("setitem-full"), tree_sx(td), idx_sx, vsx]))
        if kind == "tensor":
            lines.append(sx([Sym("write-ok"), list(bs), [item_sx(d) for d in descs if d[0] != "ell"] if False else idx_sx, list(v.shape)]))
        else:
            lines.append(sx([Sym("write-ok"), list(bs), idx_sx, []]))
        todo.append((bs, descs, single, idx, kind, v, td, T))
    m = R.model(lines)
    for i, (bs, descs, single, idx, kind, v, td, T) in enumerate(todo):
        mod, mod_ok = m[2 * i], m[2 * i + 1]
        case = {"op": "setitem-model", "bs": list(bs), "index": descs, "single": single, "value": kind,
                "value_tree": sx(tree_sx(v)) if kind in ("td", "dict") else (list(v.shape) if kind == "tensor" else None)}
        if kind == "tensor":
            # torch's own acceptance rule for tensor[idx] = value, on a proxy of the batch shape (spec self-check)
            t_ok = call(lambda: torch.zeros(bs, dtype=torch.int64).__setitem__(idx, v))[0] == "ok"
            if t_ok != (mod_ok == "t"):
                spec_bad += 1
                print(f"SPEC-MISMATCH torch_write_ok bs={bs} idx={descs} value={list(v.shape)}: torch {t_ok} spec {mod_ok}")
        got = call(lambda: td.__setitem__(idx, v))
        have = ["ok", tree_obs(td)] if got[0] == "ok" else "reject"
        want = ["ok", tree_of_model(mod[1])] if isinstance(mod, list) and mod[0] == "ok" else "reject"
        R.case(("wmodel", tuple(bs), json.dumps(descs), single, json.dumps(case["value_tree"])), nontrivial=True,
               sample=case if i % 1999 == 0 else None)
        R.count("wmodel:" + kind + ":" + ("accepted" if got[0] == "ok" else "rejected"))
        if kind in ("td", "dict") and got[0] == "ok" and len(have[1][2]) > (2 if "b2" in td.keys() and "a" not in td.keys() else 3):
            R.count("wmodel:new-key-created")
        if have != want:
            R.mismatch("setitem-model", case, have if have == "reject" else {"accepted": have[1]}, want if want == "reject" else {"accepted": want[1]})
        R.traces += 1
    return spec_bad


def consumption(d):
    if d[0] in ("non", "ell"):
        return 0
    if d[0] in ("mask", "npmask"):
        return len(shape_of(d[1]))
    return 1


def writable(rng, bs, descs):
    """for writes: at most one advanced index and no repeated target position (torch leaves the result of an indexed
    write with duplicate positions unspecified)"""
    rank = len(bs)
    cons = [consumption(d) for d in descs]
    pos, cur, after_ell = [], 0, False
    for i, d in enumerate(descs):
        if d[0] == "ell":
            after_ell = True
        pos.append(rank - sum(cons[i:]) if after_ell else cur)
        cur += cons[i]
    out, seen_adv = [], False
    for d, p in zip(descs, pos):
        k = d[0]
        if k in ("list", "np", "ten", "range", "mask", "npmask"):
            dim = bs[p] if 0 <= p < rank else 1
            if seen_adv:
                out.extend([["sl", None, None, None]] * consumption(d))
                continue
            seen_adv = True
            if k in ("list", "np", "ten"):
                sh = shape_of(d[1])
                tot = int(np.prod(sh)) if sh else 0
                if tot > dim:
                    sh, tot = [dim], dim
                vals = rng.sample(range(dim), tot) if tot else []
                vals = [v - dim if rng.random() < 0.3 else v for v in vals]
                nested = np.array(vals, dtype=np.int64).reshape(sh).tolist() if sh else []
                if k == "list" and len(sh) != 1:
                    k = "ten"
                out.append([k, nested])
            else:
                out.append(d)
        else:
            out.append(d)
    return out


def gen_cases(R, n, malformed_frac=0.12):
    rng = R.rng
    cases = []
    for _ in range(n):
        bs = rng.choice(SHAPES)
        if rng.random() < 0.5:
            bs = rng.choice([s for s in SHAPES if 0 not in s])
        named = rng.random() < 0.3
        mal = rng.random() < malformed_frac
        descs = gen_index(rng, bs, malformed=mal)
        if rng.random() < 0.04:
            # over-long stream: more dim-consuming items than batch dims (torch rejects these for the batch shape)
            while sum(consumption(d) for d in descs) <= len(bs):
                descs.append(rng.choice([["int", 0], ["sl", None, None, None], ["int", -1], ["list", [0]]]))
            R.count("stream:overlong")
        single = len(descs) == 1 and rng.random() < 0.5
        R.count("stream:" + ("malformed" if mal else "valid"))
        cases.append((tuple(bs), named, descs, single))
    return cases


def small_grid():
    """exhaustive small scope: every tuple of <= 2 items from a fixed alphabet on shapes of rank <= 2 over {1,2,3}"""
    alpha = [["int", 0], ["int", -1], ["int", 2], ["sl", None, None, None], ["sl", 1, None, None], ["sl", None, -1, 2], ["non"], ["ell"],
             ["list", [0, 1]], ["ten", [[0, 0], [0, 0]]], ["ten0", 0], ["range", 1]]
    out = []
    for bs in [(), (2,), (3, 2), (2, 1), (2, 3, 2)]:
        for k in range(0, 4 if len(bs) >= 2 else 3):
            for tup in itertools.product(alpha, repeat=k):
                out.append((bs, False, [list(t) for t in tup], False))
    return out


def main(R):
    torch.set_num_threads(1)
    R.rule = ("index tuples generated item by item with a dimension cursor (ints, slices, None, Ellipsis, lists, ranges, numpy arrays, "
              "integer tensors rank 0..2, boolean masks rank 1..2 sized from the dims at the cursor; ~12% malformed stream: out-of-range "
              "ints/values, wrong mask shapes, step<=0) over all batch shapes of rank 0..3 with dims in {0,1,2,3}, plus an exhaustive small "
              "grid; reads and writes (scalar/tensor/tensordict/broadcast/dict/new-key values); distinct by (shape, names, index, value kind); "
              "non-trivial = non-empty index.  Model streams: element map sel-all vs arange proxy and vs leaves b / a (feature dims), "
              "names (fully / partially named), dispatch (self vs indexed) and view class, written positions of scalar writes vs image of sel, "
              "setitem-model: value shapes exact / suffix / [] / perturbed for tensors, tensordicts and dicts with existing, missing and nested "
              "keys (accept/reject + shape skeleton of the destination afterwards)")
    R.assumptions = ["which elements tensor[idx] selects is torch's behaviour: Spec/C03_TorchSel.sel is my statement of it, compared element by "
                     "element with torch.arange(n).reshape(bs)[idx] on every torch-accepted read of this run; leaves hold distinct integers so "
                     "selection is visible",
                     "Spec/C03_TorchIndex (shapes), Spec/C03_TorchSel.is_view (view vs copy) and Model/C03_SetItem.torch_write_ok (what "
                     "tensor[idx] = value accepts) are validated against real torch on every generated case of this run",
                     "kernel-level behaviour of writes with repeated target positions is outside the grammar (writable())"]
    R.trusted = ["Spec/C03_TorchIndex.v (torch's two-stage indexing shape rule) — re-validated against torch in this run",
                 "Spec/C03_TorchSel.v (element map, view class) — re-validated against torch in this run"]
    R.step_prove()
    ok = R.step_driver()
    if not ok:
        return
    n = 20000 if R.quick else 250000
    cases = small_grid() if not R.quick else small_grid()[::7]
    cases += gen_cases(R, n)
    spec_bad = check_reads(R, cases)
    wcases = gen_cases(R, 8000 if R.quick else 100000, malformed_frac=0.05)
    check_writes(R, wcases)
    spec_bad += check_setitem_model(R, gen_cases(R, 6000 if R.quick else 80000, malformed_frac=0.0))
    check_leafless(R)
    if spec_bad:
        raise RuntimeError(f"{spec_bad} SPEC-MISMATCH lines (machinery bug: Spec/C03_TorchIndex disagrees with torch)")


def check_leafless(R):
    """tensordicts without any tensor entry: there is no entry to reject an index torch rejects"""
    for bs in [(3,), (2, 2), (0,), ()]:
        for descs in [[["int", 5]], [["int", -4]], [["int", 0], ["int", 0], ["int", 0]], [["list", [7]]], [["sl", None, None, 0]],
                      [["int", 0]], [["sl", 1, None, None]]]:
            for kind in ("empty", "nested-empty"):
                td = TensorDict({}, list(bs)) if kind == "empty" else TensorDict({"n": TensorDict({}, list(bs))}, list(bs))
                py = to_py(descs)
                proxy = call(lambda: list(torch.zeros(bs)[py].shape))
                got = call(lambda: td[py])
                case = {"op": "getitem-leafless", "bs": list(bs), "index": descs, "kind": kind}
                R.case(("leafless", bs, json.dumps(descs), kind), nontrivial=True)
                R.count("read:leafless")
                if proxy[0] != "ok" and got[0] == "ok":
                    R.oracle_fail("getitem:invalid-index-accepted", case, {"torch": "raises " + proxy[1],
                                  "tensordict_batch_size": list(got[1].batch_size)},
                                  {"call": "__getitem__", "kind": "invalid-accepted", "leafless": True})
                elif proxy[0] == "ok" and (got[0] != "ok" or list(got[1].batch_size) != proxy[1]):
                    R.oracle_fail("getitem:result", case, {"torch": proxy[1], "tensordict": repr(got)},
                                  {"call": "__getitem__", "what": "batch_size", "leafless": True})


def replay(body):
    case = body["case"]
    bs, descs = tuple(case["bs"]), case["index"]
    py = to_py(descs)
    idx = py[0] if (case.get("single") and len(py) == 1) else py
    print("index:", idx)
    print("torch on proxy:", call(lambda: list(torch.zeros(bs)[idx].shape)))
    td = make_td(bs, case.get("named", False))
    if case["op"] == "getitem":
        r = call(lambda: td[idx])
        print("tensordict:", r[0], observe_td(r[1]) if r[0] == "ok" else r[1])
    from .core import run_model, build_driver
    build_driver("C03")
    idx_sx = [item_sx(d) for d in descs]
    print("model:", run_model("C03", [sx([Sym("index-bs"), list(bs), idx_sx]), sx([Sym("torch-shape"), list(bs), idx_sx])]))
    print("model sel-all / handed:", run_model("C03", [sx([Sym("sel-all"), list(bs), [vitem_sx(d) for d in descs]]),
                                                       sx([Sym("handed"), list(bs), idx_sx])]))
    print(json.dumps(body.get("detail"), default=str))
    return 0
