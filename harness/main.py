import argparse
import importlib
import json
import os
import sys
import traceback

from . import core


def main():
    ap = argparse.ArgumentParser()
    ap.add_argument("pid")
    ap.add_argument("--tier", default=os.environ.get("VERIF_TIER", "quick"), choices=["quick", "thorough"])
    ap.add_argument("--replay")
    a = ap.parse_args()
    seed = int(os.environ.get("VERIF_SEED", "0"))
    try:
        from . import cext
        cext.install()  # the native helper every check runs against is rebuilt from /repo/tensordict/csrc
        mod = importlib.import_module("harness." + a.pid.lower())
    except Exception:
        traceback.print_exc()
        print(f"CHECK-ERROR property={a.pid}: the library under test or the harness module does not import (see traceback)")
        sys.exit(2)
    if a.replay:
        body = json.load(open(a.replay))
        sys.exit(mod.replay(body))
    R = core.Run(a.pid, a.tier, seed)
    try:
        mod.main(R)
    except Exception:
        # a crash of the machinery is a broken check, not a verdict: exit status 2, no VIOLATION line
        traceback.print_exc()
        print(f"CHECK-ERROR property={a.pid}: the check itself crashed (see traceback)")
        sys.exit(2)
    rc = R.finish()
    print(f"{a.pid} tier={a.tier} seed={seed}: obligations {len(R.proof['discharged']) if R.proof else 0}/"
          f"{len(R.proof['obligations']) if R.proof else 0}, cases {R.evaluations} ({len(R.distinct)} distinct non-trivial), "
          f"model/impl mismatches {len(R.mismatches)}, oracle failures {len(R.oracle_failures)}, exit {rc}")
    sys.exit(rc)


if __name__ == "__main__":
    main()
