"""translator for C18 (pure `ast`, never imports the code it reads; fail-closed).

1. `compile_sites`: every function of the library whose body calls is_compiling()  (file, qualified name) -- as before.
2. `site_shapes`: for every such function, and for every function that RECEIVES the flag through a keyword parameter
   (`_propagate_lock(..., is_compiling=flag)`), the two specialisations of its body -- flag := True (compile) and
   flag := False (eager) -- obtained by partial evaluation:
     * flag uses: the call `is_compiling()`, a local `v = is_compiling()`, a parameter named is_compiling / is_dynamo
       (with the default idiom `if p is None: p = is_compiling()`);
     * `if`/conditional expressions whose test folds to a constant are replaced by the selected arm; `A and flag`,
       `A or flag`, `not flag` are folded in test position only, and a dropped operand must be syntactically pure;
     * code after an unconditional return/raise in a spliced arm is pruned.
   Each specialisation is linearised into tokens:
     TVal s    a value-carrying statement (normalised `ast.dump`, or `#sha1` of it for statements shared by both arms
               or longer than 300 characters),
     TOpen s / TElse / TClose   a compound statement kept in the residual (header dump),
     TBk l d   a statement (or `with` header, or a whole `if` block with a pure test) that exists in one arm only and
               has the syntactic form of bookkeeping: l lists (category, name) pairs -- call / store / with / wraps /
               refuse -- which the Coq side checks against its allow-list.
   A use of the flag that none of the rules understands leaves the constant in the dump (the two sides then differ) and is
   also recorded in `s_opaque`.
The Coq predicate `guard_shape_ok` (Model/C18_SiteShape.v) compares the TVal/TOpen/TElse/TClose streams of the two
sides and checks every TBk pair against the allow-list; Props/C18.v proves it for every site classified Guard."""
import ast
import copy
import hashlib
import os

from .core import COQ, REPO
from .translate import TranslateError, translator, write_if_changed

SKIP_DIRS = {"csrc", "__pycache__"}
FLAG_FN = "is_compiling"
FLAG_PARAMS = ("is_compiling", "is_dynamo")
# calls allowed inside an operand that is dropped when a test is folded (`X or True` -> True)
PURE_CALLS = {"isinstance", "len", "skip_existing", "is_initialized", "getattr", "hasattr"}
FUNC_T = (ast.FunctionDef, ast.AsyncFunctionDef)
SCOPE_T = (ast.FunctionDef, ast.AsyncFunctionDef, ast.ClassDef, ast.Lambda)


# ------------------------------------------------------------------ small helpers
def is_flag_call(n):
    if isinstance(n, ast.Call) and not n.args and not n.keywords:
        f = n.func
        name = f.id if isinstance(f, ast.Name) else (f.attr if isinstance(f, ast.Attribute) else None)
        return name == FLAG_FN
    return False


def any_flag_call(n):
    """any call named is_compiling (with or without arguments) -- the site list of the first table"""
    if isinstance(n, ast.Call):
        f = n.func
        name = f.id if isinstance(f, ast.Name) else (f.attr if isinstance(f, ast.Attribute) else None)
        return name == FLAG_FN
    return False


def marker(b):
    c = ast.Constant(value=bool(b))
    c._flag = True
    return c


def is_marker(n):
    return isinstance(n, ast.Constant) and getattr(n, "_flag", False)


def dotted(e):
    """a.b.c for a pure Name/Attribute chain (leading `self.` removed), else None"""
    parts = []
    while isinstance(e, ast.Attribute):
        parts.append(e.attr)
        e = e.value
    if not isinstance(e, ast.Name):
        return None
    parts.append(e.id)
    parts.reverse()
    if len(parts) > 1 and parts[0] in ("self", "_self", "cls"):
        parts = parts[1:]
    return ".".join(parts)


def pure(e):
    if isinstance(e, (ast.Name, ast.Constant)):
        return True
    if isinstance(e, ast.Attribute):
        return pure(e.value)
    if isinstance(e, ast.UnaryOp):
        return pure(e.operand)
    if isinstance(e, ast.BoolOp):
        return all(pure(v) for v in e.values)
    if isinstance(e, ast.Compare):
        return pure(e.left) and all(pure(c) for c in e.comparators)
    if isinstance(e, ast.Subscript):
        return pure(e.value) and pure(e.slice)
    if isinstance(e, ast.Call):
        d = dotted(e.func)
        return (d is not None and d.split(".")[-1] in PURE_CALLS and all(pure(a) for a in e.args)
                and all(pure(k.value) for k in e.keywords))
    return False


class Norm(ast.NodeTransformer):
    """semantic-preserving normalisation applied before dumping:
       [x for x in E] -> list(E), {x for x in E} -> set(E) (identity comprehensions); annotated assignment -> assignment"""

    def _ident(self, node, ctor):
        self.generic_visit(node)
        if (len(node.generators) == 1 and not node.generators[0].ifs and not node.generators[0].is_async
                and isinstance(node.generators[0].target, ast.Name) and isinstance(node.elt, ast.Name)
                and node.elt.id == node.generators[0].target.id):
            return ast.Call(func=ast.Name(id=ctor, ctx=ast.Load()), args=[node.generators[0].iter], keywords=[])
        return node

    def visit_ListComp(self, node):
        return self._ident(node, "list")

    def visit_SetComp(self, node):
        return self._ident(node, "set")

    def visit_AnnAssign(self, node):
        self.generic_visit(node)
        if node.value is not None and node.simple:
            return ast.Assign(targets=[node.target], value=node.value)
        return node


def dump(node):
    n = Norm().visit(copy.deepcopy(node))
    return ast.dump(n, annotate_fields=True, include_attributes=False)


def short(s, always=False):
    if always or len(s) > 300:
        return "#" + hashlib.sha1(s.encode()).hexdigest()[:16] + "|" + s[:(60 if always else 100)]
    return s


def header_dump(st):
    """dump of a compound statement without its blocks"""
    c = copy.copy(st)
    for f in ("body", "orelse", "finalbody"):
        if hasattr(c, f):
            setattr(c, f, [])
    if isinstance(c, ast.Try):
        c.handlers = []
    return dump(c)


# ------------------------------------------------------------------ partial evaluation of one function
class Site:
    def __init__(self, rel, qual, origin):
        self.rel, self.qual, self.origin = rel, qual, origin
        self.shapes, self.opaque, self.forwards, self.dropped = [], [], [], []
        self.tok = {True: [], False: []}


class Spec:
    def __init__(self, fn, site, flagvars):
        self.fn, self.site, self.flagvars = fn, site, flagvars
        self.uses = 0

    # ---- expressions
    def is_use(self, e):
        return is_flag_call(e) or (isinstance(e, ast.Name) and isinstance(e.ctx, ast.Load) and e.id in self.flagvars)

    def subst(self, e, b, test=False):
        """copy of e with flag uses replaced; [test]: e is in test position (boolean folding allowed)"""
        if e is None:
            return None
        if self.is_use(e):
            self.uses += 1
            return marker(b)
        if isinstance(e, SCOPE_T):
            for n in ast.walk(e):
                if isinstance(n, ast.Name) and n.id in self.flagvars:
                    self.site.opaque.append("closure-use")
            return e
        if isinstance(e, ast.IfExp):
            t = self.subst(e.test, b, test=True)
            if is_marker(t):
                if b:
                    self.site.shapes.append("ifexp")
                return self.subst(e.body if t.value else e.orelse, b, test)
            return ast.IfExp(test=t, body=self.subst(e.body, b), orelse=self.subst(e.orelse, b))
        if test and isinstance(e, ast.UnaryOp) and isinstance(e.op, ast.Not):
            x = self.subst(e.operand, b, test=True)
            return marker(not x.value) if is_marker(x) else ast.UnaryOp(op=e.op, operand=x)
        if test and isinstance(e, ast.BoolOp):
            absorbing = isinstance(e.op, ast.Or)        # Or: True absorbs; And: False absorbs
            new = []
            for v in e.values:
                x = self.subst(v, b, test=True)
                if is_marker(x):
                    if x.value == absorbing:
                        if all(pure(y) for y in new):
                            if b:
                                self.site.dropped.extend(short(dump(y)) for y in new)
                            return marker(absorbing)
                        new.append(x)                    # impure operand before it: leave unreduced (sides will differ)
                        self.site.opaque.append("impure-operand-before-flag")
                    # neutral element: dropped
                else:
                    new.append(x)
            if not new:
                return marker(not absorbing)
            return new[0] if len(new) == 1 else ast.BoolOp(op=e.op, values=new)
        if isinstance(e, ast.Call):
            kws = []
            for k in e.keywords:
                if self.is_use(k.value) and k.arg in FLAG_PARAMS:
                    # the statement is the same on both sides (the callee is analysed as a site of its own)
                    callee = dotted(e.func) or "?"
                    if b:
                        self.site.forwards.append((callee.split(".")[-1], k.arg))
                        self.site.shapes.append("forward-kw")
                    kws.append(ast.keyword(arg=k.arg, value=ast.Name(id="FLAG", ctx=ast.Load())))
                else:
                    kws.append(ast.keyword(arg=k.arg, value=self.subst(k.value, b)))
            return ast.Call(func=self.subst(e.func, b), args=[self.subst(a, b) for a in e.args], keywords=kws)
        # generic: rebuild the node with substituted children
        new = copy.copy(e)
        for f, v in ast.iter_fields(e):
            if isinstance(v, ast.AST):
                setattr(new, f, self.subst(v, b) if isinstance(v, (ast.expr, ast.comprehension, ast.keyword, ast.withitem, ast.arguments, ast.arg)) else v)
            elif isinstance(v, list):
                setattr(new, f, [self.subst(x, b) if isinstance(x, ast.AST) else x for x in v])
        return new

    # ---- statements -> residual tree
    def flagvar_def(self, st):
        return (isinstance(st, ast.Assign) and len(st.targets) == 1 and isinstance(st.targets[0], ast.Name)
                and st.targets[0].id in self.flagvars and is_flag_call(st.value))

    def param_default(self, st):
        return (isinstance(st, ast.If) and not st.orelse and len(st.body) == 1 and self.flagvar_def(st.body[0])
                and isinstance(st.test, ast.Compare) and isinstance(st.test.left, ast.Name)
                and st.test.left.id == st.body[0].targets[0].id and len(st.test.ops) == 1
                and isinstance(st.test.ops[0], ast.Is) and isinstance(st.test.comparators[0], ast.Constant)
                and st.test.comparators[0].value is None)

    def stmts(self, lst, b, arm):
        out = []
        for st in lst:
            out.extend(self.stmt(st, b, arm))
            if out and out[-1]["kind"] == "simple" and isinstance(out[-1]["st"], (ast.Return, ast.Raise, ast.Continue, ast.Break)):
                break                                   # the rest of this block is unreachable
        return out

    def stmt(self, st, b, arm):
        if self.flagvar_def(st):
            if b:
                self.site.shapes.append("flagvar")
            return []
        if self.param_default(st):
            if b:
                self.site.shapes.append("param-default")
            return []
        if isinstance(st, ast.Pass):
            return []
        if isinstance(st, SCOPE_T):
            self.subst(st, b)
            return [dict(kind="simple", st=st, arm=arm, dep=False)]
        u0 = self.uses
        if isinstance(st, ast.If):
            t = self.subst(st.test, b, test=True)
            if is_marker(t):
                chosen = st.body if t.value else st.orelse
                if b:
                    pos = self._polarity(st.test)
                    lab = "if" + ("" if pos else "-not") + ("-else" if st.orelse else "-noelse")
                    if not (isinstance(st.test, ast.Call) or isinstance(st.test, ast.Name)
                            or (isinstance(st.test, ast.UnaryOp) and self.is_use(st.test.operand))):
                        lab += "-boolop"
                    comp_arm = st.body if pos else st.orelse
                    eag_arm = st.orelse if pos else st.body
                    for nm, a in (("compile", comp_arm), ("eager", eag_arm)):
                        if a and isinstance(a[-1], (ast.Return, ast.Raise)):
                            lab += f"+{nm}-arm-exits"
                    self.site.shapes.append(lab)
                return self.stmts(chosen, b, True)
            dep = self.uses > u0
            if dep and b:
                self.site.shapes.append("if-partial-test")
            a2 = arm or dep
            return [dict(kind="compound", st=st, hdr=ast.If(test=t, body=[], orelse=[]), arm=a2, dep=dep,
                         blocks=[self.stmts(st.body, b, a2), self.stmts(st.orelse, b, a2)])]
        if isinstance(st, (ast.For, ast.AsyncFor, ast.While, ast.With, ast.AsyncWith, ast.Try)):
            hdr = copy.copy(st)
            blocks = []
            if isinstance(st, (ast.For, ast.AsyncFor)):
                hdr.iter = self.subst(st.iter, b)
            elif isinstance(st, ast.While):
                hdr.test = self.subst(st.test, b)
            elif isinstance(st, (ast.With, ast.AsyncWith)):
                hdr.items = [ast.withitem(context_expr=self.subst(i.context_expr, b), optional_vars=i.optional_vars) for i in st.items]
            dep = self.uses > u0
            a2 = arm
            if isinstance(st, ast.Try):
                blocks = [self.stmts(st.body, b, a2)] + [self.stmts(h.body, b, a2) for h in st.handlers] \
                    + [self.stmts(st.orelse, b, a2), self.stmts(st.finalbody, b, a2)]
                hdr.handlers = []
                hdr._handler_types = [dump(h.type) if h.type is not None else "None" for h in st.handlers]
            else:
                blocks = [self.stmts(st.body, b, a2)] + ([self.stmts(st.orelse, b, a2)] if getattr(st, "orelse", None) else [])
            hdr.body, hdr.orelse, hdr.finalbody = [], [], []
            return [dict(kind="compound", st=st, hdr=hdr, arm=arm or dep, dep=dep, blocks=blocks)]
        if hasattr(ast, "Match") and isinstance(st, ast.Match):
            self.site.opaque.append("match-statement")
        new = self.subst(st, b)
        dep = self.uses > u0
        return [dict(kind="simple", st=new, arm=arm, dep=dep)]

    def _polarity(self, test):
        """True when the test is true under compile (flag=True)"""
        sp = Spec(self.fn, Site("", "", ""), self.flagvars)
        t = sp.subst(test, True, test=True)
        return bool(t.value) if is_marker(t) else True


# ------------------------------------------------------------------ tokens
def bk_of_simple(st, side_compile):
    """(category, name) pairs if the statement has the syntactic form of bookkeeping, else None"""
    if isinstance(st, ast.Expr) and isinstance(st.value, ast.Call):
        d = dotted(st.value.func)
        return [("call", d)] if d else None
    if isinstance(st, (ast.Assign, ast.AugAssign, ast.AnnAssign)):
        tg = st.targets if isinstance(st, ast.Assign) else [st.target]
        v = st.value
        if (isinstance(st, ast.Assign) and len(tg) == 1 and isinstance(tg[0], ast.Name) and isinstance(v, ast.Call)
                and isinstance(v.func, ast.Call) and dotted(v.func.func) in ("functools.wraps", "wraps")
                and len(v.args) == 1 and isinstance(v.args[0], ast.Name) and v.args[0].id == tg[0].id):
            return [("wraps", tg[0].id)]
        out = []
        for t in tg:
            if isinstance(t, ast.Name):
                out.append(("store", t.id))
            elif isinstance(t, ast.Attribute):
                out.append(("store", t.attr))
            elif isinstance(t, ast.Subscript):
                d = dotted(t.value)
                if d is None:
                    return None
                if isinstance(t.slice, ast.Constant) and isinstance(t.slice.value, str):
                    out.append(("store", d.split(".")[-1] + "[" + t.slice.value + "]"))
                else:
                    out.append(("store", d.split(".")[-1] + "[]"))
            else:
                return None
        return out
    if isinstance(st, ast.Raise) and side_compile:
        e = st.exc.func if isinstance(st.exc, ast.Call) else st.exc
        d = dotted(e) if e is not None else None
        return [("refuse", d or "?")]
    return None


def cm_name(e):
    if isinstance(e, ast.Call):
        d = dotted(e.func)
        if d and d.split(".")[-1] == "unlock_":
            return "unlock_"
        return d.split(".")[-1] if d else None
    if isinstance(e, ast.IfExp):
        a, b = cm_name(e.body), cm_name(e.orelse)
        return (a + "|" + b) if a and b else None
    d = dotted(e)
    return d.split(".")[-1] if d else None


def block_bk(nodes, side_compile):
    """all leaves of the block are bookkeeping-shaped and every test on the way is pure -> list of pairs, else None"""
    out = []
    for n in nodes:
        if n["kind"] == "simple":
            r = bk_of_simple(n["st"], side_compile)
            if r is None:
                return None
            out.extend(r)
        else:
            if not isinstance(n["hdr"], ast.If) or not pure(n["hdr"].test):
                return None
            for blk in n["blocks"]:
                r = block_bk(blk, side_compile)
                if r is None:
                    return None
                out.extend(r)
    return out


def _rebuild(n):
    """the residual statement as an ast node (for the dump kept next to a bookkeeping-shaped block)"""
    if n["kind"] == "simple":
        return n["st"]
    h = copy.copy(n["hdr"])
    h.body = [_rebuild(x) for x in n["blocks"][0]] or [ast.Pass()]
    if len(n["blocks"]) > 1:
        h.orelse = [_rebuild(x) for x in n["blocks"][1]]
    return h


def tokens(nodes, side_compile, out):
    for n in nodes:
        if n["kind"] == "simple":
            if not (n["arm"] or n["dep"]):
                out.append(("V", short(dump(n["st"]), always=True)))
                continue
            r = bk_of_simple(n["st"], side_compile)
            if r is not None:
                out.append(("B", r, short(dump(n["st"]))))
            else:
                out.append(("V", short(dump(n["st"]))))
            continue
        hdr = n["hdr"]
        if isinstance(hdr, (ast.With, ast.AsyncWith)) and (n["arm"] or n["dep"]):
            names = [cm_name(i.context_expr) if i.optional_vars is None else None for i in hdr.items]
            if all(names):
                out.append(("B", [("with", x) for x in names], short(header_dump(hdr))))
                tokens(n["blocks"][0], side_compile, out)
                continue
        if isinstance(hdr, ast.If) and (n["arm"] or n["dep"]) and pure(hdr.test):
            r = block_bk([n], side_compile)
            if r is not None and r:
                out.append(("B", r, short(dump(_rebuild(n)))))
                continue
        h = header_dump(hdr)
        if isinstance(hdr, ast.Try):
            h += "handlers=" + ",".join(hdr._handler_types)
        out.append(("O", short(h, always=not (n["arm"] or n["dep"]))))
        for i, blk in enumerate(n["blocks"]):
            if i:
                out.append(("E", ""))
            tokens(blk, side_compile, out)
        out.append(("C", ""))


# ------------------------------------------------------------------ per file
def functions_of(tree):
    """(qualname, FunctionDef) for every function, innermost scopes included"""
    out = []

    def visit(node, qual):
        for ch in ast.iter_child_nodes(node):
            if isinstance(ch, FUNC_T + (ast.ClassDef,)):
                q = qual + [ch.name]
                if isinstance(ch, FUNC_T):
                    out.append((".".join(q), ch))
                visit(ch, q)
            else:
                visit(ch, qual)
    visit(tree, [])
    return out


def own_nodes(fn):
    """nodes of fn's own scope (nested function / class / lambda bodies excluded, the nested node itself included)"""
    todo = list(fn.body)
    while todo:
        n = todo.pop()
        yield n
        if isinstance(n, SCOPE_T):
            continue
        todo.extend(ast.iter_child_nodes(n))


def analyse(rel, qual, fn, origin):
    site = Site(rel, qual, origin)
    flagvars = set()
    params = [a.arg for a in fn.args.posonlyargs + fn.args.args + fn.args.kwonlyargs]
    for p in params:
        if p in FLAG_PARAMS:
            flagvars.add(p)
    for n in own_nodes(fn):
        if isinstance(n, ast.Assign) and is_flag_call(n.value) and len(n.targets) == 1 and isinstance(n.targets[0], ast.Name):
            flagvars.add(n.targets[0].id)
    # a flag variable may only be written by `v = is_compiling()`
    for n in own_nodes(fn):
        if isinstance(n, (ast.Assign, ast.AugAssign, ast.AnnAssign, ast.For, ast.NamedExpr, ast.With)):
            tg = []
            if isinstance(n, ast.Assign):
                tg = n.targets
            elif isinstance(n, (ast.AugAssign, ast.AnnAssign, ast.NamedExpr, ast.For)):
                tg = [n.target]
            elif isinstance(n, ast.With):
                tg = [i.optional_vars for i in n.items if i.optional_vars is not None]
            for t in tg:
                for x in ast.walk(t):
                    if isinstance(x, ast.Name) and x.id in flagvars:
                        if not (isinstance(n, ast.Assign) and is_flag_call(n.value) and len(n.targets) == 1):
                            site.opaque.append("flag-variable-rebound")
    for b in (True, False):
        sp = Spec(fn, site, flagvars)
        tree = sp.stmts(fn.body, b, False)
        tokens(tree, b, site.tok[b])
        if b:
            site.nuses = sp.uses
    # a surviving constant marker = a use no rule understood
    return site


def scan(root):
    files = []
    for d, dirs, fs in os.walk(root):
        dirs[:] = sorted(x for x in dirs if x not in SKIP_DIRS)
        for f in sorted(fs):
            if f.endswith(".py"):
                p = os.path.join(d, f)
                files.append((os.path.relpath(p, root), ast.parse(open(p).read())))
    call_sites = set()
    sites = {}
    module_level = []
    # pass 1: functions that call is_compiling()
    per_file = {}
    for rel, tree in files:
        funcs = functions_of(tree)
        per_file[rel] = funcs
        innermost = {}
        for q, fn in funcs:
            for n in own_nodes(fn):
                if any_flag_call(n):
                    innermost.setdefault(id(fn), (q, fn))
        covered = set()
        for q, fn in innermost.values():
            call_sites.add((rel, q))
            s = analyse(rel, q, fn, "call")
            sites.setdefault((rel, q), []).append((fn.lineno, s))
            for n in own_nodes(fn):
                if any_flag_call(n):
                    covered.add(id(n))
        for n in ast.walk(tree):
            if any_flag_call(n) and id(n) not in covered:
                module_level.append((rel, n.lineno))
    # the flag function handed around as an object (not called) would escape the analysis: refuse
    for rel, tree in files:
        calls = {id(n.func) for n in ast.walk(tree) if isinstance(n, ast.Call)}
        params = {}
        for q, fn in per_file[rel]:
            ps = {a.arg for a in fn.args.posonlyargs + fn.args.args + fn.args.kwonlyargs}
            for n in own_nodes(fn):
                params[id(n)] = ps
        for n in ast.walk(tree):
            is_ref = (isinstance(n, ast.Name) and n.id == FLAG_FN) or (isinstance(n, ast.Attribute) and n.attr == FLAG_FN)
            if is_ref and isinstance(n.ctx, ast.Load) and id(n) not in calls and FLAG_FN not in params.get(id(n), ()):
                raise TranslateError(f"{rel}:{n.lineno}: is_compiling referenced without being called")
    if module_level:
        raise TranslateError(f"is_compiling() called outside a function body (decorator/default/module level): {module_level[:3]}")
    # pass 2: functions that receive the flag through a keyword parameter named in a forward edge
    fw = set()
    for lst in sites.values():
        for _, s in lst:
            fw |= set(s.forwards)
    done = set()
    while fw - done:
        callee, kw = sorted(fw - done)[0]
        done.add((callee, kw))
        found = 0
        for rel, funcs in per_file.items():
            for q, fn in funcs:
                params = [a.arg for a in fn.args.posonlyargs + fn.args.args + fn.args.kwonlyargs]
                if fn.name == callee and kw in params:
                    found += 1
                    if any(ln == fn.lineno for ln, _ in sites.get((rel, q), [])):
                        continue
                    s = analyse(rel, q, fn, "param")
                    sites.setdefault((rel, q), []).append((fn.lineno, s))
                    fw |= set(s.forwards)
        if not found:
            raise TranslateError(f"the flag is forwarded as {kw}= to {callee}() but no function of that name takes it")
    return sorted(call_sites), sites


# ------------------------------------------------------------------ Coq output
def cs(s):
    s = "".join(ch if 32 <= ord(ch) < 127 else "?" for ch in s)
    return '"' + s.replace('"', '""') + '"'


def clist(items, sep="; "):
    return "[" + sep.join(items) + "]"


def ctok(t):
    k, v = t[0], t[1]
    if k == "V":
        return "TVal " + cs(v)
    if k == "O":
        return "TOpen " + cs(v)
    if k == "E":
        return "TElse"
    if k == "C":
        return "TClose"
    return "TBk " + clist(["(" + cs(a) + ", " + cs(b) + ")" for a, b in v]) + " " + cs(t[2])


def merged(sites):
    """one record per (file, qualname): functions sharing a qualified name (two `wrapped_func` variants) are concatenated"""
    out = []
    for (rel, q), lst in sorted(sites.items()):
        lst = sorted(lst, key=lambda x: x[0])
        m = Site(rel, q, "call" if any(s.origin == "call" for _, s in lst) else "param")
        for _, s in lst:
            m.shapes += s.shapes
            m.opaque += s.opaque
            m.forwards += s.forwards
            m.dropped += s.dropped
            for b in (True, False):
                m.tok[b] = m.tok[b] + ([("V", "---next-definition---")] if len(lst) > 1 and s is not lst[0][1] else []) + s.tok[b]
        out.append(m)
    return out


@translator("c18_sites")
def c18_sites():
    root = os.path.join(REPO, "tensordict")
    if not os.path.isdir(root):
        raise TranslateError("tensordict package not found")
    call_sites, sites = scan(root)
    if len(call_sites) < 10:
        raise TranslateError("suspiciously few is_compiling sites: the source layout changed")
    recs = merged(sites)
    body = []
    for m in recs:
        body.append(
            "  {| s_file := %s; s_func := %s; s_origin := %s;\n     s_shapes := %s;\n     s_opaque := %s;\n     s_forwards := %s;\n"
            "     s_compile := %s;\n     s_eager := %s |}" % (
                cs(m.rel), cs(m.qual), cs(m.origin), clist([cs(x) for x in m.shapes]),
                clist([cs(x) for x in sorted(set(m.opaque))]),
                clist(["(" + cs(a) + ", " + cs(b) + ")" for a, b in sorted(set(m.forwards))]),
                clist([ctok(t) for t in m.tok[True]], ";\n       "), clist([ctok(t) for t in m.tok[False]], ";\n       ")))
    txt = ("(* GENERATED from /repo by harness/tr_c18.py on every run of ./check C18 *)\n"
           "From Coq Require Import List String.\nImport ListNotations.\nFrom TD Require Import Model.C18_SiteShape.\nOpen Scope string_scope.\n"
           "Definition compile_sites : list (string * string) :=\n  "
           + clist(["(" + cs(a) + ", " + cs(b) + ")" for a, b in call_sites]) + ".\n\n"
           "Definition site_shapes : list site :=\n[\n" + ";\n".join(body) + "\n].\n")
    write_if_changed(os.path.join(COQ, "Gen", "C18_sites.v"), txt)
    return {"call_sites": call_sites, "records": recs}
