"""translator for C18: every function of the library whose body tests is_compiling() (ast only).
A site is (file, qualified function name); the Coq side classifies each known site (dual helper modelled / guard that only
skips eager-only bookkeeping / nn-module plumbing) and proves that no unclassified site exists."""
import ast
import os

from .core import COQ, REPO
from .translate import TranslateError, coq_list, coq_str, translator, write_if_changed

SKIP_DIRS = {"csrc", "__pycache__"}


def sites_of(path, rel):
    tree = ast.parse(open(path).read())
    out = set()

    def visit(node, qual):
        for ch in ast.iter_child_nodes(node):
            if isinstance(ch, (ast.FunctionDef, ast.AsyncFunctionDef, ast.ClassDef)):
                visit(ch, qual + [ch.name])
            else:
                visit(ch, qual)
        if isinstance(node, ast.Call):
            f = node.func
            name = f.id if isinstance(f, ast.Name) else (f.attr if isinstance(f, ast.Attribute) else None)
            if name == "is_compiling":
                out.add((rel, ".".join(qual) if qual else "<module>"))
    visit(tree, [])
    return out


@translator("c18_sites")
def c18_sites():
    root = os.path.join(REPO, "tensordict")
    if not os.path.isdir(root):
        raise TranslateError("tensordict package not found")
    sites = set()
    for d, dirs, files in os.walk(root):
        dirs[:] = [x for x in dirs if x not in SKIP_DIRS]
        for f in files:
            if f.endswith(".py"):
                p = os.path.join(d, f)
                sites |= sites_of(p, os.path.relpath(p, root))
    if len(sites) < 10:
        raise TranslateError("suspiciously few is_compiling sites: the source layout changed")
    sites = sorted(sites)
    txt = ("(* GENERATED from /repo by harness/tr_c18.py on every run of ./check C18 *)\n"
           "From Coq Require Import List String.\nImport ListNotations.\nOpen Scope string_scope.\n"
           "Definition compile_sites : list (string * string) :=\n  "
           + coq_list(["(" + coq_str(a) + ", " + coq_str(b) + ")" for a, b in sites]) + ".\n")
    write_if_changed(os.path.join(COQ, "Gen", "C18_sites.v"), txt)
    return sites
